"""Shared generators / oracle / marshalling helpers of the deterministic-law checks (C01, C03, C04).

* generators build a *description* (the nested dict `rdsystem_from_dict` reads, with units declared or inherited
  at every nesting level, bare numbers and explicit unit strings) together with the *physical system* it denotes
  (`phys`: exact SI rationals), computed by this module's own reading of the documented semantics
  (a bare number is in the owner's units system with the field's dimension; "units" is inherit / default / dict);
* `oracle_rate(phys, x)` is the closed rate law of the statement, written with exact rationals, independent of the
  code's loops and of the Lean model's algorithm;
* `sys_json(system)` reads a constructed `RDSystem` into the driver's "sys" object (SI values + dimensions).
"""
from fractions import Fraction
import math
from common import frac, rstr, rparse, close

PREFIX = {"k": Fraction(1000), "": Fraction(1), "d": Fraction(1, 10), "c": Fraction(1, 100), "m": Fraction(1, 1000),
          "dm": Fraction(1, 10 ** 4), "cm": Fraction(1, 10 ** 5), "µ": Fraction(1, 10 ** 6), "n": Fraction(1, 10 ** 9),
          "p": Fraction(1, 10 ** 12), "f": Fraction(1, 10 ** 15)}
NA = Fraction(602214076 * 10 ** 15)
SPACE = ["km", "m", "dm", "cm", "mm", "dmm", "cmm", "µm", "nm", "pm", "fm"]
TIME = ["h", "min", "s", "ds", "cs", "ms", "µs", "ns", "ps", "fs"]
QTY = ["kmol", "mol", "dmol", "cmol", "mmol", "µmol", "nmol", "pmol", "fmol", "molecule"]
DEFAULT_SYS = ("µm", "s", "molecule")
SI_SYS = ("m", "s", "molecule")

D_QTY = (0, 0, 1)
D_VOL = (3, 0, 0)
D_SFC = (2, 0, 0)
D_LEN = (1, 0, 0)
D_TIME = (0, 1, 0)
D_DENS = (-3, 0, 1)
D_DIFF = (2, -1, 0)
D_RATE = (0, -1, 1)


def k_dim(order):
    return (3 * order - 3, -1, 1 - order)


def si_space(s):
    return PREFIX[s[:-1]]


def si_time(s):
    return {"h": Fraction(3600), "min": Fraction(60)}.get(s) or PREFIX[s[:-1]]


def si_qty(s):
    return Fraction(1) if s == "molecule" else PREFIX[s[:-3]] * NA


def si_factor(sys, dim):
    return si_space(sys[0]) ** dim[0] * si_time(sys[1]) ** dim[1] * si_qty(sys[2]) ** dim[2]


def sysj(s):
    return {"space": s[0], "time": s[1], "quantity": s[2]}


def units_text(sys, dim):
    parts = []
    for sym, e in zip(sys, dim):
        if e != 0:
            parts.append(sym if e == 1 else "%s%d" % (sym, e))
    return ".".join(parts)


def sys_of(us):
    """(space, time, quantity) of a repository UnitsSystem"""
    return (us.space, us.time, us.quantity)


def dim_of(ud):
    return (ud.space, ud.time, ud.quantity)


def rand_sys(rng, moderate=False):
    if moderate:
        return (rng.choice(["mm", "dmm", "cmm", "µm", "nm", "dm", "cm"]), rng.choice(["min", "s", "ds", "cs", "ms", "µs"]),
                rng.choice(["molecule", "fmol", "pmol", "nmol", "µmol"]))
    return (rng.choice(SPACE), rng.choice(TIME), rng.choice(QTY))


def nice_float(x):
    """a double close to x with a short decimal representation (6 significant digits)"""
    return float("%.6g" % float(x))


# ---------------------------------------------------------------------------------------------
# units declarations
# ---------------------------------------------------------------------------------------------
def declare_units(rng, parent, p_explicit=0.35, moderate=False, allow_partial=True):
    """a value for a "units" key (or None = key absent) and the resolved system for an owner whose parent's
    system is `parent` (every `*_from_dict` below the script defaults to "inherit")"""
    r = rng.random()
    if p_explicit > 0 and allow_partial and rng.random() < 0.08:
        return {}, DEFAULT_SYS          # the empty dictionary: every omitted key takes the default unit (NOT the parent's)
    if r < p_explicit:
        s = rand_sys(rng, moderate)
        d = sysj(s)
        if allow_partial and rng.random() < 0.25:
            # omitted keys take the default unit of that kind
            drop = rng.choice(["space", "time", "quantity"])
            del d[drop]
            s = tuple(DEFAULT_SYS[i] if k == drop else s[i] for i, k in enumerate(["space", "time", "quantity"]))
        return d, s
    if r < p_explicit + 0.1:
        return "inherit", parent
    if r < p_explicit + 0.2:
        return "default", DEFAULT_SYS
    return None, parent


class Field:
    """helper turning natural-unit physical values (µm, s, molecule) into description entries + exact SI values"""

    def __init__(self, rng, p_explicit=0.3, moderate=False):
        self.rng = rng
        self.p_explicit = p_explicit
        self.moderate = moderate

    def scalar(self, nat, dim, owner, force_bare=False):
        """nat: value in (µm, s, molecule); returns (description entry, SI Fraction)"""
        rng = self.rng
        si_nat = Fraction(nat) * si_factor(DEFAULT_SYS, dim)
        if not force_bare and rng.random() < self.p_explicit:
            u = rand_sys(rng, self.moderate)
            v = nice_float(si_nat / si_factor(u, dim))
            txt = units_text(u, dim)
            # a unit text mentions only the bases with non-zero exponent; the others are irrelevant
            return ("%r %s" % (v, txt)).strip(), Fraction(v) * si_factor(u, dim)
        v = nice_float(si_nat / si_factor(owner, dim))
        if v == int(v) and abs(v) < 1e6 and rng.random() < 0.5:
            v = int(v)
        return v, Fraction(v) * si_factor(owner, dim)

    def per_env(self, nats, dim, owner, envs, allow_dict=True):
        """nats: list per environment (natural units).  Returns (entry, [SI per env]) where the entry is a scalar
        (when all equal) or a dict with/without "default" """
        rng = self.rng
        if len(set(nats)) == 1 and (not allow_dict or rng.random() < 0.6):
            e, si = self.scalar(nats[0], dim, owner)
            return e, [si] * len(envs)
        d = {}
        out = [None] * len(envs)
        # optional default covering the most common value
        use_default = rng.random() < 0.5
        default_val = None
        if use_default:
            default_val = max(set(nats), key=nats.count)
            e, si = self.scalar(default_val, dim, owner)
            d["default"] = e
            default_si = si
        order = list(range(len(envs)))
        rng.shuffle(order)
        for k in order:
            if use_default and nats[k] == default_val and rng.random() < 0.8:
                out[k] = default_si
                continue
            if nats[k] == 0 and not use_default and rng.random() < 0.5:
                out[k] = Fraction(0)          # key absent, no default -> 0
                continue
            e, si = self.scalar(nats[k], dim, owner)
            d[envs[k]] = e
            out[k] = si
        if not d:
            e, si = self.scalar(0, dim, owner)
            return e, [si] * len(envs)
        return d, out


# ---------------------------------------------------------------------------------------------
# system generator
# ---------------------------------------------------------------------------------------------
LABELS = ["C", "A", "B", "X1"]          # declaration order is NOT alphabetical (tables built over sorted labels show)
ENVS = ["membrane", "cytosol", "b"]   # declaration order is NOT alphabetical


def gen_reaction_sides(rng, ns, max_order):
    def side():
        order = rng.choice([0, 1, 1, 2, 2, 3, 4][:max(2, min(7, max_order + 3))])
        order = min(order, max_order)
        v = [0] * ns
        for _ in range(order):
            v[rng.randrange(ns)] += 1
        return v
    sub, prod = side(), side()
    if sub == prod and rng.random() < 0.8:
        prod = side()
    return sub, prod


def side_text(v, labels, rng):
    parts = []
    for s, c in enumerate(v):
        if c == 0:
            continue
        if c > 1 and rng.random() < 0.4:
            parts += [labels[s]] * c           # repeated species "A + A"
        elif c == 1:
            parts.append(labels[s])
        else:
            parts.append("%d %s" % (c, labels[s]))
    rng.shuffle(parts)
    return " + ".join(parts)


def gen_system(rng, kind=None, max_species=3, max_reactions=3, max_cells=8, max_order=4, parent=DEFAULT_SYS,
               units_everywhere=True, moderate=False, chem_p=0.0, allow_parallel=False, p_explicit=0.3,
               p_units=0.35, non_growing=False, min_env=1):
    """returns (description dict for rdsystem_from_dict, phys, info)"""
    F = Field(rng, p_explicit, moderate)
    pu = p_units if units_everywhere else 0.0
    ns = rng.randint(1, max_species)
    nenv = max(min_env, rng.choice([1, 1, 2, 2, 3]))
    labels = LABELS[:ns]
    envs = ENVS[:nenv]
    kind = kind or rng.choice(["grid", "graph"])
    desc = {}
    u_sys_decl, u_sys = declare_units(rng, parent, pu, moderate)
    if u_sys_decl is not None:
        desc["units"] = u_sys_decl
    # ---- network
    net = {}
    u_net_decl, u_net = declare_units(rng, u_sys, pu, moderate)
    if u_net_decl is not None:
        net["units"] = u_net_decl
    if nenv > 1 or rng.random() < 0.5:
        net["environments"] = list(envs)
    else:
        envs = [""]
    species, phys_D, phys_dens, chem_env = [], [], [], []
    for s in range(ns):
        sd = {"label": labels[s]}
        u_decl, u_sp = declare_units(rng, u_net, pu * 0.6, moderate)
        if u_decl is not None:
            sd["units"] = u_decl
        dn = [rng.choice([0, 0.25, 0.5, 1.0, 2.5, 1.0]) for _ in envs]
        if rng.random() < 0.4:
            dn = [dn[0]] * len(envs)
        e, si = F.per_env(dn, D_DIFF, u_sp, envs)
        if not (e == 0 and rng.random() < 0.5):
            sd["D"] = e
        phys_D.append(si)
        cn = [rng.choice([0, 0.5, 1, 2, 5, 12.5, 40]) for _ in envs]
        if rng.random() < 0.4:
            cn = [cn[0]] * len(envs)
        e, si = F.per_env(cn, D_DENS, u_sp, envs)
        sd["density"] = e
        phys_dens.append(si)
        ce = [False] * len(envs)
        if chem_p > 0 and rng.random() < chem_p:
            if rng.random() < 0.5:
                ce = [True] * len(envs)
                sd["chstt"] = True
            else:
                ce = [rng.random() < 0.5 for _ in envs]
                if rng.random() < 0.5:
                    # a "default" entry plus explicit entries, falsy explicit ones under a truthy default included
                    dflt = rng.random() < 0.65
                    cd = {}
                    if rng.random() < 0.5:
                        cd["default"] = dflt
                    for k in range(len(envs)):
                        if ce[k] != dflt or rng.random() < 0.4:
                            cd[envs[k]] = ce[k]
                    cd["default"] = dflt           # (position of the key in the dict varies)
                else:
                    cd = {envs[k]: ce[k] for k in range(len(envs)) if ce[k] or rng.random() < 0.5}
                sd["chstt"] = cd
        chem_env.append(ce)
        species.append(sd)
    net["species"] = species
    nreac = rng.randint(0, max_reactions)
    reactions, phys_reacs = [], []
    for r in range(nreac):
        sub, prod = gen_reaction_sides(rng, ns, max_order)
        if non_growing and sum(prod) > sum(sub):
            sub, prod = prod, sub          # irreversible, never more products than substrates: amounts cannot blow up
        rd = {"eq": "%s -> %s" % (side_text(sub, labels, rng), side_text(prod, labels, rng))}
        u_decl, u_r = declare_units(rng, u_net, pu * 0.6, moderate)
        if u_decl is not None:
            rd["units"] = u_decl
        kfn = [rng.choice([0, 0.05, 0.3, 1.5, 0.7]) for _ in envs]
        krn = [rng.choice([0, 0, 0.1, 0.7, 2.0]) for _ in envs]
        if rng.random() < 0.5:
            kfn = [kfn[0]] * len(envs)
        if rng.random() < 0.5:
            krn = [krn[0]] * len(envs)
        e, kf_si = F.per_env(kfn, k_dim(sum(sub)), u_r, envs)
        rd["k+"] = e
        if non_growing:
            krn = [0] * len(envs)
        e, kr_si = F.per_env(krn, k_dim(sum(prod)), u_r, envs)
        if non_growing:
            kr_si = [Fraction(0)] * len(envs)
        elif not (e == 0 and rng.random() < 0.5):
            rd["k-"] = e
        else:
            kr_si = [Fraction(0)] * len(envs)
        reactions.append(rd)
        phys_reacs.append({"sub": sub, "prod": prod, "kf": kf_si, "kr": kr_si})
    if reactions or rng.random() < 0.7:
        net["reactions"] = reactions
    desc["network"] = net
    # ---- space
    sp = {}
    u_spc_decl, u_spc = declare_units(rng, u_sys, pu, moderate)
    if u_spc_decl is not None:
        sp["units"] = u_spc_decl
    info = {"kind": kind, "units": {"system": u_sys, "network": u_net, "space": u_spc}}
    if kind == "grid":
        while True:
            w, h, d = rng.choice([1, 1, 2, 2, 3, 4]), rng.choice([1, 1, 2, 3]), rng.choice([1, 1, 2])
            if w * h * d <= max_cells:
                break
        n = w * h * d
        sp.update({"type": "grid", "w": w, "h": h, "d": d})
        if rng.random() < 0.3:
            del sp["type"]
        bc = {}
        per = {}
        for ax in "xyz":
            per[ax] = rng.random() < 0.45
            if per[ax]:
                bc[ax] = "periodical"
            elif rng.random() < 0.3:
                bc[ax] = "reflecting"
        if bc:
            sp["boundary_conditions"] = bc
        env_map = [rng.randrange(len(envs)) for _ in range(n)]
        if len(set(env_map)) == 1 and rng.random() < 0.5:
            sp["cell_env"] = env_map[0]
        else:
            sp["cell_env"] = env_map
        # cell volume = h³ with a dyadic edge (in the units in which the number is written)
        edge_nat = Fraction(rng.choice([2, 4, 5, 8, 12, 16]), 8)
        if rng.random() < 0.3:
            u = rand_sys(rng, moderate)
            hv = edge_nat * si_factor(DEFAULT_SYS, D_LEN) / si_factor(u, D_LEN)
            hv = Fraction(nice_float(hv))
            vol_v = float(hv ** 3)
            sp["cell_volume"] = "%r %s" % (vol_v, units_text(u, D_VOL))
            edge_si = hv * si_factor(u, D_LEN)
            vol_si = Fraction(vol_v) * si_factor(u, D_VOL)
        else:
            hv = Fraction(nice_float(edge_nat * si_factor(DEFAULT_SYS, D_LEN) / si_factor(u_spc, D_LEN)))
            vol_v = float(hv ** 3)
            sp["cell_volume"] = vol_v
            edge_si = hv * si_factor(u_spc, D_LEN)
            vol_si = Fraction(vol_v) * si_factor(u_spc, D_VOL)
        phys_space = {"kind": "grid", "w": w, "h": h, "d": d, "px": per["x"], "py": per["y"], "pz": per["z"]}
        vols = [vol_si] * n
        edges_h = [edge_si] * n
    else:
        n = rng.randint(1, max(1, min(max_cells, 6)))
        sp["type"] = "graph"
        nodes, vols, edges_h, env_map = [], [], [], []
        for i in range(n):
            nd = {}
            u_decl, u_nd = declare_units(rng, u_spc, pu * 0.5, moderate)
            if u_decl is not None:
                nd["units"] = u_decl
            edge_nat = Fraction(rng.choice([2, 4, 5, 8, 12, 16]), 8)
            if rng.random() < 0.25:
                u = rand_sys(rng, moderate)
                hv = Fraction(nice_float(edge_nat * si_factor(DEFAULT_SYS, D_LEN) / si_factor(u, D_LEN)))
                vol_v = float(hv ** 3)
                nd["volume"] = "%r %s" % (vol_v, units_text(u, D_VOL))
                edges_h.append(hv * si_factor(u, D_LEN))
                vols.append(Fraction(vol_v) * si_factor(u, D_VOL))
            else:
                hv = Fraction(nice_float(edge_nat * si_factor(DEFAULT_SYS, D_LEN) / si_factor(u_nd, D_LEN)))
                vol_v = float(hv ** 3)
                nd["volume"] = vol_v
                edges_h.append(hv * si_factor(u_nd, D_LEN))
                vols.append(Fraction(vol_v) * si_factor(u_nd, D_VOL))
            e = rng.randrange(len(envs))
            env_map.append(e)
            if e != 0 or rng.random() < 0.7:
                nd["environment"] = e
            nodes.append(nd)
        sp["nodes"] = nodes
        edges, phys_edges = [], []
        pairs = [(a, b) for a in range(n) for b in range(a + 1, n)]
        rng.shuffle(pairs)
        keep = pairs[:rng.randint(0, len(pairs))] if pairs else []
        if allow_parallel and keep and rng.random() < 0.5:
            keep.append(rng.choice(keep))            # a parallel edge
        if allow_parallel and rng.random() < 0.3:
            a = rng.randrange(n)
            keep.append((a, a))                       # a self-loop
        for (a, b) in keep:
            if rng.random() < 0.5:
                a, b = b, a
            ed = {"nodes": [a, b]}
            u_decl, u_ed = declare_units(rng, u_spc, pu * 0.5, moderate)
            if u_decl is not None:
                ed["units"] = u_decl
            e, s_si = F.scalar(rng.choice([0.1, 0.3, 1, 0.75, 2]), D_SFC, u_ed)
            ed["surface"] = e
            e, d_si = F.scalar(rng.choice([0.4, 0.5, 1, 0.75, 1.5]), D_LEN, u_ed)
            ed["distance"] = e
            edges.append(ed)
            phys_edges.append((a, b, s_si, d_si))
        sp["edges"] = edges
        phys_space = {"kind": "graph", "edges": phys_edges}
    desc["space"] = sp
    phys = {"ns": ns, "n": n, "labels": labels, "envs": list(envs), "reacs": phys_reacs, "env": env_map, "vol": vols,
            "edge": edges_h, "D": phys_D, "dens": phys_dens, "chem_env": chem_env, "space": phys_space}
    info.update(n=n, ns=ns, nreac=nreac)
    return desc, phys, info


def default_state_phys(phys):
    """x[s*n+i] = density_s(env_i) * V_i (SI molecules)"""
    return [phys["dens"][s][phys["env"][i]] * phys["vol"][i] for s in range(phys["ns"]) for i in range(phys["n"])]


def default_chem_phys(phys):
    return [1 if phys["chem_env"][s][phys["env"][i]] else 0 for s in range(phys["ns"]) for i in range(phys["n"])]


def rand_state(rng, phys, units_system):
    """a random state: (array of numbers in `units_system` to assign to system.state, exact SI list)"""
    f = si_factor(units_system, D_QTY)
    vals, si = [], []
    style = rng.choice(["ints", "fracs", "mixed", "sub", "big"])
    for _ in range(phys["ns"] * phys["n"]):
        if style == "ints":
            m = rng.choice([0, 1, 2, 3, 7, 20])
        elif style == "fracs":
            m = rng.choice([0.5, 1.25, 3.75, 0.125, 10.5])
        elif style == "sub":
            m = rng.choice([0, 0.01, 0.2, 0.05])
        elif style == "big":
            m = rng.choice([150, 1200.5, 333, 1e4])
        else:
            m = rng.choice([0, 1, 2.5, 40, 0.75, 100.25])
        v = nice_float(Fraction(m) / f)
        vals.append(v)
        si.append(Fraction(v) * f)
    return vals, si


# ---------------------------------------------------------------------------------------------
# the oracle: closed rate law of the statement, exact rationals
# ---------------------------------------------------------------------------------------------
def faces_of(phys, i):
    """[(neighbour, surface, distance)] of cell i (with multiplicity)"""
    sp = phys["space"]
    if sp["kind"] == "graph":
        out = []
        for (a, b, s, d) in sp["edges"]:
            if a == i:
                out.append((b, s, d))
            if b == i:
                out.append((a, s, d))
        return out
    w, h, d = sp["w"], sp["h"], sp["d"]
    x, y, z = i % w, (i // w) % h, i // (w * h)
    hh = phys["edge"][i]
    out = []
    for axis, (c, length, per) in enumerate(((x, w, sp["px"]), (y, h, sp["py"]), (z, d, sp["pz"]))):
        for step in (+1, -1):
            cn = c + step
            if cn < 0 or cn >= length:
                if not per:
                    continue
                cn %= length
            co = [x, y, z]
            co[axis] = cn
            out.append((co[0] + w * (co[1] + h * co[2]), hh * hh, hh))
    return out


def dbar(hi, hj, Di, Dj):
    if Di == 0 or Dj == 0:
        return Fraction(0)
    return (hi + hj) / (hi / Di + hj / Dj)


def oracle_rate_entry(phys, x, s, i, with_mag=False):
    n, ns = phys["n"], phys["ns"]
    V = phys["vol"][i]
    e = phys["env"][i]
    tot, mag = Fraction(0), Fraction(0)
    for r in phys["reacs"]:
        for (k, nu, nu2) in ((r["kf"][e], r["sub"], r["prod"]), (r["kr"][e], r["prod"], r["sub"])):
            if nu2[s] == nu[s] or k == 0:
                continue
            term = k * V
            for sp in range(ns):
                if nu[sp]:
                    term *= (x[sp * n + i] / V) ** nu[sp]
            term *= (nu2[s] - nu[s])
            tot += term
            mag += abs(term)
    for (j, S, d) in faces_of(phys, i):
        Dij = dbar(phys["edge"][i], phys["edge"][j], phys["D"][s][e], phys["D"][s][phys["env"][j]])
        a = Dij * S / d * x[s * n + j] / phys["vol"][j]
        b = Dij * S / d * x[s * n + i] / V
        tot += a - b
        mag += abs(a) + abs(b)
    return (tot, mag) if with_mag else tot


def oracle_rate(phys, x):
    """[(rate, magnitude of the added terms)] species-major"""
    return [oracle_rate_entry(phys, x, s, i, True) for s in range(phys["ns"]) for i in range(phys["n"])]


def has_parallel_edges(phys):
    sp = phys["space"]
    if sp["kind"] != "graph":
        return False
    seen = set()
    for (a, b, _, _) in sp["edges"]:
        key = (min(a, b), max(a, b))
        if key in seen:
            return True
        seen.add(key)
    return False


def phys_json(phys):
    """the driver's "phys" object (Spec evaluation)"""
    sp = phys["space"]
    if sp["kind"] == "grid":
        spj = dict(sp)
    else:
        spj = {"kind": "graph", "edges": [[a, b, rstr(s), rstr(d)] for (a, b, s, d) in sp["edges"]]}
    return {"ns": phys["ns"], "n": phys["n"],
            "reacs": [{"sub": r["sub"], "prod": r["prod"], "kf": [rstr(v) for v in r["kf"]], "kr": [rstr(v) for v in r["kr"]]}
                      for r in phys["reacs"]],
            "env": phys["env"], "vol": [rstr(v) for v in phys["vol"]], "edge": [rstr(v) for v in phys["edge"]],
            "D": [[rstr(v) for v in row] for row in phys["D"]], "space": spj}


# ---------------------------------------------------------------------------------------------
# reading a constructed RDSystem into the driver's "sys" object
# ---------------------------------------------------------------------------------------------
def q_of(uv):
    """UnitValue -> (SI Fraction, dim)"""
    sysm, dim = sys_of(uv.units.sys), dim_of(uv.units.dim)
    return Fraction(float(uv.value)) * si_factor(sysm, dim), dim


def qj(uv):
    si, dim = q_of(uv)
    return {"si": rstr(si), "dim": list(dim)}


def evj(v):
    if isinstance(v, dict):
        return {"dict": [[k, qj(u)] for k, u in v.items()]}
    return {"q": qj(v)}


def cuberoot_si(si_vol):
    """the rational h with h³ = si_vol when the volume is the cube of a rational, else a 1e-16-accurate root"""
    rn, rd = icbrt(si_vol.numerator), icbrt(si_vol.denominator)
    if rn is not None and rd is not None:
        return Fraction(rn, rd)
    return Fraction(float(si_vol) ** (1.0 / 3.0))


def icbrt(n):
    """integer cube root if n is a perfect cube else None"""
    if n < 0:
        return None
    if n == 0:
        return 0
    lo, hi = 0, 1 << ((n.bit_length() + 2) // 3 + 1)
    while lo < hi:
        mid = (lo + hi) // 2
        if mid ** 3 < n:
            lo = mid + 1
        else:
            hi = mid
    return lo if lo ** 3 == n else None


def sys_json(system, edges_si=None):
    """the driver's "sys" object from a constructed RDSystem; `edges_si`: exact SI cell edges when known"""
    from strengths.rdspace import RDGridSpace
    net = system.network
    labels = net.species_labels()
    sp = system.space
    n = sp.size()

    def edge_of(i, vol_uv):
        if edges_si is not None:
            return edges_si[i]
        return cuberoot_si(q_of(vol_uv)[0])
    if type(sp) == RDGridSpace:
        bc = sp.get_boundary_conditions()
        spj = {"kind": "grid", "w": sp.w, "h": sp.h, "d": sp.d, "px": bc["x"] == "periodical", "py": bc["y"] == "periodical",
               "pz": bc["z"] == "periodical", "vol": qj(sp.cell_vol), "edge": rstr(edge_of(0, sp.cell_vol)),
               "env": [int(v) for v in sp.cell_env]}
    else:
        spj = {"kind": "graph",
               "nodes": [{"vol": qj(nd.volume), "edge": rstr(edge_of(i, nd.volume)), "env": int(nd.environment)}
                         for i, nd in enumerate(sp.nodes)],
               "edges": [{"i": int(e.i), "j": int(e.j), "sfc": qj(e.surface), "dst": qj(e.distance)} for e in sp.edges]}
    return {"ns": len(labels), "envs": list(net.environments), "D": [evj(s.D) for s in net.species],
            "reactions": [{"sub": r.ssto(labels), "prod": r.psto(labels), "kf": evj(r.kf), "kr": evj(r.kr)} for r in net.reactions],
            "space": spj, "chem": [int(v) for v in system.chemostats]}


def state_si(ua):
    """UnitArray -> exact SI list"""
    f = si_factor(sys_of(ua.units.sys), dim_of(ua.units.dim))
    return [Fraction(float(v)) * f for v in ua.value]


# every accepted spelling of the units key (rdsystem / rdnetwork / species / reaction / space / node / edge / script dictionaries)
UNITS_ALIASES = ["units", "units", "units", "units", "u", "units_system", "units system", "u"]


def spell_units_keys(desc, used=None):
    """a deep copy of a description in which the "units" key of every level is spelled with one of its accepted aliases, chosen
    deterministically from the position and content of the level (no random draw: the same description is always spelled the
    same way, also at replay).  The harness-side description keeps the canonical key.  `used` collects (path, alias)."""
    import zlib

    def walk(d, path):
        if isinstance(d, list):
            return [walk(v, "%s[%d]" % (path, k)) for k, v in enumerate(d)]
        if not isinstance(d, dict):
            return d
        out = {}
        for k, v in d.items():
            if k == "units" and "value" not in d:
                alias = UNITS_ALIASES[zlib.crc32(("%s|%r" % (path, v)).encode("utf-8")) % len(UNITS_ALIASES)]
                if used is not None and alias != "units":
                    used.append((path or "top", alias))
                out[alias] = v
            else:
                out[k] = walk(v, path + "/" + str(k))
        return out
    return walk(desc, "")


def spelled_levels(desc):
    used = []
    spell_units_keys(desc, used)
    return ", ".join("%s: '%s'" % (p_, a) for p_, a in used) or "all 'units'"


def build_system(desc, parent=DEFAULT_SYS):
    import strengths as st
    from strengths.units import UnitsSystem
    return st.rdsystem_from_dict(spell_units_keys(desc), UnitsSystem(*parent))


def us_obj(s):
    from strengths.units import UnitsSystem
    return UnitsSystem(space=s[0], time=s[1], quantity=s[2])
