import sys, math, json
import os; sys.path.insert(0, os.path.dirname(os.path.abspath(__file__)))
import common, engine_io
from common import rstr, frac, close, rparse
from fractions import Fraction
common.use_repo_package()
import strengths as st
M = common.Model()

def mksys(kind):
    net = {"species":[{"label":"A","density":{"a":5,"b":1},"D":{"a":1.0,"b":0.25}},{"label":"B","density":2,"D":0.5,"chstt":{"b":True}},{"label":"C","density":0.5,"D":0}],
           "reactions":[{"eq":"A + B -> C","k+":0.3,"k-":{"a":0.1}}, {"eq":"2 A -> ","k+":0.05,"k-":0.7},{"eq":"C -> B","k+":{"default":1.5,"b":0}}],
           "environments":["a","b"]}
    if kind=="grid":
        space={"type":"grid","w":3,"h":2,"d":1,"cell_volume":0.125,"cell_env":[0,1,0,0,0,1],"boundary_conditions":{"x":"periodical"}}
    else:
        space={"type":"graph","nodes":[{"volume":0.125,"environment":0},{"volume":1.0,"environment":1},{"volume":0.015625,"environment":0}],
               "edges":[{"nodes":[0,1],"surface":0.3,"distance":0.75},{"nodes":[1,2],"surface":0.1,"distance":0.4},{"nodes":[0,1],"surface":0.2,"distance":0.5}]}
    return st.rdsystem_from_dict({"network":net,"space":space})

for kind in ("grid","graph"):
    system = mksys(kind)
    # ---------------- Euler
    script = st.RDScript(system, t_sample=[0], time_step=1/64, t_max=4/64, sampling_policy="on_iteration", rng_seed=3)
    traj,_,_ = engine_io.run_recorded(script, "euler")
    arr = engine_io.system_arrays(script, False)
    eng = engine_io.eng_json(arr)
    ss = engine_io.samples(traj)
    ops=[{"op":"euler_step","eng":eng,"x":[rstr(v) for v in ss[k][1]],"dt":rstr(1/64)} for k in range(len(ss)-1)]
    res=M.run(ops)
    bad=0
    for k,r in enumerate(res):
        mx=[rparse(v) for v in r["ok"]["x"]]
        for a,b,x0 in zip(ss[k+1][1],mx,ss[k][1]):
            if not close(a,b,mag=abs(x0)+1,rel=1e-12): bad+=1
    print(kind,"euler steps",len(res),"bad entries",bad, "sample", ss[1][1][:4])
    # ---------------- tau-leap
    script = st.RDScript(system, t_sample=[0], time_step=1/64, t_max=6/64, sampling_policy="on_iteration", rng_seed=5)
    traj,draws,_ = engine_io.run_recorded(script, "tauleap", kind="shim", with_draws=True)
    arr = engine_io.system_arrays(script, True); eng = engine_io.eng_json(arr)
    ss = engine_io.samples(traj)
    # draws: init (pois/norm + unif) then per step pois
    pois=[d for d in draws]
    # find where step draws start: count init draws = those before first step; compute by model means length
    nsteps=len(ss)-1
    bad=0; badm=0; pos=len(draws); 
    # walk backwards is impossible; walk forward from the first step draw: find it by consuming from the end
    means_per_step=[]
    for k in range(nsteps):
        r=M.run([{"op":"tauleap_means","eng":eng,"x":[rstr(v) for v in ss[k][1]],"dt":rstr(1/64)}])[0]
        means_per_step.append([rparse(m) for m in r["ok"]])
    ndraw=sum(sum(1 for m in ms if m>0) for ms in means_per_step)
    step_draws=draws[len(draws)-ndraw:]
    assert all(d[0]=="pois" for d in step_draws), step_draws[:3]
    p=0
    for k in range(nsteps):
        npos=sum(1 for m in means_per_step[k] if m>0)
        dd=step_draws[p:p+npos]; p+=npos
        posm=[m for m in means_per_step[k] if m>0]
        for d,m in zip(dd,posm):
            if not close(d[1],m,rel=1e-12): badm+=1
        rr=M.run([{"op":"tauleap_step","eng":eng,"x":[rstr(v) for v in ss[k][1]],"draws":[int(d[3]) for d in dd],"dt":rstr(1/64)}])
        mx=[rparse(v) for v in rr[0]["ok"]]
        if [frac(v) for v in ss[k+1][1]]!=mx: bad+=1
    print(kind,"tauleap steps",nsteps,"draws",ndraw,"bad means",badm,"bad states",bad, "init draws", len(draws)-ndraw)
    # ---------------- gillespie
    script = st.RDScript(system, t_sample=[0], time_step=1/64, t_max=0.05, sampling_policy="on_iteration", rng_seed=11)
    traj,draws,_ = engine_io.run_recorded(script, "gillespie", kind="shim", with_draws=True)
    ss = engine_io.samples(traj)
    nsteps=len(ss)-1
    step_draws=draws[len(draws)-2*nsteps:]
    assert all(d[0]=="unif" for d in step_draws)
    ops=[]
    for k in range(nsteps):
        u1=step_draws[2*k][3]; u2=step_draws[2*k+1][3]
        ops.append({"op":"gillespie_step","eng":eng,"x":[rstr(v) for v in ss[k][1]],"u1":rstr(u1),"L":rstr(math.log(1/u2))})
    res=M.run(ops)
    bad=0;badt=0;none=0
    for k,r in enumerate(res):
        o=r["ok"]
        if o.get("event") is None: none+=1
        mx=[rparse(v) for v in o["x"]]
        if [frac(v) for v in ss[k+1][1]]!=mx: bad+=1
        if not close(ss[k+1][0]-ss[k][0], rparse(o["dt"]), mag=ss[k+1][0], rel=1e-9): badt+=1
    print(kind,"gillespie steps",nsteps,"bad states",bad,"bad dt",badt,"no-event",none)
