"""Property theorems shared by several checks (one Lean file, listed as obligations of every property whose
observations depend on it).  The runner appends them to the module's LEAN_TARGETS / PROP_FILES / GEN_GROUPS."""

SHARED = [
    # the Python <-> C++ boundary of LibRDEngine: types, unit conversions, sources, read-back (Props/Boundary.lean)
    {"target": "Strengths.Props.Boundary", "file": "Strengths/Props/Boundary.lean", "groups": ["Marshal"],
     "props": ["C01", "C02", "C03", "C04", "C07", "C08", "C09", "C10", "C11", "C14", "C15"],
     "trusted": "Props/Boundary.lean reads librdengine.py's two initialiser calls and two read-back functions through the "
                "Marshal translator group (argument wrappers, `.convert(units_system).value`, `build_*(…, units_system)`, "
                "`UnitArray(…, Units(sys=units_system, …))`); the meaning given to those four shapes (`marshalReal`) is hand-written"},
    # numeric types of the C++ engine: no molecule number / time / ratio in an int, no single precision, no 1/3, no tolerances
    {"target": "Strengths.Props.CppNumeric", "file": "Strengths/Props/CppNumeric.lean", "groups": ["CppNumeric"],
     "props": ["C01", "C02", "C03", "C04", "C07", "C09", "C11", "C14", "C15"],
     "trusted": "Props/CppNumeric.lean is an inventory (regex over the comment-stripped C++ sources) of integer initialisations, "
                "casts, `float` tokens, integer-literal divisions and tolerance vocabulary; it shows the engine never narrows a "
                "real-valued quantity, not that `double` arithmetic is exact"},
    # no `static` / `thread_local` state in the engine sources
    {"target": "Strengths.Props.CppStatics", "file": "Strengths/Props/CppStatics.lean", "groups": ["CppNumeric"],
     "props": ["C01", "C02", "C03", "C04", "C07", "C08", "C09", "C10", "C11", "C14", "C15", "C16"],
     "trusted": "Props/CppStatics.lean: a regex inventory of the `static` / `thread_local` keywords, of the preprocessor lines and of floating-point-environment tokens (SSE control register, <cfenv>, inline assembly) of the engine sources"},
]


def _camel(s):
    return "".join(w.capitalize() for w in s.split("_"))


def _pynumeric():
    """one tiny Props module per Python source file (Props/PyNum<File>.lean: "this file never rounds / narrows /
    formats with limited digits"); a property gets the modules of the files it is anchored in (properties.jsonl)"""
    import json, os
    root = os.path.dirname(os.path.dirname(os.path.abspath(__file__)))
    per_file = {}
    for line in open(os.path.join(root, "properties.jsonl"), encoding="utf-8"):
        p = json.loads(line)
        for f in p["anchors"]["files"]:
            if f.startswith("src/strengths/") and f.endswith(".py") and "/" not in f[len("src/strengths/"):]:
                per_file.setdefault(f[len("src/strengths/"):-3], []).append(p["id"])
    out = []
    for f, props in sorted(per_file.items()):
        for prefix, grp in (("PyNum", "PyNumeric"), ("PySet", "PySetters"), ("PyIdm", "PyIdioms")):
            mod = prefix + _camel(f)
            if os.path.exists(os.path.join(root, "lean", "Strengths", "Props", mod + ".lean")):
                out.append({"target": "Strengths.Props." + mod, "file": "Strengths/Props/%s.lean" % mod, "groups": [grp],
                            "props": props, "trusted": None})
    return out


PYNUMERIC_TRUSTED = ("Props/PyNum*.lean are inventories (AST walk) of rounding / tolerance calls, dtype values, narrow type names, "
                     "astype, limited-digit formats and floor divisions per anchored Python file; they show the package never narrows a "
                     "number on purpose, not that float arithmetic is exact; Props/PySet*.lean are per-file path inventories of the "
                     "setters (store / raise / checking-call events, loops unrolled twice) showing that every setter validates before "
                     "it stores; calls that may raise without being named check/valid/assert are not seen; Props/PyIdm*.lean are per-file "
                     "inventories of identity comparisons, substring tests on literals, asserts, and/or used as values and *d.values()")


def extend(mod, prop):
    pn = [s for s in _pynumeric() if prop in s["props"]]
    if pn:
        mod.TRUSTED = list(getattr(mod, "TRUSTED", [])) + [PYNUMERIC_TRUSTED]
    for s in SHARED + pn:
        if prop in s["props"]:
            if s["target"] not in mod.LEAN_TARGETS:
                mod.LEAN_TARGETS = list(mod.LEAN_TARGETS) + [s["target"]]
            if s["file"] not in mod.PROP_FILES:
                mod.PROP_FILES = list(mod.PROP_FILES) + [s["file"]]
            g = getattr(mod, "GEN_GROUPS", None)
            if g is not None:
                mod.GEN_GROUPS = list(g) + [x for x in s["groups"] if x not in g]
            if s["trusted"]:
                mod.TRUSTED = list(getattr(mod, "TRUSTED", [])) + [s["trusted"]]
