"""Shared pieces of the checks C07 / C02 / C14 (builder "stoch"): random networks and spaces built from the
repository's own dictionary forms, sandboxed batch execution on the rebuilt engine, integer left null space.

All randomness comes from the `rng` handed in (ctx.rng).  Numbers are chosen dyadic / cubes of rationals
so that the exact model and the float engine agree without irrational operations (CONVENTIONS, "Floats vs
exact model").
"""
import json, os, subprocess, sys, tempfile, time
from fractions import Fraction

import common

LABELS = ["A", "B", "C", "D", "E"]
ENVS = ["a", "b", "c"]


# ---------------------------------------------------------------------------------------------
# spaces
# ---------------------------------------------------------------------------------------------
def rand_grid(rng, max_cells=8, nenv=1, edge=None):
    """grid with w,h,d in 1..4 (<= max_cells cells), every combination of boundary conditions, so that
    periodic axes of length 1 and 2 occur; cell volume = cube of a rational edge"""
    while True:
        w, h, d = rng.choice([1, 1, 2, 2, 3, 4]), rng.choice([1, 1, 2, 3]), rng.choice([1, 1, 2])
        dims = [w, h, d]
        rng.shuffle(dims)
        w, h, d = dims
        if w * h * d <= max_cells:
            break
    hh = edge if edge is not None else rng.choice([Fraction(1), Fraction(1, 2), Fraction(2), Fraction(3, 4), Fraction(1, 4)])
    bc = {ax: rng.choice(["reflecting", "periodical"]) for ax in "xyz"}
    n = w * h * d
    env = [rng.randrange(nenv) for _ in range(n)]
    return {"type": "grid", "w": w, "h": h, "d": d, "cell_volume": float(hh ** 3), "cell_env": env,
            "boundary_conditions": bc}, {"kind": "grid", "n": n, "edge": hh, "bc": bc, "dims": (w, h, d)}


def rand_graph(rng, max_nodes=6, nenv=1, multi=True):
    """graph with heterogeneous volumes (cubes of rational edges), surfaces, distances; isolated nodes,
    parallel edges and (if the package accepts them) nothing else exotic"""
    n = rng.randint(1, max_nodes)
    hs = [rng.choice([Fraction(1), Fraction(1, 2), Fraction(2), Fraction(1, 4), Fraction(3, 2)]) for _ in range(n)]
    nodes = [{"volume": float(hh ** 3), "environment": rng.randrange(nenv)} for hh in hs]
    edges = []
    if n >= 2:
        ne = rng.randint(0, min(2 * n, 8))
        for _ in range(ne):
            i = rng.randrange(n)
            j = rng.randrange(n)
            if i == j:
                continue
            if not multi and any({e["nodes"][0], e["nodes"][1]} == {i, j} for e in edges):
                continue
            edges.append({"nodes": [i, j], "surface": float(Fraction(rng.randint(1, 8), 8)),
                          "distance": float(Fraction(rng.randint(1, 8), 4))})
        if multi and edges and rng.random() < 0.4:
            e = rng.choice(edges)
            edges.append({"nodes": list(reversed(e["nodes"])) if rng.random() < 0.5 else list(e["nodes"]),
                          "surface": float(Fraction(rng.randint(1, 8), 8)), "distance": float(Fraction(rng.randint(1, 8), 4))})
    return {"type": "graph", "nodes": nodes, "edges": edges}, {"kind": "graph", "n": n, "edge": hs,
                                                                  "nedges": len(edges)}


def rand_space(rng, kind=None, nenv=1, max_cells=8):
    kind = kind or rng.choice(["grid", "graph"])
    if kind == "grid":
        return rand_grid(rng, max_cells=max_cells, nenv=nenv)
    return rand_graph(rng, max_nodes=min(max_cells, 6), nenv=nenv)


# ---------------------------------------------------------------------------------------------
# networks
# ---------------------------------------------------------------------------------------------
def env_value(rng, envs, choices, zero_p=0.25):
    """scalar or per-environment dictionary (with / without "default"), zeros included"""
    def one():
        return 0.0 if rng.random() < zero_p else float(rng.choice(choices))
    if len(envs) == 1 or rng.random() < 0.4:
        return one()
    d = {}
    pool = list(envs)
    if len(pool) >= 2 and rng.random() < 0.45:
        # one key naming several environments, written with / without blanks around the comma
        grp = rng.sample(pool, rng.randint(2, len(pool)))
        sep = rng.choice([", ", ", ", ",", " , ", ",  "])
        d[sep.join(grp)] = one()
        pool = [e for e in pool if e not in grp]
    for e in pool:
        if rng.random() < 0.7:
            d[e] = one()
    if rng.random() < 0.5 or not d:
        d["default"] = one()
    return d


def rand_side(rng, labels, max_order):
    """a reaction side as a label list with repetitions (order 0..max_order)"""
    k = rng.choice([0, 1, 1, 2, 2, 3][:max_order + 3]) if max_order >= 3 else rng.randint(0, max_order)
    k = min(k, max_order)
    side = []
    for _ in range(k):
        if side and rng.random() < 0.45:
            side.append(rng.choice(side))       # repeated reactant: combinatorial factor matters
        else:
            side.append(rng.choice(labels))
    return side


def side_text(side, rng=None):
    """text of a reaction side; with `rng`, a repeated species is sometimes written as separate terms
    ('A + A', 'A + 2 B + B') instead of one term with a coefficient — the same reaction"""
    if not side:
        return ""
    out = []
    for lab in sorted(set(side), key=side.index):
        c = side.count(lab)
        if rng is not None and c >= 2 and rng.random() < 0.5:
            first = rng.randint(1, c - 1)
            for part in (first, c - first):
                out.append(lab if part == 1 else "%d %s" % (part, lab))
        else:
            out.append(lab if c == 1 else "%d %s" % (c, lab))
    if rng is not None and len(out) > 2 and rng.random() < 0.5:
        rng.shuffle(out)
    return " + ".join(out)


def rand_network(rng, ns=None, nr=None, nenv=None, max_order=3, chem_p=0.15, diffusing=True, kchoices=None):
    ns = ns or rng.randint(1, 4)
    nr = rng.choice([0, 1, 1, 2, 2, 3]) if nr is None else nr
    nenv = nenv or rng.choice([1, 1, 2, 3])
    # declared in NON-alphabetical order most of the time: every table of the engine is indexed by declaration order
    labels = LABELS[:ns]
    envs = ENVS[:nenv]
    if rng.random() < 0.75:
        labels = labels[::-1] if rng.random() < 0.5 else rng.sample(labels, len(labels))
    if rng.random() < 0.75:
        envs = envs[::-1] if rng.random() < 0.5 else rng.sample(envs, len(envs))
    kch = kchoices or [Fraction(1, 4), Fraction(1, 2), 1, 2, Fraction(3, 2), Fraction(1, 8)]
    species = []
    for lab in labels:
        sp = {"label": lab, "density": env_value(rng, envs, [0, 1, 2, 3, 5, 8], zero_p=0.1)}
        if diffusing:
            sp["D"] = env_value(rng, envs, [Fraction(1, 4), Fraction(1, 2), 1, 2], zero_p=0.2)
        else:
            sp["D"] = 0
        if rng.random() < chem_p:
            sp["chstt"] = True if len(envs) == 1 or rng.random() < 0.5 else {rng.choice(envs): True}
        species.append(sp)
    reactions = []
    for _ in range(nr):
        for _try in range(20):
            lhs, rhs = rand_side(rng, labels, max_order), rand_side(rng, labels, max_order)
            if sorted(lhs) != sorted(rhs):
                break
        else:
            continue
        r = {"eq": "%s -> %s" % (side_text(lhs, rng), side_text(rhs, rng)), "k+": env_value(rng, envs, kch)}
        if rng.random() < 0.6:
            r["k-"] = env_value(rng, envs, kch)
        else:
            r["k-"] = 0
        reactions.append(r)
    return {"species": species, "reactions": reactions, "environments": envs}


def build_system(net, space):
    import strengths as st
    return st.rdsystem_from_dict({"network": net, "space": space})


# ---------------------------------------------------------------------------------------------
# sandboxed batch execution on the rebuilt engine
# ---------------------------------------------------------------------------------------------
CHILD = r"""
import sys, json, ctypes
sys.path.insert(0, %(harness)r)
import common
common.use_repo_package()
import importlib
mod = importlib.import_module(%(module)r)
lib = ctypes.CDLL(%(so)r)
cases = json.load(open(%(cases)r))
for k, case in enumerate(cases):
    print("S %%d" %% k, flush=True)
    try:
        res = getattr(mod, %(func)r)(case, lib)
    except Exception as ex:
        res = {"exception": "%%s: %%s" %% (type(ex).__name__, ex)}
    print("R %%d %%s" %% (k, json.dumps(common.jsonable(res))), flush=True)
"""


def _run_child_watch(code, case_timeout, start_timeout=60):
    """run the child; kill it when a single case produces no output line for `case_timeout` seconds.
    Returns (status, lines) with status ok | timeout | crash:<rc>"""
    import selectors, signal
    env = dict(os.environ)
    env["PYTHONPATH"] = os.path.join(common.REPO, "src") + os.pathsep + os.path.join(common.VERIF, "harness")
    proc = subprocess.Popen([sys.executable, "-u", "-c", code], stdout=subprocess.PIPE, stderr=subprocess.PIPE, env=env,
                            start_new_session=True)
    sel = selectors.DefaultSelector()
    sel.register(proc.stdout, selectors.EVENT_READ)
    lines, buf = [], b""
    started = False
    last = time.time()
    status = None
    while True:
        limit = case_timeout if started else start_timeout
        ev = sel.select(timeout=0.25)
        if ev:
            chunk = os.read(proc.stdout.fileno(), 1 << 16)
            if not chunk:
                break
            buf += chunk
            while b"\n" in buf:
                ln, buf = buf.split(b"\n", 1)
                lines.append(ln.decode("utf-8", "replace"))
                started = True
            last = time.time()
        elif time.time() - last > limit:
            status = "timeout"
            try:
                os.killpg(proc.pid, signal.SIGKILL)
            except OSError:
                pass
            break
    try:
        _, err = proc.communicate(timeout=10)
    except subprocess.TimeoutExpired:
        proc.kill()
        err = b""
    if status is None:
        status = "ok" if proc.returncode == 0 else "crash:%d" % proc.returncode
    return status, lines, (err or b"").decode("utf-8", "replace")[-1500:]


def run_batch(module, func, cases, kind="shim", timeout=8, max_failures=3):
    """run `module.func(case, lib)` for every case in ONE child process (the call may hang or crash).
    `timeout` is per case (no output for that long = hang).  Returns a list aligned with `cases`:
    result dict | {"hang": True} | {"crash": rc} | None (not run: after `max_failures` hangs / crashes the
    rest of the batch is skipped).  After a hang / crash the remaining cases run in a new child."""
    so = common.build_engine(kind)
    results = [None] * len(cases)
    start = 0
    failures = 0
    d = common.scratch_dir("verif_batch_")
    while start < len(cases) and failures < max_failures:
        path = os.path.join(d, "cases_%d.json" % start)
        with open(path, "w") as f:
            json.dump(common.jsonable(cases[start:]), f)
        code = CHILD % {"harness": os.path.join(common.VERIF, "harness"), "module": module, "func": func, "so": so, "cases": path}
        status, lines, err = _run_child_watch(code, timeout)
        started = -1
        for line in lines:
            if line.startswith("S "):
                started = int(line[2:])
            elif line.startswith("R "):
                k, js = line[2:].split(" ", 1)
                results[start + int(k)] = json.loads(js)
        if status == "ok":
            break
        if started < 0:
            raise common.CheckBroken("sandboxed batch did not start (%s): %s" % (status, err))
        bad = start + started
        if results[bad] is None:
            results[bad] = {"hang": True, "timeout_s": timeout} if status == "timeout" else {"crash": status, "tail": err[-600:]}
            failures += 1
        start = bad + 1
    return results


# ---------------------------------------------------------------------------------------------
# exact integer left null space of the stoichiometric matrix
# ---------------------------------------------------------------------------------------------
def left_null_space(sto, ns, nr):
    """basis (list of integer vectors c of length ns) of {c : sum_s c_s * sto[s*nr+r] = 0 for every r}.
    Exact fraction elimination on the transposed system, then scaled to primitive integer vectors."""
    from math import gcd
    # unknown c in Q^ns ; equations: for each r: sum_s sto[s][r] c_s = 0
    rows = [[Fraction(sto[s * nr + r]) for s in range(ns)] for r in range(nr)]
    piv_cols = []
    r0 = 0
    for col in range(ns):
        p = None
        for rr in range(r0, len(rows)):
            if rows[rr][col] != 0:
                p = rr
                break
        if p is None:
            continue
        rows[r0], rows[p] = rows[p], rows[r0]
        pv = rows[r0][col]
        rows[r0] = [v / pv for v in rows[r0]]
        for rr in range(len(rows)):
            if rr != r0 and rows[rr][col] != 0:
                f = rows[rr][col]
                rows[rr] = [a - f * b for a, b in zip(rows[rr], rows[r0])]
        piv_cols.append(col)
        r0 += 1
        if r0 == len(rows):
            break
    free = [c for c in range(ns) if c not in piv_cols]
    basis = []
    for fc in free:
        v = [Fraction(0)] * ns
        v[fc] = Fraction(1)
        for k, pc in enumerate(piv_cols):
            v[pc] = -rows[k][fc]
        den = 1
        for a in v:
            den = den * a.denominator // gcd(den, a.denominator)
        iv = [int(a * den) for a in v]
        g = 0
        for a in iv:
            g = gcd(g, abs(a))
        iv = [a // g for a in iv] if g else iv
        basis.append(iv)
    return basis


# ---------------------------------------------------------------------------------------------
# running a script on the rebuilt engine (inside the sandboxed child) — shared by C07 / C02
# ---------------------------------------------------------------------------------------------
def child_run(case, lib, eng=None):
    """case: {"net","space","option","seed","dt","tmax","max_iter","state"(optional species-major override),
    "mode"(init_state_processing, optional)} -> samples, times, draws after initialisation, marshalled arrays"""
    import numpy as np
    import strengths as st
    from strengths.librdengine import LibRDEngine
    import engine_io
    system = build_system(case["net"], case["space"])
    if case.get("state") is not None:
        system.state = list(case["state"])
    if case.get("chem") is not None:
        system.chemostats = list(case["chem"])
    for (lab, pos, val) in case.get("set_chem", []):
        system.set_chemostat(lab, pos, val)          # as in the documentation: any int / bool flag
    option = case["option"]
    kw = {}
    if case.get("units"):
        kw["units_system"] = st.UnitsSystem(**case["units"])
    script = st.RDScript(system, t_sample=[0], time_step=case["dt"], t_max=case["tmax"], sampling_policy="on_iteration",
                         rng_seed=case["seed"], init_state_processing=case.get("mode", "auto"), **kw)
    if eng is None:
        eng = LibRDEngine(lib, option=option, requires_molecules=(option != "euler"))
    common.draws_clear(lib)
    eng.setup(script)
    n_init = len(common.draws_get(lib))
    it = 0
    import ctypes
    size = script.system.state_size()
    buf = (ctypes.c_double * size)()
    while it < case["max_iter"] and eng.iterate():
        it += 1
        if option != "gillespie":
            # explosive networks: stop before the amounts leave the range in which doubles are exact integers /
            # the Poisson sampler becomes very slow (the run so far is still checked step by step)
            lib.engineexport_get_state(buf)
            if any(abs(v) > 1e7 or v != v for v in buf):
                break
    draws = common.draws_get(lib)[n_init:]
    traj = eng.get_output()
    complete = bool(eng.is_complete())
    eng.finalize()
    arr = engine_io.system_arrays(script, option != "euler")
    arr.pop("us", None)
    ns, nc = traj.nspecies(), traj.ncells()
    accessor_diff = None
    if case.get("mutate_accessors"):
        # what the accessors return is the caller's: edit every returned object in place (a bolus added to a fetched state,
        # apply_reaction on it, set_at, value[...] +=) — the recorded data must stay what it was, bit for bit
        snap = np.array(traj.data.value, dtype=float, copy=True)
        labs = [s.label for s in system.network.species]
        nsmp = traj.nsamples()
        for k in sorted(set([0, nsmp // 2, nsmp - 1])):
            if k < 0 or k >= nsmp:
                continue
            g = traj.get_state(None, k)
            g.set_at(0, g.get_at(0) + 3)
            try:
                g.value[...] += 7
            except Exception:
                pass
            for lab in labs[:2]:
                gs = traj.get_state(lab, k)
                gs.set_at(nc - 1, gs.get_at(nc - 1) + 11)
                try:
                    gs.value[...] *= 2
                except Exception:
                    pass
            if system.network.reactions:
                g2 = traj.get_state(None, k)
                try:
                    system.apply_reaction(system.network.reactions[0], position=0, n=2, state=g2, update=False)
                    system.apply_reaction(system.network.reactions[0], position=0, n=2, state=g2, update=True)
                except Exception:
                    pass
        for lab in labs:
            tr = traj.get_trajectory(lab, 0)
            tr.set_at(0, tr.get_at(0) + 5)
            try:
                tr.value[...] += 1
            except Exception:
                pass
            trm = traj.get_trajectory(lab, merge=True)
            try:
                trm.value[...] += 1
            except Exception:
                pass
        after = np.asarray(traj.data.value, dtype=float)
        bad = np.nonzero(~((snap == after) | (np.isnan(snap) & np.isnan(after))))[0]
        accessor_diff = [{"index": int(i), "sample": int(i) // (ns * nc), "before": float(snap[i]), "after": float(after[i])}
                         for i in bad[:6]]
    tdata = traj.data
    if case.get("units") and case["units"].get("quantity", "molecule") != "molecule":
        # amounts come back in the script's quantity unit: re-express them in molecules (exact up to one rounding,
        # which is removed by snapping to the nearest integer for the stochastic engines)
        usm = script.units_system.copy()
        usm.quantity = "molecule"
        tdata = tdata.convert(usm)
        vals = np.asarray(tdata.value, dtype=float)
        if option != "euler":
            r = np.round(vals)
            vals = np.where(np.abs(vals - r) <= 1e-6 * np.maximum(1.0, np.abs(vals)), r, vals)
        data = vals.reshape((traj.nsamples(), ns * nc))
    else:
        data = np.asarray(tdata.value, dtype=float).reshape((traj.nsamples(), ns * nc))
    return {"t": [float(v) for v in traj.t.value], "x": [[float(v) for v in row] for row in data],
            "draws": [[k, a, b, r] for (k, a, b, r) in draws], "arr": arr, "complete": complete, "iterations": it,
            "accessor_diff": accessor_diff}


def child_run_seq(case, lib):
    """process history: the scripts in `case["before"]` are run first in the SAME process (on the same engine object when
    `case["same_object"]`, else on fresh LibRDEngine objects of the one loaded library), then the case itself; the result
    of the last run is returned"""
    from strengths.librdengine import LibRDEngine
    import strengths as st
    option = case["option"]
    eng = LibRDEngine(lib, option=option, requires_molecules=(option != "euler")) if case.get("same_object", True) else None
    for prev in case.get("before", []):
        e2 = eng or LibRDEngine(lib, option=prev.get("option", option), requires_molecules=(prev.get("option", option) != "euler"))
        system = build_system(prev["net"], prev["space"])
        system.state = list(prev["state"])
        if prev.get("fail") == "raise":
            # a call that must raise (empty t_sample), on the engine object that is used again afterwards
            import numpy as np
            try:
                st.simulate(system, t_sample=np.arange(0, 0, 0.1), time_step=case["dt"], engine=e2, rng_seed=prev["seed"])
            except Exception:
                pass
            continue
        script = st.RDScript(system, t_sample=[0], time_step=case["dt"], t_max=1e9, sampling_policy="on_iteration",
                             rng_seed=prev["seed"])
        e2.setup(script)
        if prev.get("fail") == "abandon":
            # a set-up that is never run nor finalised (interrupted by the caller); the object is set up again below
            continue
        for _ in range(prev.get("iterations", 5)):
            if not e2.iterate():
                break
        e2.get_output()
        e2.finalize()
    return child_run(case, lib, eng=eng)


TIME_UNIT_S = {"s": Fraction(1), "ms": Fraction(1, 1000), "min": Fraction(60), "h": Fraction(3600), "µs": Fraction(1, 10 ** 6)}


def value_in_env(v, env):
    """the documented meaning of a scalar-or-dictionary constant: the entry of the key that names the environment
    (keys may name several environments separated by commas, blanks around the names are not significant), else
    "default", else 0"""
    if isinstance(v, dict):
        for key, val in v.items():
            if key != "default" and env in [p.strip() for p in key.split(",")]:
                return Fraction(val)
        if "default" in v:
            return Fraction(v["default"])
        return Fraction(0)
    return Fraction(v)


def parse_side(txt, labels):
    """coefficient vector of one side of an equation text ('2 A + B', 'A + A', ''): repeated terms add up"""
    v = [0] * len(labels)
    for term in txt.split("+"):
        term = term.strip()
        if not term:
            continue
        parts = term.split()
        coef, lab = (int(parts[0]), parts[1]) if len(parts) == 2 else (1, parts[0])
        v[labels.index(lab)] += coef
    return v


def own_stoichiometry(net):
    """the oracle's own reading of the equation texts: substrate coefficients and net changes, species-major,
    forward then reverse direction of every reaction -> (sub, sto, number of directions)"""
    labels = [s["label"] for s in net["species"]]
    subs, stos = [], []
    for r in net["reactions"]:
        l, rr = r["eq"].split("->")
        a, b = parse_side(l, labels), parse_side(rr, labels)
        subs += [a, b]
        stos += [[y - x for x, y in zip(a, b)], [x - y for x, y in zip(a, b)]]
    nr = len(subs)
    sub = [subs[r][s] for s in range(len(labels)) for r in range(nr)]
    sto = [stos[r][s] for s in range(len(labels)) for r in range(nr)]
    return sub, sto, nr


def expected_tables(net, units=None):
    """the oracle's own k[env][reaction] (forward and reverse direction of every reaction, in that order) and
    D[species][env] tables in the ENGINE's units, read from the network description: the numbers of the description are
    in µm / s / molecule; the engine works in the script's space and time units and in molecules, so with the space
    unit left at µm only the time unit rescales them (per second -> per script time unit)."""
    tsec = TIME_UNIT_S[(units or {}).get("time", "s")]
    envs = net["environments"]
    k = []
    for env in envs:
        for r in net["reactions"]:
            k.append(value_in_env(r.get("k+", 0), env) * tsec)
            k.append(value_in_env(r.get("k-", 0), env) * tsec)
    D = []
    for sp in net["species"]:
        for env in envs:
            D.append(value_in_env(sp.get("D", 0), env) * tsec)
    return k, D


# ---------------------------------------------------------------------------------------------
# independent rate law / event set (the oracle's own: CME propensities, Bernstein diffusion constants)
# ---------------------------------------------------------------------------------------------
def grid_neighbors(w, h, d, px, py, pz):
    """neighbour of every cell in the 6 directions (+x,-x,+y,-y,+z,-z); None = wall"""
    out = []
    for i in range(w * h * d):
        x, y, z = i % w, (i // w) % h, i // (w * h)
        row = []
        for (dx, dy, dz) in ((1, 0, 0), (-1, 0, 0), (0, 1, 0), (0, -1, 0), (0, 0, 1), (0, 0, -1)):
            xn, yn, zn = x + dx, y + dy, z + dz
            if px:
                xn %= w
            if py:
                yn %= h
            if pz:
                zn %= d
            if 0 <= xn < w and 0 <= yn < h and 0 <= zn < d:
                row.append(xn + w * yn + w * h * zn)
            else:
                row.append(None)
        out.append(row)
    return out


class Rates:
    """the oracle's own tabulation of channels from the marshalled arrays (exact fractions)"""

    def __init__(self, arr, edge=None):
        from engine_io import exact_cuberoot
        F = Fraction
        self.ns, self.nr, self.nenv = arr["ns"], arr["nr"], arr["nenv"]
        sp = arr["space"]
        self.kind = sp["kind"]
        if self.kind == "grid":
            self.n = sp["w"] * sp["h"] * sp["d"]
            V = F(arr["vol"])
            self.vol = [V] * self.n
            hh = F(edge) if edge is not None else exact_cuberoot(arr["vol"])
            self.edge = [hh] * self.n
            nb = grid_neighbors(sp["w"], sp["h"], sp["d"], sp["px"], sp["py"], sp["pz"])
            # half-edges: (i, j, geometric factor S/(V_i d)) ; grid: S = h^2, d = h, V = h^3 -> 1/h^2
            self.half = [[(j, 1 / (hh * hh)) for j in row if j is not None] for row in nb]
        else:
            self.n = sp["n"]
            self.vol = [F(v) for v in arr["vol"]]
            self.edge = [F(e) for e in edge] if edge is not None else [exact_cuberoot(v) for v in arr["vol"]]
            self.half = [[] for _ in range(self.n)]
            for (i, j, sfc, dst) in sp["edges"]:
                self.half[i].append((j, F(sfc) / (self.vol[i] * F(dst))))
                self.half[j].append((i, F(sfc) / (self.vol[j] * F(dst))))
        self.env = arr["env"]
        self.chem = arr["chem"]           # species-major
        self.k = [F(v) for v in arr["k"]]
        self.sub = arr["sub"]
        self.sto = arr["sto"]
        self.D = [F(v) for v in arr["D"]]
        self.order = [sum(self.sub[s * self.nr + r] for s in range(self.ns)) for r in range(self.nr)]

    def dbar(self, s, i, j):
        Di, Dj = self.D[s * self.nenv + self.env[i]], self.D[s * self.nenv + self.env[j]]
        if Di == 0 or Dj == 0:
            return Fraction(0)
        hi, hj = self.edge[i], self.edge[j]
        return (hi + hj) / (hi / Di + hj / Dj)

    def channels(self, x):
        """[(propensity, effect dict {(s,i): delta} masked by chemostats, description)] for the state x
        (species-major list of Fractions); only channels with positive propensity"""
        n, ns, nr = self.n, self.ns, self.nr
        out = []
        for i in range(n):
            for r in range(nr):
                kk = self.k[self.env[i] * nr + r]
                if kk == 0:
                    continue
                comb = Fraction(1)
                ok = True
                for s in range(ns):
                    nu = self.sub[s * nr + r]
                    xs = x[s * n + i]
                    if xs < nu:
                        ok = False
                        break
                    for q in range(nu):
                        comb *= (xs - q)
                if not ok:
                    continue
                a = kk * self.vol[i] ** (1 - self.order[r]) * comb
                if a <= 0:
                    continue
                eff = {}
                for s in range(ns):
                    dv = self.sto[s * nr + r]
                    if dv != 0 and not self.chem[s * n + i]:
                        eff[(s, i)] = eff.get((s, i), 0) + dv
                out.append((a, eff, ("reaction", i, r)))
            for s in range(ns):
                xs = x[s * n + i]
                for slot, (j, geo) in enumerate(self.half[i]):
                    a = xs * self.dbar(s, i, j) * geo
                    if a <= 0:
                        continue
                    eff = {}
                    if not self.chem[s * n + i]:
                        eff[(s, i)] = eff.get((s, i), 0) - 1
                    if not self.chem[s * n + j]:
                        eff[(s, j)] = eff.get((s, j), 0) + 1
                    eff = {k2: v for k2, v in eff.items() if v != 0}
                    out.append((a, eff, ("diffusion", i, s, j)))
        return out
