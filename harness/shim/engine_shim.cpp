// The engine of the working tree, compiled with the logging <random> wrapper, plus accessors for
// the draw log.  VERIF_ENGINE_CPP is the absolute path of the repository's engine.cpp.
#include VERIF_ENGINE_CPP

extern "C" int verif_draw_count() { return static_cast<int>(verif_shim::log().size()); }
extern "C" void verif_draw_clear() { verif_shim::log().clear(); }
extern "C" int verif_draw_get(int i, int * kind, double * a, double * b, double * r)
  {
  if (i < 0 || i >= static_cast<int>(verif_shim::log().size())) return 1;
  const verif_shim::Draw & d = verif_shim::log()[i];
  *kind = d.kind; *a = d.a; *b = d.b; *r = d.r;
  return 0;
  }
