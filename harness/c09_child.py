"""Sandboxed worker of the DERIVED-SCRIPT stream of C09 (used by props/c09.py only).

A script object is built, then the object that is finally run is DERIVED from it through the package's own routes
(RDScript.copy(), copy.deepcopy, the script kept in a trajectory after a full simulation, the script kept in a trajectory
fetched right after setup), then EDITED through its public setters (request list with another last time, time step,
t_max explicit <-> "default"), and only then driven step by step on the real engine.

usage: c09_child.py jobs.json
jobs.json = {"so": path, "jobs": [{"id", "option", "system": <rdsystem dict>, "kw": {RDScript keyword arguments, plain numbers},
                                   "derive": ["copy" | "deepcopy" | "traj" | "setup_traj", ...],
                                   "edits": [[attribute, value], ...], "max": N, "past_end": k, "size": nspecies*ncells}]}
lines:  B <job>       before a job
        R <json>      observations of that job ("raised": "<exception>" if a Python exception came out of the package)
Observations: the getters of the derived script after the edits and of the source script after the derived one was edited;
after setup: is_complete(), native clock and state; after every iterate(): return value, is_complete(), native clock, native
state; get_progress(); the trajectory.
"""
import sys, json, ctypes, hashlib, warnings, copy
warnings.filterwarnings("ignore")


def main():
    spec = json.load(open(sys.argv[1]))
    import numpy as np
    import strengths as st
    from strengths.librdengine import LibRDEngine
    from strengths.simulate import simulate_script
    lib_path = spec["so"]

    def mk(option):
        return LibRDEngine(ctypes.CDLL(lib_path), option=option, requires_molecules=(option != "euler"))

    def getters(sc):
        g = {}
        for name, f in (("t_sample", lambda: [float(v) for v in sc.t_sample.value]), ("t_sample_units", lambda: str(sc.t_sample.units)),
                        ("t_max", lambda: float(sc.t_max.value)), ("t_max_units", lambda: str(sc.t_max.units)),
                        ("time_step", lambda: float(sc.time_step.value)), ("sampling_interval", lambda: float(sc.sampling_interval.value)),
                        ("sampling_policy", lambda: sc.sampling_policy)):
            try:
                g[name] = f()
            except Exception as ex:  # noqa
                g[name] = "error:" + type(ex).__name__
        return g

    for job in spec["jobs"]:
        sys.stdout.write("B %s\n" % job["id"]); sys.stdout.flush()
        res = {"job": job["id"]}
        live = None
        try:
            option = job["option"]
            system = st.rdsystem_from_dict(job["system"])
            base = st.RDScript(system, **job["kw"])
            cur = base
            for d in job["derive"]:
                if d == "copy":
                    cur = cur.copy()
                elif d == "deepcopy":
                    cur = copy.deepcopy(cur)
                elif d == "traj":
                    cur = simulate_script(cur, mk(option)).script
                elif d == "setup_traj":
                    e0 = mk(option)
                    live = e0
                    e0.setup(cur)
                    o0 = e0.get_output()
                    e0.finalize()
                    live = None
                    cur = o0.script
                else:
                    raise RuntimeError("unknown derivation " + d)
            for attr, val in job["edits"]:
                setattr(cur, attr, val)
            res["derived"] = getters(cur)
            res["source"] = getters(base)
            sc = cur
            e = mk(option)
            lib = e._lib
            lib.engineexport_get_time.restype = ctypes.c_double
            us = sc.units_system.copy()
            if e._requires_molecules:
                us.quantity = "molecule"
            res["meta"] = dict(ns=len(sc.system.network.species), n=int(sc.system.space.size()), size=int(sc.system.state_size()),
                               x0=[float(v) for v in sc.system.state.convert(us).value],
                               x0_out=[float(v) for v in sc.system.state.convert(sc.units_system).value],
                               tfactor=float(st.UnitValue(1, st.Units(us, st.time_units_dimensions())).convert(sc.units_system).value),
                               qfactor=float(st.UnitValue(1, st.Units(us, st.quantity_units_dimensions())).convert(sc.units_system).value))
            size = job["size"]
            buf = (ctypes.c_double * max(size, 1))()

            def state():
                lib.engineexport_get_state(buf)
                return [float(buf[i]) for i in range(size)]
            live = e
            e.setup(sc)
            res["C0"] = bool(e.is_complete())
            res["T0"] = float(lib.engineexport_get_time())
            res["X0"] = state()
            T, U, X, C = [], [], [], []
            past = job.get("past_end", 0)
            n = 0
            while n < job["max"]:
                u = bool(e.iterate())
                n += 1
                U.append(u)
                C.append(bool(e.is_complete()))
                T.append(float(lib.engineexport_get_time()))
                X.append(state())
                if not u:
                    if not past:
                        break
                    past -= 1
            res.update(T=T, U=U, X=X, C=C, progress=float(e.get_progress()))
            o = e.get_output()
            e.finalize()
            live = None
            t = np.ascontiguousarray(np.asarray(o.t.value, dtype=float))
            d = np.ascontiguousarray(np.asarray(o.data.value, dtype=float))
            res["out"] = {"nt": int(t.size), "nd": int(d.size), "hash": hashlib.sha1(t.tobytes() + b"|" + d.tobytes()).hexdigest(),
                          "nsamples": int(o.nsamples()), "nspecies": int(o.nspecies()), "ncells": int(o.ncells()),
                          "t": [float(v) for v in t], "data": [float(v) for v in d]}
        except Exception as ex:  # noqa  (Python-level exception: "raised")
            res["raised"] = type(ex).__name__ + ": " + str(ex)[:200]
            if live is not None:
                try:
                    live._lib.engineexport_finalize()
                except Exception:  # noqa
                    pass
        sys.stdout.write("R " + json.dumps(res) + "\n"); sys.stdout.flush()


if __name__ == "__main__":
    main()
