"""C13 — Default state and chemostat map: density x volume, species-major layout.

Theorems: lean/Strengths/Props/C13.lean (index formulas and constants regenerated from rdsystem.py, rdgridspace.py,
rdgraphspace.py, value_processing.py: groups IndexPy, GeomPy, SystemPy, Units).

Correspondence: one `rdsystem` op per generated system = construction (default state, default chemostat map) followed by
a call sequence (get/set_state, get/set_chemostat, get_state_index, species edits, set_default_state/chemostats); the real
package executes the same sequence; every returned value and the arrays after each phase are compared.

Oracle (written from the statement, exact rational arithmetic with its own SI table): entry (s, cell) of the default state
has SI value SI(density of s in env(cell), falling back to 'default', then 0) x SI(volume(cell)), is an amount, sits at
index s*n + cell (cell = z*w*h + y*w + x on grids); the chemostat map holds the flag at the same index; getters and
setters behave as an abstract map keyed by (species, cell) for every way of naming the species and the cell, converting
the written value; positions outside the space and unknown species raise and change nothing; regenerated defaults equal
those of a freshly built system after a species edit.
"""
from fractions import Fraction
from common import frac, rstr, rparse, close
from props.c06 import SPACE, TIME, QTY, PREFIX, NA, si_factor, sysj, unitsj

ID = "C13"
LEAN_TARGETS = ["Strengths.Props.C13"]
PROP_FILES = ["Strengths/Props/C13.lean"]
GEN_GROUPS = ["IndexPy", "GeomPy", "SystemPy", "Units"]
RULE = ("random systems: 1-3 species x 1-3 environments; density / chstt scalar or per-environment dictionaries (with and "
        "without 'default', comma-joined keys, missing environments), numbers / UnitValues / unit strings (incl. molar "
        "symbols); grid (w,h,d <= 4, all boundary settings, number / UnitValue / string cell volume) or graph (1-8 nodes, "
        "per-node volume and units system) spaces with random environment maps; independent random units systems for "
        "species, network, space, nodes and system; every (species, cell) pair read through rotating naming forms; "
        "random writes; malformed positions / species; species edits + regeneration; every 5th system has a chstt dictionary with "
        "an explicitly falsy entry (False / 0 / 0.0) for a used environment AND a truthy 'default' (also after an edit); spaces built with OMITTED constructor arguments (every 4th system omits the grid cell "
        "volume under a non-µm space unit; cell_env / w,h,d / boundary conditions / node volume and environment omitted at random; "
        "constructor and rdspace_from_dict routes) against the documented defaults; copy() histories (b = a.copy(), network.copy(), space.copy(); "
        "writes / species edits + regeneration on one, both re-inspected against their own expected content); refused-assignment histories (space with an environment index beyond the network's list / wrong type, network, state, "
        "chemostats, units_system, per-entry setters with bad values: after every refusal all entries are re-read and the defaults "
        "regenerated against the unchanged expectation); species edits are made through the setters AND in place through the objects the getters "
        "return (density dict entry replaced / added, scalar `.value` changed, chstt dict entry) before regenerating; sharing: "
        "systems built from another system's arrays / the caller's ndarrays (constructor and property setters), a setter on one "
        "must change one entry of that system and nothing else, edits of the caller's arrays must not leak; every 6th system uses rarely "
        "written environment labels (the UNNAMED environment \"\" - also through a network built WITHOUT an environment list -, labels "
        "differing only by case, prefixes of each other, equal to a species label) with a species that certainly has its own entry for a "
        "used one; every 6th system (+15 %) has a network whose species / environment lists were ASSIGNED through the public setters "
        "after the network was constructed with other lists (re-ordered, one species missing / one more, environments omitted), and "
        "re-assigned again (re-ordered) AFTER the system was built, defaults regenerated, every entry read by label, object and index "
        "and written by label / object.  Non-trivial: more than one cell or "
        "species and a non-zero density somewhere; distinct by the whole description")
ASSUMPTIONS = [
    "floats: |impl - exact| <= 1e-9 relative (products and unit conversions only, no cancellation)",
    "unit strings are turned into UnitValues by the package's own parser (C18); the model receives the parsed value, the oracle "
    "knows the SI meaning from the generator",
    "state dictionaries (RDSystem(state={...})) are not generated: generate_system_state calls UnitArray.len(), which does not exist",
]
TRUSTED = ["Python-side SI oracle (prefix table of props/c06.py)"]

DENS = (-3, 0, 1)
VOL = (3, 0, 0)
QTYD = (0, 0, 1)
DEFAULT_SYS = ("µm", "s", "molecule")
MOLAR = {"M": Fraction(1), "mM": Fraction(1, 1000), "µM": Fraction(1, 10 ** 6), "nM": Fraction(1, 10 ** 9)}


class P:
    def __init__(self, x, y, z):
        self.x, self.y, self.z = x, y, z


def rand_sys(rng, nice=False):
    if nice or rng.random() < 0.3:
        return DEFAULT_SYS
    return (rng.choice(SPACE), rng.choice(TIME), rng.choice(QTY))


def nice_float(rng, allow_zero=True):
    if allow_zero and rng.random() < 0.12:
        return 0.0
    return float(rng.randint(1, 999) * Fraction(10) ** rng.randint(-3, 3))


def unit_text(sys, dim):
    parts = []
    for sym, e in zip(sys, dim):
        if e != 0:
            parts.append(sym if e == 1 else "%s%d" % (sym, e))
    return ".".join(parts)


def gen_quantity(rng, owner_sys, dim, allow_zero=True):
    """a quantity as the user writes it.  returns dict(kind, v, sys (for uval/str), text, si)"""
    r = rng.random()
    v = nice_float(rng, allow_zero)
    if r < 0.45:
        return {"kind": "num", "v": v, "si": frac(v) * si_factor(owner_sys, dim)}
    sys = rand_sys(rng)
    if r < 0.7:
        return {"kind": "uval", "v": v, "sys": sys, "si": frac(v) * si_factor(sys, dim)}
    if dim == DENS and rng.random() < 0.4:
        sym = rng.choice(sorted(MOLAR))
        # 1 M = 1 mol / dm3
        si = frac(v) * MOLAR[sym] * NA / Fraction(1, 1000)
        return {"kind": "str", "v": v, "text": "%r %s" % (v, sym), "si": si}
    return {"kind": "str", "v": v, "sys": sys, "text": "%r %s" % (v, unit_text(sys, dim)), "si": frac(v) * si_factor(sys, dim)}


def q_real(q, dim):
    """the Python object handed to the package"""
    from strengths import UnitValue, Units, UnitsSystem, UnitsDimensions
    if q["kind"] == "num":
        return q["v"]
    if q["kind"] == "uval":
        return UnitValue(q["v"], Units(UnitsSystem(*q["sys"]), UnitsDimensions(*dim)))
    return q["text"]


def q_model(q, dim):
    """wire form for the model (strings: what the package's parser made of them)"""
    from strengths import UnitValue
    if q["kind"] == "num":
        return {"num": rstr(q["v"])}
    if q["kind"] == "uval":
        return {"uval": {"v": rstr(q["v"]), "u": unitsj(q["sys"], dim)}}
    x = UnitValue(q["text"])
    return {"uval": {"v": rstr(x.value), "u": {"sys": {"space": x.units.sys.space, "time": x.units.sys.time, "quantity": x.units.sys.quantity},
                                               "dim": [x.units.dim.space, x.units.dim.time, x.units.dim.quantity]}}}


def gen_envval(rng, envs, gen_one, comma=True):
    """scalar or per-environment dictionary: returns ("single", x) | ("dict", [(key, x), ...])"""
    if rng.random() < 0.4:
        return ("single", gen_one())
    items = []
    pool = list(envs)
    rng.shuffle(pool)
    keep = pool[:rng.randint(0, len(pool))]
    if comma and len(keep) >= 2 and "" not in keep[:2] and rng.random() < 0.35:
        # (the unnamed environment "" is never written inside a comma-joined key: "a," is not demanded to mean "a" and "")
        items.append((rng.choice([",", ", ", " ,"]).join(keep[:2]), gen_one()))
        keep = keep[2:]
    for k in keep:
        items.append((k, gen_one()))
    if rng.random() < 0.45:
        items.insert(rng.randint(0, len(items)), ("default", gen_one()))
    return ("dict", items)


def envval_lookup(ev, env, dflt, split_keys):
    """the property's reading: the entry of the cell's environment, else 'default', else dflt"""
    if ev[0] == "single":
        return ev[1]
    table = {}
    for k, x in ev[1]:
        for ki in (k.split(",") if split_keys else [k]):
            table[ki.strip() if split_keys else ki] = x
    if env in table:
        return table[env]
    return table.get("default", dflt)


def falsy_default_chstt(rng, envs, env):
    """a per-environment chemostat dictionary whose entry for `env` is explicitly falsy (False / 0 / 0.0) while the
    'default' entry is truthy: the explicit entry must win"""
    items = [(env, rng.choice([False, 0, 0.0]))]
    for e in envs:
        if e != env and rng.random() < 0.5:
            items.append((e, rng.choice([True, False, 1])))
    items.insert(rng.randint(0, len(items)), ("default", rng.choice([True, 1])))
    return ("dict", items)


def used_env(desc, rng):
    sd = desc["space"]
    idxs = sd["cell_env"] if sd["kind"] == "grid" else [nd["env"] for nd in sd["nodes"]]
    ok = [e for e in idxs if 0 <= e < len(desc["envs"])]
    return desc["envs"][rng.choice(ok)] if ok else desc["envs"][0]


def inplace_density(rng, sp_real, spd, envs):
    """edit a species' density IN PLACE through the object its getter returns (an entry of the per-environment dictionary
    replaced / added, or the `.value` of the scalar UnitValue changed); returns (new description, what) or None"""
    ev = spd["density"]
    obj = sp_real.density
    if ev[0] == "dict":
        tab = {}
        for k, x in ev[1]:
            for ki in k.split(","):
                tab[ki.strip()] = x
        key = rng.choice(list(envs) + ["default"])
        sys_ = rand_sys(rng)
        v = nice_float(rng)
        q = {"kind": "uval", "v": v, "sys": sys_, "si": frac(v) * si_factor(sys_, DENS)}
        obj[key] = q_real(q, DENS)
        tab[key] = q
        return ("dict", list(tab.items())), "species.density[%r] = UnitValue(...)" % key
    q0 = ev[1]
    if q0["kind"] == "str" and "sys" not in q0:
        return None
    sys_ = tuple(spd["sys"]) if q0["kind"] == "num" else tuple(q0["sys"])
    v = nice_float(rng)
    obj.value = v
    return ("single", {"kind": "uval", "v": v, "sys": sys_, "si": frac(v) * si_factor(sys_, DENS)}), "species.density.value = %r" % v


def inplace_chstt(rng, sp_real, spd, envs):
    ev = spd["chstt"]
    if ev[0] != "dict":
        return None
    key = rng.choice(list(envs) + ["default"])
    flag = rng.choice([True, False, 0, 1])
    sp_real.chstt[key] = flag
    tab = dict(ev[1])
    tab[key] = flag
    return ("dict", list(tab.items())), "species.chstt[%r] = %r" % (key, flag)


ENV_POOL = ["a", "b", "c", "cyt", "mem"]
# rarely written but legal labels: the UNNAMED environment "" (also the only environment of a network built without an
# environment list), labels differing only by case, labels that are prefixes of each other, a label equal to a species label
RARE_ENV_POOL = ["", "cyt", "Cyt", "cy", "a", "A"]


def gen_net_history(rng, envs, nsp):
    """how the network reaches its final content: built with ANOTHER species list / environment list (re-ordered, one
    missing, one more, environments omitted), then assigned through the public setters `network.species = …`,
    `network.environments = …`"""
    order = list(range(nsp))
    rng.shuffle(order)
    extra = None
    if nsp >= 2 and rng.random() < 0.3:
        order.pop(rng.randrange(len(order)))
    if rng.random() < 0.35 or order == list(range(nsp)):
        extra = rng.randint(0, len(order) if order != list(range(nsp)) else 0)
    r = rng.random()
    if r < 0.3:
        envs_first = None                       # the constructor already receives the final list
    elif r < 0.5:
        envs_first = "omitted"                  # documented default [""], then assigned
    else:
        envs_first = list(envs)
        rng.shuffle(envs_first)
        if rng.random() < 0.4:
            envs_first.insert(rng.randint(0, len(envs_first)), "zz")
        elif len(envs_first) > 1 and rng.random() < 0.4:
            envs_first.pop()
    return {"species_first": order, "extra": extra, "envs_first": envs_first, "as_tuple": rng.random() < 0.3}


def gen_desc(rng, malformed_env=False, force_falsy=False, omit_defaults=False, rare_labels=False, reassign=False):
    if rare_labels:
        envs = rng.sample(RARE_ENV_POOL, rng.randint(1, 3))
        if "" not in envs and rng.random() < 0.7:
            envs[rng.randrange(len(envs))] = ""
    else:
        envs = rng.sample(ENV_POOL, rng.randint(1, 3))
    nsys = rand_sys(rng)
    species = []
    for label in rng.sample(["A", "B", "C", "X1", "Y_2"], rng.randint(1, 3)):
        ssys = nsys if rng.random() < 0.5 else rand_sys(rng)
        dens = gen_envval(rng, envs, lambda: gen_quantity(rng, ssys, DENS))
        ch = gen_envval(rng, envs, lambda: rng.random() < 0.4, comma=False)
        species.append({"label": label, "sys": ssys, "density": dens, "chstt": ch})
    spsys = rand_sys(rng)
    if rng.random() < 0.55:
        while True:
            w, h, d = rng.randint(1, 4), rng.randint(1, 4), rng.randint(1, 3)
            if w * h * d <= 24:
                break
        n = w * h * d
        space = {"kind": "grid", "w": w, "h": h, "d": d, "periodic": [rng.random() < 0.3 for _ in range(3)],
                 "cell_vol": gen_quantity(rng, spsys, VOL, allow_zero=False), "sys": spsys,
                 "cell_env": [rng.randrange(len(envs)) for _ in range(n)], "omit": [], "route": rng.choice(["ctor", "dict"])}
        # arguments left out: the DOCUMENTED defaults apply (written here from the documentation, not from the code):
        # w = h = d = 1, every cell in environment 0, reflecting boundaries, cell volume 1 in the SPACE's own units system
        if omit_defaults or rng.random() < 0.15:
            if omit_defaults:
                while spsys[0] == "µm":          # the default volume must be 1 cubic SPACE unit, whatever that unit is
                    spsys = rand_sys(rng)
                space["sys"] = spsys
            space["omit"].append("cell_vol")
            space["cell_vol"] = {"kind": "num", "v": 1.0, "si": si_factor(spsys, VOL)}
        if rng.random() < 0.12:
            space["omit"].append("cell_env")
            space["cell_env"] = [0] * n
        if rng.random() < 0.1:
            space["omit"].append("bc")
            space["periodic"] = [False, False, False]
        if rng.random() < 0.08:
            space["omit"].append("dims")
            space["w"] = space["h"] = space["d"] = n = 1
            space["cell_env"] = space["cell_env"][:1]
    else:
        n = rng.randint(1, 8)
        nodes = []
        for _ in range(n):
            ns = spsys if rng.random() < 0.5 else rand_sys(rng)
            nd = {"vol": gen_quantity(rng, ns, VOL, allow_zero=False), "env": rng.randrange(len(envs)), "sys": ns, "omit": []}
            if rng.random() < (0.5 if omit_defaults else 0.1):     # documented node defaults: volume 1 (node's units), environment 0
                nd["omit"].append("vol")
                nd["vol"] = {"kind": "num", "v": 1.0, "si": si_factor(ns, VOL)}
            if rng.random() < 0.1:
                nd["omit"].append("env")
                nd["env"] = 0
            nodes.append(nd)
        space = {"kind": "graph", "nodes": nodes, "sys": spsys,
                 "edges": [[rng.randrange(n), rng.randrange(n)] for _ in range(rng.randint(0, n))]}
    if malformed_env:
        k = rng.randrange(n)
        bad = rng.choice([len(envs), len(envs) + 2, -1, -len(envs) - 1])
        if space["kind"] == "grid":
            space["cell_env"][k] = bad
        else:
            space["nodes"][k]["env"] = bad
    desc = {"envs": envs, "net_sys": nsys, "species": species, "space": space, "sys": rand_sys(rng), "n": n}
    if rng.random() < 0.12:
        desc["state_override"] = [nice_float(rng) for _ in range(n * len(species))]
    if rng.random() < 0.12 and not force_falsy:
        desc["chem_override"] = [int(rng.random() < 0.3) for _ in range(n * len(species))]
    if force_falsy:
        k = rng.randrange(len(species))
        species[k]["chstt"] = falsy_default_chstt(rng, envs, used_env(desc, rng))
        desc["force_falsy"] = True
    if rare_labels and not malformed_env:
        # one species certainly has its own (non-zero) entry for a USED environment, next to a different 'default'
        k = rng.randrange(len(species))
        ue = used_env(desc, rng)
        ssys = species[k]["sys"]
        items = [(ue, gen_quantity(rng, ssys, DENS, allow_zero=False))]
        for e in envs:
            if e != ue and rng.random() < 0.5:
                items.append((e, gen_quantity(rng, ssys, DENS)))
        if rng.random() < 0.6:
            items.insert(rng.randint(0, len(items)), ("default", gen_quantity(rng, ssys, DENS, allow_zero=False)))
        species[k]["density"] = ("dict", items)
        if not force_falsy and rng.random() < 0.6:
            species[k]["chstt"] = ("dict", [(ue, True)] + ([("default", False)] if rng.random() < 0.5 else []))
        desc["rare_labels"] = True
        if envs == [""] and rng.random() < 0.6:
            desc["envs_omitted"] = True           # RDNetwork(species, reactions): documented default environments = [""]
    if (reassign or rng.random() < 0.15) and not desc.get("envs_omitted"):
        desc["net_history"] = gen_net_history(rng, envs, len(species))
    if reassign or rng.random() < 0.15:
        desc["reassign_after"] = True
    return desc


# ------------------------------------------------------------------------------------------------
# building the real objects / the model op
# ------------------------------------------------------------------------------------------------
def envval_real(ev, dim):
    if ev[0] == "single":
        return q_real(ev[1], dim) if dim is not None else ev[1]
    return {k: (q_real(x, dim) if dim is not None else x) for k, x in ev[1]}


def envval_model(ev, dim):
    if ev[0] == "single":
        return {"single": q_model(ev[1], dim) if dim is not None else int(ev[1])}
    return {"dict": [[k, q_model(x, dim) if dim is not None else int(x)] for k, x in ev[1]]}


def build_real(desc):
    from strengths import (RDNetwork, Species, RDSystem, RDGridSpace, RDGraphSpace, RDGraphSpaceNode, RDGraphSpaceEdge, UnitsSystem)
    sp = [Species(s["label"], density=envval_real(s["density"], DENS), chstt=envval_real(s["chstt"], None),
                  units_system=UnitsSystem(*s["sys"])) for s in desc["species"]]
    hist = desc.get("net_history")
    if desc.get("envs_omitted"):
        net = RDNetwork(species=sp, reactions=[], units_system=UnitsSystem(*desc["net_sys"]))
    elif hist:
        first = [sp[i] for i in hist["species_first"]]
        if hist.get("extra") is not None:
            first.insert(hist["extra"], Species("Zq", density=1.0, chstt=True))
        kw = {}
        if hist["envs_first"] != "omitted":
            kw["environments"] = list(hist["envs_first"] if hist["envs_first"] is not None else desc["envs"])
        net = RDNetwork(species=first, reactions=[], units_system=UnitsSystem(*desc["net_sys"]), **kw)
        net.species = tuple(sp) if hist.get("as_tuple") else list(sp)
        if hist["envs_first"] is not None:
            net.environments = tuple(desc["envs"]) if hist.get("as_tuple") else list(desc["envs"])
    else:
        net = RDNetwork(species=sp, reactions=[], environments=list(desc["envs"]), units_system=UnitsSystem(*desc["net_sys"]))
    sd = desc["space"]
    us = UnitsSystem(*sd["sys"])
    if sd["kind"] == "grid":
        omit = sd.get("omit", [])
        kw = {}
        if "dims" not in omit:
            kw.update(w=sd["w"], h=sd["h"], d=sd["d"])
        if "cell_env" not in omit:
            kw["cell_env"] = list(sd["cell_env"])
        if "cell_vol" not in omit:
            kw["cell_vol"] = q_real(sd["cell_vol"], VOL)
        if "bc" not in omit:
            kw["boundary_conditions"] = {a: ("periodical" if p else "reflecting") for a, p in zip("xyz", sd["periodic"])}
        if sd.get("route") == "dict":
            from strengths.rdspace import rdspace_from_dict
            dd = {"type": "grid", "units": {"space": sd["sys"][0], "time": sd["sys"][1], "quantity": sd["sys"][2]}}
            for k, v in kw.items():
                dd[{"cell_vol": "cell_volume"}.get(k, k)] = v
            space = rdspace_from_dict(dd)
        else:
            space = RDGridSpace(units_system=us, **kw)
    else:
        nodes = []
        for nd in sd["nodes"]:
            nkw = {}
            if "vol" not in nd.get("omit", []):
                nkw["volume"] = q_real(nd["vol"], VOL)
            if "env" not in nd.get("omit", []):
                nkw["environment"] = nd["env"]
            nodes.append(RDGraphSpaceNode(units_system=UnitsSystem(*nd["sys"]), **nkw))
        edges = [RDGraphSpaceEdge(i=e[0], j=e[1], units_system=us) for e in sd["edges"]]
        space = RDGraphSpace(nodes=nodes, edges=edges, units_system=us)
    kw = {}
    if "state_override" in desc:
        kw["state"] = list(desc["state_override"])
    if "chem_override" in desc:
        kw["chemostats"] = list(desc["chem_override"])
    return RDSystem(net, space, units_system=UnitsSystem(*desc["sys"]), **kw)


def model_op(desc, calls):
    sd = desc["space"]
    if sd["kind"] == "grid":
        omit = sd.get("omit", [])
        shape = {}
        if "dims" not in omit:
            shape.update(w=sd["w"], h=sd["h"], d=sd["d"])
        if "bc" not in omit:
            shape.update(px=sd["periodic"][0], py=sd["periodic"][1], pz=sd["periodic"][2])
        space = {"kind": "grid", "shape": shape, "sys": sysj(sd["sys"])}
        if "cell_vol" not in omit:
            space["cell_vol"] = q_model(sd["cell_vol"], VOL)
        if "cell_env" not in omit:
            space["cell_env"] = sd["cell_env"]
    else:
        nodes = []
        for nd in sd["nodes"]:
            m = {"sys": sysj(nd["sys"])}
            if "vol" not in nd.get("omit", []):
                m["vol"] = q_model(nd["vol"], VOL)
            if "env" not in nd.get("omit", []):
                m["env"] = nd["env"]
            nodes.append(m)
        space = {"kind": "graph", "sys": sysj(sd["sys"]), "nodes": nodes}
    op = {"op": "rdsystem", "sys": sysj(desc["sys"]), "space": space,
          "net": {"sys": sysj(desc["net_sys"]), "envs": desc["envs"],
                  "species": [{"label": s["label"], "sys": sysj(s["sys"]), "density": envval_model(s["density"], DENS),
                               "chstt": envval_model(s["chstt"], None)} for s in desc["species"]]},
          "calls": [c["model"] for c in calls]}
    if "state_override" in desc:
        op["state_override"] = [rstr(v) for v in desc["state_override"]]
    if "chem_override" in desc:
        op["chem_override"] = desc["chem_override"]
    return op


# ------------------------------------------------------------------------------------------------
# the property's expectations
# ------------------------------------------------------------------------------------------------
def cell_env_vol_si(desc, cell):
    sd = desc["space"]
    if sd["kind"] == "grid":
        return sd["cell_env"][cell], sd["cell_vol"]["si"]
    nd = sd["nodes"][cell]
    return nd["env"], nd["vol"]["si"]


def expected_state_si(desc, s, cell):
    env_i, vsi = cell_env_vol_si(desc, cell)
    env = desc["envs"][env_i]
    q = envval_lookup(desc["species"][s]["density"], env, None, True)
    return (q["si"] if q is not None else Fraction(0)) * vsi


def expected_chem(desc, s, cell):
    env_i, _ = cell_env_vol_si(desc, cell)
    return int(bool(envval_lookup(desc["species"][s]["chstt"], desc["envs"][env_i], False, False)))


def cell_coords(sd, cell):
    w, h = sd["w"], sd["h"]
    return (cell % w, (cell // w) % h, cell // (w * h))


def species_ref(rng, desc, s, system=None):
    """(real argument, model json, form name)"""
    f = rng.choice(["label", "idx", "obj"])
    lab = desc["species"][s]["label"]
    if f == "label":
        return lab, {"label": lab}, f
    if f == "idx":
        return s, {"idx": s}, f
    return ("OBJ", s), {"obj": lab}, f


def pos_ref(rng, desc, cell):
    sd = desc["space"]
    if sd["kind"] != "grid":
        return cell, {"n": cell}, "n"
    f = rng.choice(["n", "tuple", "obj", "list"])
    if f == "n":
        return cell, {"n": cell}, f
    c = cell_coords(sd, cell)
    if f == "obj":
        return ("P", c), {"o": list(c)}, f
    return (tuple(c) if f == "tuple" else list(c)), {"a": list(c)}, f


def realise(arg, system):
    if isinstance(arg, tuple) and len(arg) == 2 and arg[0] == "OBJ":
        return system.network.species[arg[1]]
    if isinstance(arg, tuple) and len(arg) == 2 and arg[0] == "P":
        return P(*arg[1])
    return arg


def state_si(system):
    us = system.state.units.sys
    f = si_factor((us.space, us.time, us.quantity), QTYD)
    return [frac(v) * f for v in system.state.value]


def units_tuple(u):
    return (u.sys.space, u.sys.time, u.sys.quantity), (u.dim.space, u.dim.time, u.dim.quantity)


# ------------------------------------------------------------------------------------------------
def run_system(ctx, desc, idx):
    """builds the system on the real code, runs the call sequence, applies the oracle; returns (calls, record) for the model"""
    rng = ctx.rng
    nsp, n = len(desc["species"]), desc["n"]
    sd = desc["space"]
    case = {"desc": desc}
    try:
        system = build_real(desc)
        berr = None
    except Exception as e:  # noqa
        system, berr = None, type(e).__name__
    rec = {"build_error": berr, "calls": [], "desc": desc}
    valid_env = all(0 <= cell_env_vol_si(desc, c)[0] < len(desc["envs"]) for c in range(n))
    nontriv = (n * nsp > 1)
    ctx.case(("sys", idx, sd["kind"], n, nsp), nontrivial=nontriv, sample={"op": "rdsystem", "space": sd["kind"], "cells": n, "species": nsp})
    ctx.count("space_" + sd["kind"])
    if sd["kind"] == "grid":
        ctx.count("grid_route_" + sd.get("route", "ctor"))
        for k in sd.get("omit", []):
            ctx.count("grid_omits_" + k + ("_non_default_space_unit" if k == "cell_vol" and sd["sys"][0] != "µm" else ""))
    else:
        ctx.count("graph_nodes_omitting_volume", sum(1 for nd in sd["nodes"] if "vol" in nd.get("omit", [])))
    ctx.count("species_%d" % nsp)
    ctx.count("envs_%d" % len(desc["envs"]))
    if "" in desc["envs"]:
        ctx.count("unnamed_environment_label")
        if any(sp_["density"][0] == "dict" and any(k == "" for k, _ in sp_["density"][1]) for sp_ in desc["species"]):
            ctx.count("density_entry_for_unnamed_environment")
    if len(set(e.lower() for e in desc["envs"])) < len(desc["envs"]):
        ctx.count("environment_labels_differing_by_case")
    if desc.get("envs_omitted"):
        ctx.count("network_built_without_environment_list")
    if desc.get("net_history"):
        ctx.count("network_lists_assigned_after_construction")
    for s in desc["species"]:
        ctx.count("density_" + s["density"][0])
        ctx.count("chstt_" + s["chstt"][0])
        if s["chstt"][0] == "dict" and any(k == "default" and v for k, v in s["chstt"][1]) \
                and any(k != "default" and not v for k, v in s["chstt"][1]):
            ctx.count("chstt_falsy_entry_with_truthy_default")
    if not valid_env:
        ctx.count("malformed_env_map")
        # (whether such a map is rejected is input validation, C20; here only model vs code is compared)
        rec["state0"] = None if system is None else (list(system.state.value), units_tuple(system.state.units), [int(c) for c in system.chemostats])
        return [], rec
    if berr is not None:
        ctx.violation("build-raises", "building a valid system raised %s" % berr, case, impl=berr, expected="system")
        return [], rec

    st_units = units_tuple(system.state.units)
    rec["state0"] = (list(system.state.value), st_units, [int(c) for c in system.chemostats])
    # ---------------------------------------------------------------- defaults: formula, units, layout
    if "state_override" not in desc:
        # which units system the state is expressed in is the code's choice (the network's; compared with the model in the
        # correspondence); the property demands an amount with the right SI value
        if st_units[1] != QTYD or st_units[0][0] not in SPACE or st_units[0][1] not in TIME or st_units[0][2] not in QTY:
            ctx.violation("default-state-units", "the default state is expressed in %r, not an amount" % (st_units,), case,
                          impl=st_units, expected=[desc["net_sys"], QTYD])
        elif len(system.state.value) != n * nsp:
            ctx.violation("default-state-size", "default state has %d entries for %d species x %d cells" % (len(system.state.value), nsp, n),
                          case, impl=len(system.state.value), expected=n * nsp)
        else:
            si = state_si(system)
            for s in range(nsp):
                for c in range(n):
                    want = expected_state_si(desc, s, c)
                    ctx.evaluations += 1
                    if not close(si[s * n + c], want, rel=1e-9):
                        ctx.violation("default-state-entry", "default state entry of species %d (%s) in cell %d is %s molecules, density x volume = %s"
                                      % (s, desc["species"][s]["label"], c, float(si[s * n + c]), float(want)),
                                      dict(case, species=s, cell=c), impl=float(si[s * n + c]), expected=rstr(want))
                        break
    if "chem_override" not in desc:
        ch = [int(x) for x in system.chemostats]
        want = [expected_chem(desc, s, c) for s in range(nsp) for c in range(n)]
        if ch != want:
            k = [i for i in range(max(len(ch), len(want))) if i >= len(ch) or i >= len(want) or ch[i] != want[i]][0]
            ctx.violation("default-chem-entry", "default chemostat map differs from the species' flags at flat index %d (species %d, cell %d)"
                          % (k, k // n, k % n), dict(case, species=k // n, cell=k % n), impl=ch, expected=want)

    calls = []

    def do(kind, s=None, cell=None, value=None, sp_arg=None, pos_arg=None, expect_error=False, extra=None):
        """one accessor call on the real code; returns (result | None, error | None)"""
        if sp_arg is None:
            sp_arg = species_ref(rng, desc, s)
        if pos_arg is None:
            pos_arg = pos_ref(rng, desc, cell)
        m = {"k": kind, "sp": sp_arg[1], "pos": pos_arg[1]}
        a_sp, a_pos = realise(sp_arg[0], system), realise(pos_arg[0], system)
        try:
            if kind == "get_state":
                x = system.get_state(a_sp, a_pos)
                out = (float(x.value), units_tuple(x.units))
            elif kind == "get_chem":
                out = int(system.get_chemostat(a_sp, a_pos))
            elif kind == "get_state_index":
                out = int(system.get_state_index(a_sp, a_pos))
            elif kind == "set_state":
                m["value"] = q_model(value, QTYD)
                system.set_state(a_sp, a_pos, q_real(value, QTYD))
                out = None
            else:
                m["value"] = int(value)
                system.set_chemostat(a_sp, a_pos, value)
                out = None
            err = None
        except Exception as e:  # noqa
            out, err = None, type(e).__name__
        calls.append({"model": m, "real": (out, err), "forms": (sp_arg[2], pos_arg[2])})
        ctx.count("call_" + kind)
        ctx.count("spform_" + sp_arg[2])
        ctx.count("posform_" + pos_arg[2])
        return out, err

    # ---------------------------------------------------------------- every (species, cell): getters read exactly that entry
    for s in range(nsp):
        for c in range(n):
            ccase = dict(case, species=s, cell=c)
            flat = s * n + c
            k, e = do("get_state_index", s, c)
            if e is not None or k != flat:
                ctx.violation("state-index", "get_state_index(%d, %d) = %r, species-major layout gives %d" % (s, c, k if e is None else e, flat),
                              ccase, impl=k if e is None else e, expected=flat)
            x, e = do("get_state", s, c)
            ctx.evaluations += 1
            if e is not None or x[0] != float(system.state.value[flat]) or x[1] != units_tuple(system.state.units):
                ctx.violation("get-state", "get_state(species %d, cell %d) = %r, the state array holds %r at s*n+cell = %d"
                              % (s, c, x if e is None else e, float(system.state.value[flat]) if flat < len(system.state.value) else None, flat),
                              ccase, impl=x if e is None else e, expected=float(system.state.value[flat]) if flat < len(system.state.value) else None)
            f, e = do("get_chem", s, c)
            if e is not None or f != int(system.chemostats[flat]):
                ctx.violation("get-chem", "get_chemostat(species %d, cell %d) = %r, the map holds %r at %d" % (s, c, f if e is None else e, int(system.chemostats[flat]), flat),
                              ccase, impl=f if e is None else e, expected=int(system.chemostats[flat]))

    # ---------------------------------------------------------------- writes: abstract map, unit conversion of the value
    for _ in range(min(8, 2 + n * nsp // 2)):
        s, c = rng.randrange(nsp), rng.randrange(n)
        flat = s * n + c
        before = state_si(system)
        q = gen_quantity(rng, desc["sys"], QTYD)
        _, e = do("set_state", s, c, value=q)
        after = state_si(system)
        want = list(before)
        want[flat] = q["si"]
        wcase = dict(case, species=s, cell=c, value={k: (rstr(v) if isinstance(v, Fraction) else v) for k, v in q.items()})
        ctx.case(("set", idx, s, c, q["kind"]), nontrivial=True)
        if e is not None:
            ctx.violation("set-state-raises", "set_state on a valid entry raised %s" % e, wcase, impl=e, expected="ok")
        elif not all(close(a, b, rel=1e-9) if b != 0 else a == 0 for a, b in zip(after, want)):
            bad = [i for i, (a, b) in enumerate(zip(after, want)) if not (close(a, b, rel=1e-9) if b != 0 else a == 0)]
            ctx.violation("set-state", "set_state(species %d, cell %d, %s) changed / failed to set flat entries %r (expected only %d := %s molecules)"
                          % (s, c, q.get("text", q["v"]), bad, flat, float(q["si"])), wcase,
                          impl=[float(after[i]) for i in bad], expected=[float(want[i]) for i in bad])
        else:
            x, e2 = do("get_state", s, c)
            us = x[1][0] if e2 is None else None
            if e2 is not None or not close(frac(x[0]) * si_factor(us, QTYD), q["si"], rel=1e-9):
                ctx.violation("get-after-set", "get_state after set_state does not return the written amount", wcase, impl=x if e2 is None else e2,
                              expected=rstr(q["si"]))
        # chemostat
        s, c = rng.randrange(nsp), rng.randrange(n)
        flat = s * n + c
        beforec = [int(v) for v in system.chemostats]
        val = rng.choice([0, 1, True, False])
        _, e = do("set_chem", s, c, value=val)
        afterc = [int(v) for v in system.chemostats]
        wantc = list(beforec)
        wantc[flat] = int(val)
        if e is not None or afterc != wantc:
            ctx.violation("set-chem", "set_chemostat(species %d, cell %d, %r) did not write exactly entry %d" % (s, c, val, flat),
                          dict(case, species=s, cell=c, value=int(val)), impl=e or afterc, expected=wantc)
        else:
            f, e2 = do("get_chem", s, c)
            if e2 is not None or f != int(val):
                ctx.violation("get-after-set-chem", "get_chemostat after set_chemostat returns %r" % (f if e2 is None else e2,),
                              dict(case, species=s, cell=c, value=int(val)), impl=f if e2 is None else e2, expected=int(val))

    # ---------------------------------------------------------------- malformed: positions outside, unknown species
    bads = []
    if sd["kind"] == "grid":
        w, h, d = sd["w"], sd["h"], sd["d"]
        for p in (n, n + rng.randint(1, 2 * n), -1, -rng.randint(2, n + 2)):
            bads.append((None, (p, {"n": p}, "n-out")))
        for c3 in ((w, 0, 0), (0, h, 0), (0, 0, d), (-1, 0, 0), (0, -1, 0), (0, 0, -1)):
            f = rng.choice(["tuple", "obj"])
            bads.append((None, ((tuple(c3) if f == "tuple" else ("P", c3)), ({"a": list(c3)} if f == "tuple" else {"o": list(c3)}), f + "-out")))
    else:
        for p in (n, n + 3, -1, -n):
            bads.append((None, (p, {"n": p}, "n-out")))
    bads.append((("nope", {"label": "nope"}, "label-unknown"), None))
    bads.append(((nsp, {"idx": nsp}, "idx-out"), None))
    bads.append(((-1, {"idx": -1}, "idx-out"), None))
    for sp_bad, pos_bad in bads:
        s, c = rng.randrange(nsp), rng.randrange(n)
        before = (list(system.state.value), [int(v) for v in system.chemostats])
        for kind, val in (("get_state", None), ("set_state", {"kind": "num", "v": 99.0, "si": Fraction(99)}), ("get_chem", None), ("set_chem", 1)):
            _, e = do(kind, s, c, value=val, sp_arg=sp_bad, pos_arg=pos_bad)
            what = (sp_bad or pos_bad)
            mcase = dict(case, call=kind, species=(s if sp_bad is None else sp_bad[1]), position=(c if pos_bad is None else pos_bad[1]))
            ctx.case(("bad", idx, kind, str(what[1])), nontrivial=True)
            ctx.count("malformed_calls")
            after = (list(system.state.value), [int(v) for v in system.chemostats])
            if e is None:
                ctx.violation("reject:%s" % what[2], "%s with %s %r did not raise" % (kind, "position" if sp_bad is None else "species", what[1]),
                              mcase, impl="returned", expected="exception")
            if after != before:
                ctx.violation("reject-writes:%s" % what[2], "%s with an invalid %s %r modified the system" % (kind, "position" if sp_bad is None else "species", what[1]),
                              mcase, impl={"state": after[0], "chem": after[1]}, expected={"state": before[0], "chem": before[1]})
                before = after

    # ---------------------------------------------------------------- edit a species, regenerate
    for _ in range(2):
        s = rng.randrange(nsp)
        spd = desc["species"][s]
        newd = gen_envval(rng, desc["envs"], lambda: gen_quantity(rng, spd["sys"], DENS))
        newc = gen_envval(rng, desc["envs"], lambda: rng.random() < 0.5, comma=False)
        if desc.get("force_falsy") and _ == 0:
            newc = falsy_default_chstt(rng, desc["envs"], used_env(desc, rng))
            ctx.count("edit_chstt_falsy_with_default")
        done_d = done_c = None
        if _ == 1:      # second edit: IN PLACE, through the objects the getters return
            done_d = inplace_density(rng, system.network.species[s], spd, desc["envs"])
            done_c = inplace_chstt(rng, system.network.species[s], spd, desc["envs"])
        if done_d is not None:
            newd = done_d[0]
            ctx.count("edit_density_in_place")
        else:
            system.network.species[s].density = envval_real(newd, DENS)
        if done_c is not None:
            newc = done_c[0]
            ctx.count("edit_chstt_in_place")
        else:
            system.network.species[s].chstt = envval_real(newc, None)
        calls.append({"model": {"k": "edit_density", "species": s, "sys": sysj(spd["sys"]), "density": envval_model(newd, DENS)}, "real": (None, None), "forms": ("", "")})
        calls.append({"model": {"k": "edit_chstt", "species": s, "chstt": envval_model(newc, None)}, "real": (None, None), "forms": ("", "")})
        desc2 = dict(desc, species=[dict(x) for x in desc["species"]])
        desc2["species"][s]["density"], desc2["species"][s]["chstt"] = newd, newc
        errs = []
        for nm, fn in (("set_default_state", system.set_default_state), ("set_default_chem", system.set_default_chemostats)):
            try:
                fn()
                errs.append(None)
            except Exception as e:  # noqa
                errs.append(type(e).__name__)
            calls.append({"model": {"k": nm}, "real": (None, errs[-1]), "forms": ("", "")})
        ecase = {"desc": desc, "edited_species": s, "new_density": _jsonable_ev(newd), "new_chstt": _jsonable_ev(newc),
                 "how": [done_d[1] if done_d else "density setter", done_c[1] if done_c else "chstt setter"]}
        ctx.case(("edit", idx, s), nontrivial=True)
        ctx.count("edits")
        if any(errs):
            ctx.violation("regenerate-raises", "regenerating the defaults after a species edit raised %r" % errs, ecase, impl=errs, expected="ok")
        else:
            si = state_si(system)
            wants = [expected_state_si(desc2, a, c) for a in range(nsp) for c in range(n)]
            wantc = [expected_chem(desc2, a, c) for a in range(nsp) for c in range(n)]
            if len(si) != len(wants) or not all(close(a, b, rel=1e-9) for a, b in zip(si, wants)) \
                    or units_tuple(system.state.units)[1] != QTYD:
                ctx.violation("regenerate-state", "set_default_state after editing species %d does not reflect the edit" % s, ecase,
                              impl=[float(v) for v in si], expected=[float(v) for v in wants])
            if [int(v) for v in system.chemostats] != wantc:
                ctx.violation("regenerate-chem", "set_default_chemostats after editing species %d does not reflect the edit" % s, ecase,
                              impl=[int(v) for v in system.chemostats], expected=wantc)
        desc = desc2

    # ---------------------------------------------------------------- the network's species / environment lists re-assigned
    # through the public setters AFTER the system was built, defaults regenerated: the layout follows the CURRENT lists and
    # every way of naming a species addresses the entry of its current position
    if desc.get("reassign_after"):
        perm = list(range(nsp))
        rng.shuffle(perm)
        if nsp >= 2 and perm == list(range(nsp)):
            perm = perm[1:] + perm[:1]
        eperm = list(range(len(desc["envs"])))
        if rng.random() < 0.6:
            rng.shuffle(eperm)
        new_envs = [desc["envs"][j] for j in eperm]
        errs = []
        try:
            system.network.species = [system.network.species[i] for i in perm]
            if eperm != sorted(eperm):
                system.network.environments = list(new_envs)
            errs.append(None)
        except Exception as e:  # noqa
            errs.append(type(e).__name__)
        calls.append({"model": {"k": "assign_species", "order": perm}, "real": (None, errs[0]), "forms": ("", "")})
        calls.append({"model": {"k": "assign_envs", "envs": new_envs}, "real": (None, None), "forms": ("", "")})
        desc3 = dict(desc, species=[desc["species"][i] for i in perm], envs=new_envs)
        for nm, fn in (("set_default_state", system.set_default_state), ("set_default_chem", system.set_default_chemostats)):
            try:
                fn()
                errs.append(None)
            except Exception as e:  # noqa
                errs.append(type(e).__name__)
            calls.append({"model": {"k": nm}, "real": (None, errs[-1]), "forms": ("", "")})
        rcase = {"desc": desc, "kind": "reassign", "species_order": perm, "environments": new_envs}
        ctx.case(("reassign", idx, tuple(perm), tuple(eperm)), nontrivial=nsp > 1 or len(new_envs) > 1)
        ctx.count("reassign_after_build")
        if any(errs):
            ctx.violation("reassign-raises", "assigning network.species / network.environments (a re-ordering) and regenerating raised %r" % errs,
                          rcase, impl=errs, expected="ok")
        else:
            desc = desc3
            si = state_si(system)
            wants = [expected_state_si(desc, a, c) for a in range(nsp) for c in range(n)]
            wantc = [expected_chem(desc, a, c) for a in range(nsp) for c in range(n)]
            if len(si) != len(wants) or not all(close(a, b, rel=1e-9) for a, b in zip(si, wants)):
                ctx.violation("reassign-state", "default state regenerated after network.species / environments were re-assigned is not laid out by the current lists",
                              rcase, impl=[float(v) for v in si], expected=[float(v) for v in wants])
            if [int(v) for v in system.chemostats] != wantc:
                ctx.violation("reassign-chem", "default chemostat map regenerated after network.species / environments were re-assigned is not laid out by the current lists",
                              rcase, impl=[int(v) for v in system.chemostats], expected=wantc)
            for s in range(nsp):
                lab = desc["species"][s]["label"]
                for c in range(n):
                    flat = s * n + c
                    for sp_arg in ((lab, {"label": lab}, "label"), (("OBJ", s), {"obj": lab}, "obj"), (s, {"idx": s}, "idx")):
                        k, e = do("get_state_index", s, c, sp_arg=sp_arg)
                        if e is not None or k != flat:
                            ctx.violation("state-index", "after network.species was re-assigned, get_state_index(%s of species %d, cell %d) = %r, species-major layout gives %d"
                                          % (sp_arg[2], s, c, k if e is None else e, flat), dict(rcase, species=s, cell=c, form=sp_arg[2]),
                                          impl=k if e is None else e, expected=flat)
                    x, e = do("get_state", s, c)
                    us = x[1][0] if e is None else None
                    ctx.evaluations += 1
                    if e is not None or not (close(frac(x[0]) * si_factor(us, QTYD), wants[flat], rel=1e-9) if wants[flat] != 0 else x[0] == 0):
                        ctx.violation("get-state", "after network.species was re-assigned and the defaults regenerated, get_state(species %d, cell %d) = %r, density x volume = %s molecules"
                                      % (s, c, x if e is None else e, float(wants[flat])), dict(rcase, species=s, cell=c),
                                      impl=x if e is None else e, expected=rstr(wants[flat]))
                    f, e = do("get_chem", s, c)
                    if e is not None or f != wantc[flat]:
                        ctx.violation("get-chem", "after network.species was re-assigned and the defaults regenerated, get_chemostat(species %d, cell %d) = %r, the species' flag is %d"
                                      % (s, c, f if e is None else e, wantc[flat]), dict(rcase, species=s, cell=c), impl=f if e is None else e, expected=wantc[flat])
            # a write by label / object lands on the entry of the CURRENT position
            s, c = rng.randrange(nsp), rng.randrange(n)
            lab = desc["species"][s]["label"]
            flat = s * n + c
            beforec = [int(v) for v in system.chemostats]
            sp_arg = rng.choice([(lab, {"label": lab}, "label"), (("OBJ", s), {"obj": lab}, "obj")])
            _, e = do("set_chem", s, c, value=1 - beforec[flat], sp_arg=sp_arg)
            wantc2 = list(beforec)
            wantc2[flat] = 1 - beforec[flat]
            if e is not None or [int(v) for v in system.chemostats] != wantc2:
                ctx.violation("set-chem", "after network.species was re-assigned, set_chemostat(%s of species %d, cell %d) did not write exactly entry %d" % (sp_arg[2], s, c, flat),
                              dict(rcase, species=s, cell=c, form=sp_arg[2]), impl=e or [int(v) for v in system.chemostats], expected=wantc2)
            before = state_si(system)
            q = gen_quantity(rng, desc["sys"], QTYD)
            sp_arg = rng.choice([(lab, {"label": lab}, "label"), (("OBJ", s), {"obj": lab}, "obj")])
            _, e = do("set_state", s, c, value=q, sp_arg=sp_arg)
            after = state_si(system)
            want = list(before)
            want[flat] = q["si"]
            if e is not None or not all(close(a, b, rel=1e-9) if b != 0 else a == 0 for a, b in zip(after, want)):
                ctx.violation("set-state", "after network.species was re-assigned, set_state(%s of species %d, cell %d) did not write exactly entry %d" % (sp_arg[2], s, c, flat),
                              dict(rcase, species=s, cell=c, form=sp_arg[2]), impl=e or [float(v) for v in after], expected=[float(v) for v in want])
    rec["final"] = (list(system.state.value), units_tuple(system.state.units), [int(c) for c in system.chemostats])
    rec["calls"] = calls
    return calls, rec


def _jsonable_ev(ev):
    def one(x):
        return {k: (rstr(v) if isinstance(v, Fraction) else v) for k, v in x.items()} if isinstance(x, dict) else x
    return [ev[0], one(ev[1]) if ev[0] == "single" else [[k, one(x)] for k, x in ev[1]]]


def compare(ctx, rec, r):
    """correspondence of one system"""
    if r is None:
        return
    desc = rec["desc"]
    case = {"desc": desc}
    if rec["build_error"] is not None or rec.get("state0") is None:
        if "error" not in r:
            ctx.disagree("rdsystem.build", case, rec["build_error"], "ok")
        return
    if "error" in r:
        ctx.disagree("rdsystem.build", case, "ok", r)
        return
    mo = r["ok"]

    def same_state(real, m):
        vals, units, chem = real
        mu = m[0]["u"]
        ms = ((mu["sys"]["space"], mu["sys"]["time"], mu["sys"]["quantity"]), tuple(mu["dim"]))
        mv = [rparse(v) for v in m[0]["vs"]]
        return ms == units and len(mv) == len(vals) and all(close(a, b, rel=1e-9) for a, b in zip(vals, mv)) and chem == m[1]
    if not same_state(rec["state0"], (mo["state0"], mo["chem0"])):
        ctx.disagree("rdsystem.defaults", case, {"state": rec["state0"][0][:12], "units": rec["state0"][1], "chem": rec["state0"][2][:12]},
                     {"state": mo["state0"]["vs"][:12], "units": mo["state0"]["u"], "chem": mo["chem0"][:12]})
        return
    for c, m in zip(rec["calls"], mo["results"]):
        out, err = c["real"]
        if (err is not None) != ("error" in m):
            ctx.disagree("rdsystem.call." + c["model"]["k"], dict(case, call=c["model"]), err or out, m)
            return
        if err is None and out is not None:
            k = c["model"]["k"]
            if k == "get_state":
                mu = m["ok"]["u"]
                ok = close(out[0], rparse(m["ok"]["v"]), rel=1e-9) and out[1] == ((mu["sys"]["space"], mu["sys"]["time"], mu["sys"]["quantity"]), tuple(mu["dim"]))
            else:
                ok = (out == m["ok"])
            if not ok:
                ctx.disagree("rdsystem.call." + k, dict(case, call=c["model"]), out, m)
                return
    if "final" in rec and not same_state(rec["final"], (mo["state"], mo["chem"])):
        ctx.disagree("rdsystem.final", case, {"state": rec["final"][0][:12], "chem": rec["final"][2][:12]},
                     {"state": mo["state"]["vs"][:12], "chem": mo["chem"][:12]})


def snapshot(system):
    return ([float(v) for v in system.state.value], units_tuple(system.state.units), [int(v) for v in system.chemostats])


def run_sharing(ctx, desc, idx):
    """objects that share an input array: a setter called on ONE system writes exactly one entry of THAT system and nothing
    anywhere else (other systems built from its arrays, the caller's own arrays), and later edits of the caller's arrays
    do not leak into the system"""
    import numpy as np
    from strengths import RDSystem, UnitsSystem, UnitArray
    rng = ctx.rng
    nsp, n = len(desc["species"]), desc["n"]
    try:
        sys1 = build_real(desc)
    except Exception:  # noqa
        return
    us = UnitsSystem(*desc["sys"])
    net, space = sys1.network, sys1.space
    user_ch = np.array([int(rng.random() < 0.3) for _ in range(n * nsp)], dtype=int)
    user_st = np.array([nice_float(rng) for _ in range(n * nsp)], dtype=float)
    user_ua = UnitArray([nice_float(rng) for _ in range(n * nsp)], sys1.state.units)
    variants = []
    try:
        variants.append(("ctor(chemostats=sys1.chemostats, state=sys1.state)", RDSystem(net, space, state=sys1.state, chemostats=sys1.chemostats, units_system=us)))
        variants.append(("ctor(int ndarray, float ndarray)", RDSystem(net, space, state=user_st, chemostats=user_ch, units_system=us)))
        s4 = RDSystem(net, space, units_system=us)
        s4.chemostats = sys1.chemostats
        s4.state = sys1.state
        variants.append(("property setters from sys1", s4))
        s5 = RDSystem(net, space, units_system=us)
        s5.chemostats = user_ch
        s5.state = user_ua
        variants.append(("property setters from user arrays", s5))
    except Exception as e:  # noqa
        ctx.violation("sharing-build-raises", "building a system from another system's arrays raised %s" % type(e).__name__, {"desc": desc},
                      impl=type(e).__name__, expected="system")
        return
    systems = [("sys1", sys1)] + variants
    case = {"desc": desc, "kind": "sharing"}

    def others_state():
        return ([snapshot(sy) for _, sy in systems], [int(v) for v in user_ch], [float(v) for v in user_st],
                [float(v) for v in user_ua.value])
    for step in range(6):
        k = rng.randrange(len(systems))
        name, target = systems[k]
        s, c = rng.randrange(nsp), rng.randrange(n)
        flat = s * n + c
        before = others_state()
        what = rng.choice(["chem", "state"])
        try:
            if what == "chem":
                newv = 1 - before[0][k][2][flat]
                target.set_chemostat(s, c, newv)
            else:
                newv = before[0][k][0][flat] + 1.0 + rng.randint(0, 5)
                from strengths import UnitValue
                target.set_state(s, c, UnitValue(newv, target.state.units))
        except Exception as e:  # noqa
            ctx.violation("sharing-set-raises", "%s on %s raised %s" % (what, name, type(e).__name__), dict(case, target=name), impl=type(e).__name__, expected="ok")
            return
        after = others_state()
        ctx.case(("share", idx, step), nontrivial=True)
        ctx.count("sharing_writes")
        # expected: only entry `flat` of the target's own array changed
        want = json_copy(before)
        want = (want[0], want[1], want[2], want[3])
        if what == "chem":
            want[0][k][2][flat] = newv
        else:
            want[0][k][0][flat] = float(newv)
        if after != want:
            leaks = []
            for (nm, _), a, w in zip(systems, after[0], want[0]):
                if a != w:
                    leaks.append(nm)
            for nm, a, w in (("caller's int ndarray", after[1], want[1]), ("caller's float ndarray", after[2], want[2]),
                             ("caller's UnitArray", after[3], want[3])):
                if a != w:
                    leaks.append(nm)
            ctx.violation("aliasing:%s" % what, "set_%s(species %d, cell %d) on %s (%s) also changed / failed to change: %s"
                          % ("chemostat" if what == "chem" else "state", s, c, name, "built first" if k == 0 else name, leaks),
                          dict(case, target=name, species=s, cell=c, what=what), impl={"changed": leaks}, expected="only entry %d of %s" % (flat, name))
            return
    # later edits of the caller's arrays do not leak into the systems
    before = others_state()
    j = rng.randrange(n * nsp)
    user_ch[j] = 1 - user_ch[j]
    user_st[j] += 7.0
    user_ua.value[j] += 7.0
    after = others_state()
    if after[0] != before[0]:
        leaks = [nm for (nm, _), a, b in zip(systems, after[0], before[0]) if a != b]
        ctx.violation("aliasing:caller-edit", "editing the caller's own arrays after construction changed the systems %s (no setter was called)" % leaks,
                      dict(case, edited_index=j), impl={"changed": leaks}, expected="unchanged")


def run_copies(ctx, desc, idx):
    """copy() histories: b = a.copy() (and copies of the network / the space), then writes through set_chemostat / set_state /
    species edits + set_default_state / set_default_chemostats on ONE object; after every write BOTH are re-inspected
    against expectations computed independently (density x volume formula, the flags, the entries written so far)"""
    import copy as _copy
    from strengths import RDSystem, UnitsSystem
    rng = ctx.rng
    if "state_override" in desc or "chem_override" in desc:
        return
    nsp, n = len(desc["species"]), desc["n"]
    if not all(0 <= cell_env_vol_si(desc, c)[0] < len(desc["envs"]) for c in range(n)):
        return
    try:
        a = build_real(desc)
        b = a.copy()
    except Exception as e:  # noqa
        ctx.violation("copy-raises", "building / copying a valid system raised %s" % type(e).__name__, {"desc": desc, "kind": "copies"},
                      impl=type(e).__name__, expected="two systems")
        return
    objs = {"a": {"sys": a, "desc": _copy.deepcopy(desc), "st": {}, "ch": {}},
            "b (= a.copy())": {"sys": b, "desc": _copy.deepcopy(desc), "st": {}, "ch": {}}}
    history = []

    def inspect(written):
        for name, o in objs.items():
            d_ = o["desc"]
            want_s = [o["st"].get(s_ * n + c_, expected_state_si(d_, s_, c_)) for s_ in range(nsp) for c_ in range(n)]
            want_c = [o["ch"].get(s_ * n + c_, expected_chem(d_, s_, c_)) for s_ in range(nsp) for c_ in range(n)]
            got_s = state_si(o["sys"])
            got_c = [int(v) for v in o["sys"].chemostats]
            case = {"desc": desc, "kind": "copies", "history": list(history)}
            if got_c != want_c:
                ctx.violation("copy:chemostats", "after %r the chemostat map of system %s is %r, expected %r (%s)"
                              % (history[-1] if history else "copy()", name, got_c, want_c,
                                 "the write was made on the other object" if name != written else "the written object itself"),
                              case, impl={"system": name, "chemostats": got_c}, expected=want_c)
                return False
            if len(got_s) != len(want_s) or not all((close(g, w_, rel=1e-9) if w_ != 0 else g == 0) for g, w_ in zip(got_s, want_s)):
                ctx.violation("copy:state", "after %r the state of system %s is not what its own history gives (%s)"
                              % (history[-1] if history else "copy()", name,
                                 "the write was made on the other object" if name != written else "the written object itself"),
                              case, impl={"system": name, "state_si": [float(v) for v in got_s]}, expected=[float(v) for v in want_s])
                return False
        return True
    ctx.case(("copies", idx), nontrivial=True)
    ctx.count("copy_histories")
    if not inspect(None):
        return
    for step in range(6):
        name = rng.choice(sorted(objs))
        o = objs[name]
        s_, c_ = rng.randrange(nsp), rng.randrange(n)
        flat = s_ * n + c_
        what = rng.choice(["set_chem", "set_chem", "set_state", "edit_density", "edit_chstt"])
        try:
            if what == "set_chem":
                cur = o["ch"].get(flat, expected_chem(o["desc"], s_, c_))
                o["sys"].set_chemostat(s_, c_, 1 - cur)
                o["ch"][flat] = 1 - cur
                history.append([name, "set_chemostat", s_, c_, 1 - cur])
            elif what == "set_state":
                q = gen_quantity(rng, desc["sys"], QTYD)
                o["sys"].set_state(s_, c_, q_real(q, QTYD))
                o["st"][flat] = q["si"]
                history.append([name, "set_state", s_, c_, q.get("text", q["v"])])
            elif what == "edit_density":
                spd = o["desc"]["species"][s_]
                done = inplace_density(rng, o["sys"].network.species[s_], spd, desc["envs"]) if rng.random() < 0.5 else None
                if done is not None:
                    newd = done[0]
                    ctx.count("copy_edit_in_place")
                else:
                    newd = gen_envval(rng, desc["envs"], lambda: gen_quantity(rng, spd["sys"], DENS))
                    o["sys"].network.species[s_].density = envval_real(newd, DENS)
                o["sys"].set_default_state()
                spd["density"] = newd
                o["st"].clear()
                history.append([name, "%s; set_default_state()" % (done[1] if done else "species[%d].density = ..." % s_)])
            else:
                spd = o["desc"]["species"][s_]
                done = inplace_chstt(rng, o["sys"].network.species[s_], spd, desc["envs"]) if rng.random() < 0.5 else None
                if done is not None:
                    newc = done[0]
                    ctx.count("copy_edit_in_place")
                else:
                    newc = gen_envval(rng, desc["envs"], lambda: rng.random() < 0.5, comma=False)
                    o["sys"].network.species[s_].chstt = envval_real(newc, None)
                o["sys"].set_default_chemostats()
                spd["chstt"] = newc
                o["ch"].clear()
                history.append([name, "%s; set_default_chemostats()" % (done[1] if done else "species[%d].chstt = ..." % s_)])
        except Exception as e:  # noqa
            ctx.violation("copy-write-raises", "%s on %s raised %s" % (what, name, type(e).__name__), {"desc": desc, "kind": "copies", "history": history},
                          impl=type(e).__name__, expected="ok")
            return
        ctx.count("copy_writes")
        if not inspect(name):
            return
    # ---- copies of the parts: editing a copy of the network / of the space leaves the original's defaults alone
    try:
        net2 = a.network.copy()
        k = rng.randrange(nsp)
        spd = objs["a"]["desc"]["species"][k]
        newd = gen_envval(rng, desc["envs"], lambda: gen_quantity(rng, spd["sys"], DENS))
        net2.species[k].density = envval_real(newd, DENS)
        net2.species[k].chstt = not bool(net2.species[k].chstt) if not isinstance(net2.species[k].chstt, dict) else {"default": True}
        space2 = a.space.copy()
        sd = desc["space"]
        if sd["kind"] == "grid":
            space2.cell_vol = space2.cell_vol * 3.0
            space2.cell_env = [(e + 1) % len(desc["envs"]) for e in space2.cell_env]
        else:
            for nd in space2.nodes:
                nd.volume = nd.volume * 3.0
                nd.environment = (nd.environment + 1) % len(desc["envs"])
        history.append(["network.copy() / space.copy() edited (density, chstt, volumes x3, environments shifted)"])
        a.set_default_state()
        a.set_default_chemostats()
        objs["a"]["st"].clear()
        objs["a"]["ch"].clear()
        history.append(["a", "set_default_state(); set_default_chemostats()"])
    except Exception as e:  # noqa
        ctx.violation("copy-parts-raises", "copying / editing the network or the space raised %s" % type(e).__name__,
                      {"desc": desc, "kind": "copies", "history": history}, impl=type(e).__name__, expected="ok")
        return
    ctx.count("copy_part_edits")
    inspect("a")


def run_refusals(ctx, desc, idx):
    """refused-assignment histories: after EVERY assignment / call that raises, the system must be exactly as before:
    every entry is re-read through the getters, the arrays are compared, and the defaults are regenerated and compared
    with the unchanged expectation"""
    import numpy as np
    from strengths import (RDSystem, RDGridSpace, RDGraphSpace, RDGraphSpaceNode, UnitsSystem, UnitArray, UnitValue)
    rng = ctx.rng
    if "state_override" in desc or "chem_override" in desc:
        return
    nsp, n = len(desc["species"]), desc["n"]
    nenv = len(desc["envs"])
    if not all(0 <= cell_env_vol_si(desc, c)[0] < nenv for c in range(n)):
        return
    try:
        a = build_real(desc)
    except Exception:  # noqa
        return
    st, ch = {}, {}
    history = []
    labels = [sp["label"] for sp in desc["species"]]

    def inspect(after):
        case = {"desc": desc, "kind": "refusals", "history": list(history)}
        want_s = [st.get(s_ * n + c_, expected_state_si(desc, s_, c_)) for s_ in range(nsp) for c_ in range(n)]
        want_c = [ch.get(s_ * n + c_, expected_chem(desc, s_, c_)) for s_ in range(nsp) for c_ in range(n)]
        try:
            if a.space.size() != n or a.network.nspecies() != nsp or a.state_size() != n * nsp:
                raise ValueError("space / network sizes changed: %d cells, %d species" % (a.space.size(), a.network.nspecies()))
            us = a.state.units.sys
            f = si_factor((us.space, us.time, us.quantity), QTYD)
            got_s = [frac(a.get_state(labels[s_], c_).value) * f for s_ in range(nsp) for c_ in range(n)]
            got_c = [int(a.get_chemostat(s_, c_)) for s_ in range(nsp) for c_ in range(n)]
            arr_s, arr_c = state_si(a), [int(v) for v in a.chemostats]
        except Exception as e:  # noqa
            ctx.violation("refusal-aftermath:raises", "after the refused %s the system can no longer be read: %s: %s"
                          % (after, type(e).__name__, str(e)[:120]), case, impl=type(e).__name__, expected="unchanged system")
            return False
        ok_s = len(got_s) == len(want_s) and all((close(g, w_, rel=1e-9) if w_ != 0 else g == 0) for g, w_ in zip(got_s, want_s)) \
            and len(arr_s) == len(want_s) and all((close(g, w_, rel=1e-9) if w_ != 0 else g == 0) for g, w_ in zip(arr_s, want_s))
        if not ok_s or got_c != want_c or arr_c != want_c:
            ctx.violation("refusal-aftermath:content", "after the refused %s the system's state / chemostat map differs from before" % after, case,
                          impl={"state_si": [float(v) for v in arr_s], "chemostats": arr_c},
                          expected={"state_si": [float(v) for v in want_s], "chemostats": want_c})
            return False
        return True

    def regenerate(after):
        case = {"desc": desc, "kind": "refusals", "history": list(history)}
        try:
            a.set_default_state()
            a.set_default_chemostats()
        except Exception as e:  # noqa
            ctx.violation("refusal-aftermath:regenerate", "after the refused %s, set_default_state / set_default_chemostats raise %s: %s"
                          % (after, type(e).__name__, str(e)[:120]), case, impl=type(e).__name__, expected="regenerated defaults")
            return False
        st.clear()
        ch.clear()
        history.append(["set_default_state(); set_default_chemostats()"])
        return inspect(after + " + regeneration")

    def bad_space(kind):
        bad_env = nenv + rng.randint(0, 2)
        if kind == "same-size":
            m = n
        else:
            m = n + rng.randint(1, 3)
        if rng.random() < 0.5:
            envs = [rng.randrange(nenv) for _ in range(m)]
            envs[rng.randrange(m)] = bad_env
            return RDGridSpace(w=m, h=1, d=1, cell_env=envs)
        nodes = [RDGraphSpaceNode(environment=rng.randrange(nenv)) for _ in range(m)]
        nodes[rng.randrange(m)].environment = bad_env
        return RDGraphSpace(nodes=nodes, edges=[])

    candidates = [
        ("space = <space with an environment index beyond the network's list, same size>", lambda: setattr(a, "space", bad_space("same-size"))),
        ("space = <space with a bad environment index, other size>", lambda: setattr(a, "space", bad_space("other-size"))),
        ("space = 'grid'", lambda: setattr(a, "space", "grid")),
        ("space = None", lambda: setattr(a, "space", None)),
        ("network = <a dict>", lambda: setattr(a, "network", {"species": []})),
        ("network = None", lambda: setattr(a, "network", None)),
        ("state = 5", lambda: setattr(a, "state", 5)),
        ("state = <UnitArray of times>", lambda: setattr(a, "state", UnitArray([1.0] * (n * nsp), "s"))),
        ("state = ['1 s', ...]", lambda: setattr(a, "state", ["1 s"] * (n * nsp))),
        ("chemostats = 1", lambda: setattr(a, "chemostats", 1)),
        ("chemostats = ['x', ...]", lambda: setattr(a, "chemostats", ["x"] * (n * nsp))),
        ("units_system = 5", lambda: setattr(a, "units_system", 5)),
        ("set_state(..., <a time>)", lambda: a.set_state(0, 0, UnitValue(1.0, "s"))),
        ("set_state(..., 'abc')", lambda: a.set_state(0, 0, "abc")),
        ("set_chemostat(..., 'x')", lambda: a.set_chemostat(0, 0, "x")),
        ("set_state(<unknown species>)", lambda: a.set_state("nope", 0, 1.0)),
        ("set_chemostat(<cell n>)", lambda: a.set_chemostat(0, n, 1)),
    ]
    ctx.case(("refusals", idx), nontrivial=True)
    ctx.count("refusal_histories")
    rng.shuffle(candidates)
    for name, fn in candidates[:7]:
        # a valid write first, so that "unchanged" is not just "still the defaults"
        s_, c_ = rng.randrange(nsp), rng.randrange(n)
        if rng.random() < 0.5:
            cur = ch.get(s_ * n + c_, expected_chem(desc, s_, c_))
            a.set_chemostat(s_, c_, 1 - cur)
            ch[s_ * n + c_] = 1 - cur
            history.append(["set_chemostat", s_, c_, 1 - cur])
        else:
            q = gen_quantity(rng, desc["sys"], QTYD)
            a.set_state(s_, c_, q_real(q, QTYD))
            st[s_ * n + c_] = q["si"]
            history.append(["set_state", s_, c_, q.get("text", q["v"])])
        try:
            fn()
            raised = False
        except Exception as e:  # noqa
            raised = True
            history.append(["REFUSED (%s): %s" % (type(e).__name__, name)])
        if not raised:
            # accepted on this tree: not a refusal (whether it should be refused is input validation, C20); stop this history
            ctx.count("refusal_candidates_accepted")
            return
        ctx.count("refusals")
        if not inspect(name):
            return
        if rng.random() < 0.5 and not regenerate(name):
            return
    regenerate("assignments above")


def json_copy(x):
    import copy
    return copy.deepcopy(x)


def run(ctx, count=None):
    count = count or ctx.n(150, 5000)
    batch = []

    def flush():
        if not batch:
            return
        res = ctx.model.run([model_op(rec["desc0"], rec["calls"]) for rec in batch])
        for rec, r in zip(batch, res):
            compare(ctx, rec, r)
        del batch[:]
    for i in range(count):
        desc = gen_desc(ctx.rng, malformed_env=(i % 12 == 11), force_falsy=(i % 5 == 0), omit_defaults=(i % 4 == 1),
                        rare_labels=(i % 6 == 2), reassign=(i % 6 == 4))
        calls, rec = run_system(ctx, desc, i)
        rec["desc0"] = desc
        batch.append(rec)
        if i % 12 != 11 and (i % 2 == 0 or ctx.tier != "quick"):
            run_sharing(ctx, desc, i)
        if i % 12 != 11 and (i % 2 == 1 or ctx.tier != "quick"):
            run_copies(ctx, desc, i)
        if i % 12 != 11 and (i % 3 == 0 or ctx.tier != "quick"):
            run_refusals(ctx, desc, i)
        if len(batch) >= 250:
            flush()
        if ctx.time_left() < 10:
            ctx.notes.append("stopped after %d systems (time budget)" % (i + 1))
            break
    flush()


def search(ctx):
    run(ctx, count=ctx.n(300, 2000))


def replay(ctx, rec):
    """rebuild the recorded system on the real code and re-evaluate the oracle on it (fresh random call forms)"""
    case = rec.get("case", rec)
    desc = case["desc"]

    def fix(ev):
        def one(x):
            if isinstance(x, dict) and "si" in x:
                x = dict(x)
                x["si"] = Fraction(x["si"])
                if "sys" in x:
                    x["sys"] = tuple(x["sys"])
            return x
        return (ev[0], one(ev[1])) if ev[0] == "single" else ("dict", [(k, one(x)) for k, x in ev[1]])
    desc = dict(desc)
    desc["net_sys"], desc["sys"] = tuple(desc["net_sys"]), tuple(desc["sys"])
    desc["species"] = [dict(s, sys=tuple(s["sys"]), density=fix(s["density"]), chstt=fix(s["chstt"])) for s in desc["species"]]
    sd = dict(desc["space"])
    sd["sys"] = tuple(sd["sys"])
    if sd["kind"] == "grid":
        sd["cell_vol"] = fix(("single", sd["cell_vol"]))[1]
    else:
        sd["nodes"] = [dict(nd, sys=tuple(nd["sys"]), vol=fix(("single", nd["vol"]))[1]) for nd in sd["nodes"]]
    desc["space"] = sd

    class Sink:
        def __init__(self):
            self.rng, self.violations, self.evaluations, self.notes = ctx.rng, [], 0, []

        def case(self, *a, **k):
            pass

        def count(self, *a, **k):
            pass

        def violation(self, key, what, case, impl=None, expected=None, replay_cmd=None):
            self.violations.append({"key": key, "what": what, "impl": impl, "expected": expected})
    sink = Sink()
    for _ in range(3):
        if case.get("kind") == "sharing":
            run_sharing(sink, desc, 0)
        elif case.get("kind") == "copies":
            run_copies(sink, desc, 0)
        elif case.get("kind") == "refusals":
            run_refusals(sink, desc, 0)
        else:
            run_system(sink, desc, 0)
    key = rec.get("key")
    same = [v for v in sink.violations if v["key"] == key] or sink.violations
    return not sink.violations, {"failures": same[:5]}
