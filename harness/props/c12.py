"""C12 — Dictionary, JSON and file round-trips preserve the model.

Theorems: lean/Strengths/Props/C12.lean (key tables regenerated from every *_from_dict / *_to_dict /
__init__: group DictKeys; generic dictionary reader/writer model: Model/Dict.lean).
Correspondence: op `from_dict` (model reader + writer vs the real reader + writer on generated dictionaries
of every kind, with aliases, omitted keys, heterogeneous units, virtual files).
Oracle (independent of the model): every generated object is built through the constructors of the
package, converted to its dictionary and back (directly, through JSON text, through save_*/load_* in a
temporary directory incl. multi-file layouts, external array files, absolute and relative paths) and compared
field by field in SI with the original; re-serialisation must give the same dictionary; every alias a
reader accepts must be interchangeable; omitted keys must behave as the documented defaults.
"""
import copy, json, os, shutil, sys, tempfile
from fractions import Fraction
from common import frac, rstr, rparse, close, VERIF, REPO

ID = "C12"
LEAN_TARGETS = ["Strengths.Props.C12", "Strengths.Props.C12Classes", "Strengths.Props.C12Traj", "Strengths.Props.C12Eq"]
PROP_FILES = ["Strengths/Props/C12.lean", "Strengths/Props/C12Classes.lean", "Strengths/Props/C12Traj.lean", "Strengths/Props/C12Eq.lean"]
GEN_GROUPS = ["DictKeys", "Units", "Network"]
RULE = ("objects of every kind (network, grid, graph, system, script, trajectory) are generated from a JSON-able "
        "spec (1-4 species, 0-4 reactions with orders 0-4 per side, empty sides, repeated species, labelled/unlabelled, "
        "scalar or per-environment D/density/chstt/k with and without 'default'; grids 1-3^3 with all boundary "
        "combinations; graphs with own node/edge units; explicit/default state and chemostats; all policies/modes) with "
        "an independent units system at every level; on 35 % of the objects 1-3 REFUSED EDITS are made before the round trip (space "
        "naming an environment beyond the network's list, unknown sampling_policy / init_state_processing, invalid unit component, "
        "wrong-dimension quantity or array item, wrong sizes / types: each must raise, the object must then read exactly as built "
        "and every round-trip mode is judged against the original description); values spanning 1e-30 … 1e+23 incl. numbers below 1e-12 (ordinary sizes carried in "
        "m / km / mol / h) and 15-17 significant digits in every quantity-valued field (compared exactly: repr round trip), explicit zero stoichiometric coefficients (first / middle / last); streams and "
        "the clause each tests: [round trip: dict / JSON text / save+load, absolute and relative paths] modes direct, json, file-abs, "
        "file-rel, file-inline; [serialising again gives the same dictionary] reserialise; [aliases interchangeable] alias + "
        "documented-alias table; [omitted keys take the documented defaults] default + minimal dictionaries; [multi-file layouts, "
        "external array files, relative paths resolved against the enclosing file] multifile, multifile-inherit and every file "
        "load, all run FROM A WORKING DIRECTORY HOLDING DECOY FILES with the same relative names and different content; "
        "[multi-file layouts whose parts inherit units] shared-parts: one network / space file without units of its own "
        "referenced by two system files declared in different units, loaded alternately in one process, each compared with its own "
        "inline reading; [direct dictionary route: the object and the dictionary share nothing mutable] coupling: the template dictionary is "
        "edited in place at every nesting level after *_from_dict (the object must not change), two objects are built from one "
        "dictionary and the first is edited in depth (the second must not change), the dictionary returned by *_to_dict is edited in "
        "place (effect on the source object OBSERVED and counted only: outside the statement); [units inheritance: \"default\" / \"inherit\" strings at every nesting level under non-default parents, every alias of "
        "the key, quantities as bare numbers] units-strings + fixed minimal dictionaries; [save/load under any valid file name, both trajectory storage modes] "
        "file-names: families of names whose stems end in characters of '.json' saved TOGETHER in one directory, then all reloaded, "
        "data file name and reference checked; [readers return independent objects holding the documented defaults] sequences: "
        "read -> edit every units system / state array of the result in place -> read the same dictionary again (must equal the first "
        "reading), a later unrelated dictionary with omitted units (must be in default units), no mutable object shared between two "
        "results or with any default argument of the package; [stoichiometry incl. zero coefficients survives] zero-coefficient "
        "cases in dict-of-sides and text form + random zeros in generated networks; [stoichiometry survives for labels of every lexical form] "
        "species / reaction / environment labels of 65 % of the generated networks are drawn from the whole label language (non-empty, no blank, "
        "no '+', no '->'): starting with / ending in / made only of digits, the same label behind a digit prefix or in the other case or "
        "extended, signs, brackets, non-ASCII letters; label-forms: fixed + random label triples in reactions given as side dictionaries and as "
        "text, every label with coefficient 1 and > 1, judged by the network view AND the (ssto, psto) vectors, the written equation also "
        "read by the model of _fromstring (op parse_equation; theorems written_equation_reread / written_equation_vectors); a case = (kind, mode, spec) with mode in direct | json | file-abs | "
        "file-rel | multifile | reserialise | alias | default; non-trivial when at least two different unit systems occur "
        "in the object or the mode involves files/aliases/defaults; distinct by (kind, mode, spec)")
ASSUMPTIONS = [
    "float(repr(x)) == x and json.loads(json.dumps(d)) == d for the generated dictionaries (CPython json / float repr)",
    "numpy.save / numpy.load and the file system round-trip arrays exactly",
    "aliasing between an object and a dictionary its writer returned is outside C12's statement: observed, not judged",
]
TRUSTED = [
    "Python-side SI oracle (prefix table of harness/props/c06.py) and the documented-defaults table below (hand-written from documentation/json_and_dict_doc.rst)",
    "the unit text of a quantity is re-read by parse_units (modelled in Model/Units.lean); the float token and the "
    "reaction equation text are tokens carrying their value in the dictionary model (print/parse of those is C18/C19; the equation "
    "print/parse theorem is restated for C12 in Props/C12Eq.lean and the written equations are compared with the parser model)",
]

from props.c06 import si_factor, SPACE, TIME, QTY  # noqa: E402  (independent SI table)

DEFAULT_SYS = ("µm", "s", "molecule")
DIM = {"D": (2, -1, 0), "density": (-3, 0, 1), "volume": (3, 0, 0), "surface": (2, 0, 0), "length": (1, 0, 0),
       "time": (0, 1, 0), "quantity": (0, 0, 1)}


def kdim(order):
    return (-3 + 3 * order, -1, 1 - order)


# =============================================================================================
# package access
# =============================================================================================
def S():
    import strengths  # noqa
    import strengths.rdnetwork as rn, strengths.rdgridspace as rg, strengths.rdgraphspace as rgr, strengths.rdspace as rs
    import strengths.rdsystem as rsy, strengths.rdscript as rsc, strengths.rdoutput as ro, strengths.units as u
    return dict(rn=rn, rg=rg, rgr=rgr, rs=rs, rsy=rsy, rsc=rsc, ro=ro, u=u)


def mk_sys(t):
    return S()["u"].UnitsSystem(space=t[0], time=t[1], quantity=t[2])


def sys_t(us):
    return (us.space, us.time, us.quantity)


def units_text(sys_, dim):
    parts = []
    for sym, e in zip(sys_, dim):
        if e != 0:
            parts.append(sym if e == 1 else "%s%d" % (sym, e))
    return ".".join(parts)


# =============================================================================================
# generators: JSON-able specs (NOT in the package's dictionary format: own field names)
# =============================================================================================
def rand_sys(rng, near=None):
    if near is not None and rng.random() < 0.5:
        return tuple(near)
    if rng.random() < 0.15:
        return DEFAULT_SYS
    return (rng.choice(SPACE), rng.choice(TIME), rng.choice(QTY))


MANY_DIGITS = [1.0 / 3.0, 0.1 + 0.2, 2.0 / 3.0, 1e-13 / 3.0, 123.45678901234567, 6.02214076e23 / 7.0, 0.000123456789012345678]


def rand_val(rng):
    r = rng.random()
    if r < 0.12:
        return 0.0
    if r < 0.27:
        return float(rng.randint(1, 20))
    if r < 0.55:
        return float(Fraction(rng.randint(1, 9999), 10 ** rng.randint(0, 4)))
    if r < 0.68:
        return float(rng.randint(1, 999)) * 10.0 ** rng.randint(-12, 12)
    if r < 0.80:      # ordinary physical sizes carried in coarse units (m, km, mol, h): 1e-13 … 1e-30
        return float(rng.randint(1, 999)) * 10.0 ** rng.randint(-30, -13)
    if r < 0.93:      # 15-17 significant digits (truncating / rounding writers are invisible on round numbers)
        return rng.random() * 10.0 ** rng.randint(-20, 6)
    return rng.choice(MANY_DIGITS)


def gen_q(rng, dim, own, allow_text=True):
    """a quantity spec: {"v": float} (number, read in the owner's units) or {"v": float, "sys": triple} (text with units)"""
    if allow_text and rng.random() < 0.5:
        return {"v": rand_val(rng), "sys": list(rand_sys(rng, own))}
    return {"v": rand_val(rng)}


def gen_envval(rng, dim, own, envs, mk):
    """scalar or per-environment dictionary (with / without 'default', possibly partial)"""
    if rng.random() < 0.55:
        return {"scalar": mk()}
    keys = [e for e in envs if rng.random() < 0.7]
    if rng.random() < 0.5:
        keys.append("default")
    if not keys:
        keys = [envs[0]]
    return {"env": [[k, mk()] for k in keys]}


# ---- lexical forms of labels.  A label (species, reaction, environment) is any non-empty text without a blank, without "+"
# and without "->" (value_processing.assert_string_is_a_valid_label + what an equation text can carry: C19 print_parse).
# The equation text of a reaction is the only place where a species label is written next to a number, so every form a
# label may take is generated: leading / trailing / only digits, a label that is another label behind a digit prefix, labels
# differing by case, prefixes of each other, signs and brackets, non-ASCII letters.
LABEL_CORES = ["A", "B", "C", "X", "O", "PG", "Na", "a", "x", "AB", "H", "e", "α", "µ", "Ca", "k"]
LABEL_DIGITS = ["1", "2", "3", "0", "10", "13", "007", "2", "1"]
LABEL_TAILS = ["", "", "", "", "1", "2", "12", "_b", "-", "--", "*", "'", ".x", "(P)H", "2-", "]", ":1", "/2", "-2", ">", "#", "e3"]


def legal_label(l):
    return bool(l) and not any(c.isspace() for c in l) and "+" not in l and "->" not in l and "," not in l


def rand_label(rng):
    """one label of a random lexical form"""
    r = rng.random()
    if r < 0.08:
        l = rng.choice(LABEL_DIGITS) + rng.choice(["", "", "0", "5"])          # digits only
    else:
        l = (rng.choice(LABEL_DIGITS) if r < 0.45 else "") + rng.choice(["", "", "", "[", "(", "_", "-", "."]) \
            + rng.choice(LABEL_CORES) + rng.choice(LABEL_TAILS)
    return l if legal_label(l) else "A"


def rand_labels(rng, n, plain):
    """n distinct labels; related pairs are made on purpose: the same label behind a digit prefix, the other case, an extension"""
    if rng.random() < 0.35:
        return list(plain[:n])
    out = []
    guard = 0
    while len(out) < n and guard < 50:
        guard += 1
        r = rng.random()
        if out and r < 0.45:
            b = rng.choice(out)
            k = rng.random()
            if k < 0.45:
                l = rng.choice(LABEL_DIGITS) + b                     # "1O2" next to "O2", "2A" next to "A"
            elif k < 0.6:
                l = b.lstrip("0123456789")                           # the remainder behind the digits
            elif k < 0.75:
                l = b.swapcase()
            elif k < 0.9:
                l = b + rng.choice(["2", "B", "_", "-", "'"])        # prefix of each other
            else:
                l = b[::-1]
        else:
            l = rand_label(rng)
        if legal_label(l) and l not in out:
            out.append(l)
    for l in plain:
        if len(out) < n and l not in out:
            out.append(l)
    rng.shuffle(out)
    return out[:n]


def gen_network(rng, parent=None):
    us = rand_sys(rng, parent)
    nenv = rng.choice([1, 1, 2, 3])
    envs = [["", "cyt", "mem", "nuc"][i] if rng.random() < 0.3 else "e%d" % i for i in range(nenv)]
    if rng.random() < 0.3:      # environment labels of any lexical form ("default" is the reserved fallback key of the per-environment dictionaries)
        envs = [l for l in rand_labels(rng, nenv, envs) if l != "default"] or envs
    envs = list(dict.fromkeys(envs))
    nsp = rng.randint(1, 4)
    labels = rand_labels(rng, nsp, ["A", "B", "C", "X1"])
    species = []
    for l in labels:
        sus = rand_sys(rng, us)
        species.append({"label": l, "us": list(sus),
                        "D": gen_envval(rng, DIM["D"], sus, envs, lambda: gen_q(rng, DIM["D"], sus)),
                        "density": gen_envval(rng, DIM["density"], sus, envs, lambda: gen_q(rng, DIM["density"], sus)),
                        "chstt": gen_envval(rng, None, sus, envs, lambda: rng.random() < 0.4)})
    reactions = []
    rlabels = rand_labels(rng, 4, ["r0", "r1", "r2", "r3"])
    for i in range(rng.randint(0, 4)):
        rus = rand_sys(rng, us)

        def side():
            out = []
            for _ in range(rng.choice([0, 1, 1, 2, 2, 3])):
                out.append([rng.choice(labels), rng.choice([1, 1, 1, 2, 3])])
            # an explicit ZERO coefficient (a stoichiometric-matrix row): first, in the middle or last
            if nsp > 1 and rng.random() < 0.25:
                free = [l for l in labels if l not in [o[0] for o in out]]
                if free:
                    out.insert(rng.randint(0, len(out)) if rng.random() < 0.5 else 0, [rng.choice(free), 0])
            return out
        sub, prod = side(), side()
        reactions.append({"sub": sub, "prod": prod, "us": list(rus),
                          "label": rlabels[i] if rng.random() < 0.5 else None,
                          "kf": gen_envval(rng, None, rus, envs, lambda: gen_q(rng, None, rus)),
                          "kr": gen_envval(rng, None, rus, envs, lambda: gen_q(rng, None, rus))})
    return {"us": list(us), "envs": envs, "species": species, "reactions": reactions}


def gen_grid(rng, parent=None, nenv=1):
    us = rand_sys(rng, parent)
    w, h, d = rng.randint(1, 3), rng.randint(1, 3), rng.randint(1, 3)
    if rng.random() < 0.4:
        env = {"scalar": rng.randrange(nenv)}
    else:
        env = {"array": [rng.randrange(nenv) for _ in range(w * h * d)]}
    bc = {a: rng.choice(["reflecting", "periodical"]) for a in "xyz" if rng.random() < 0.6}
    return {"type": "grid", "us": list(us), "w": w, "h": h, "d": d, "cell_env": env,
            "cell_vol": gen_q(rng, DIM["volume"], us), "bc": bc}


def gen_graph(rng, parent=None, nenv=1):
    us = rand_sys(rng, parent)
    n = rng.randint(1, 5)
    nodes = []
    for _ in range(n):
        nus = tuple(us) if rng.random() < 0.5 else rand_sys(rng, us)
        nodes.append({"us": list(nus), "volume": gen_q(rng, DIM["volume"], nus), "env": rng.randrange(nenv)})
    pairs = [(i, j) for i in range(n) for j in range(i + 1, n)]
    rng.shuffle(pairs)
    edges = []
    for (i, j) in pairs[:rng.randint(0, min(len(pairs), 5))]:
        eus = tuple(us) if rng.random() < 0.5 else rand_sys(rng, us)
        if rng.random() < 0.5:
            i, j = j, i
        edges.append({"us": list(eus), "i": i, "j": j, "surface": gen_q(rng, DIM["surface"], eus),
                      "distance": gen_q(rng, DIM["length"], eus)})
    return {"type": "graph", "us": list(us), "nodes": nodes, "edges": edges}


def space_size(sp):
    return sp["w"] * sp["h"] * sp["d"] if sp["type"] == "grid" else len(sp["nodes"])


def gen_system(rng, parent=None):
    us = rand_sys(rng, parent)
    net = gen_network(rng, us)
    nenv = len(net["envs"])
    sp = gen_grid(rng, us, nenv) if rng.random() < 0.6 else gen_graph(rng, us, nenv)
    n = space_size(sp) * len(net["species"])
    r = rng.random()
    if r < 0.3:
        state = None
    elif r < 0.65:
        state = {"values": [rand_val(rng) for _ in range(n)]}
    else:
        ssys = rand_sys(rng, us)
        state = {"values": [rand_val(rng) for _ in range(n)], "sys": list(ssys)}
    chem = None if rng.random() < 0.4 else [int(rng.random() < 0.3) for _ in range(n)]
    return {"us": list(us), "network": net, "space": sp, "state": state, "chemostats": chem}


def gen_script(rng):
    us = rand_sys(rng)
    system = gen_system(rng, us)
    ts = sorted(float(Fraction(rng.randint(0, 2000), 100)) for _ in range(rng.randint(1, 5)))
    t_sample = {"values": ts} if rng.random() < 0.5 else {"values": ts, "sys": list(rand_sys(rng, us))}
    return {"us": list(us), "system": system, "t_sample": t_sample,
            "time_step": gen_q(rng, DIM["time"], us),
            "t_max": "default" if rng.random() < 0.4 else gen_q(rng, DIM["time"], us),
            "policy": rng.choice(["on_t_sample", "on_iteration", "on_interval", "no_sampling"]),
            "interval": gen_q(rng, DIM["time"], us),
            "seed": rng.choice([0, 0, 1, 2 ** 32 - 1, rng.randrange(2 ** 32), rng.randrange(2 ** 32), rng.randrange(1000)]),
            "mode": rng.choice(["auto", "none", "Poisson", "redist"])}


def gen_trajectory(rng):
    script = gen_script(rng) if rng.random() < 0.9 else None
    system = script["system"] if (script is not None and rng.random() < 0.6) else gen_system(rng)
    n = space_size(system["space"]) * len(system["network"]["species"])
    ns = rng.randint(0, 4)
    tsys = rand_sys(rng)
    dsys = rand_sys(rng)
    return {"script": script, "system": system,
            "t": {"values": sorted(float(rng.randint(0, 100)) for _ in range(ns)), "sys": list(tsys)},
            "data": {"values": [rand_val(rng) for _ in range(ns * n)], "sys": list(dsys)},
            "engine_description": rng.choice([None, "strengths engine", "tau leap µ"]),
            "engine_option": rng.choice([None, "euler", "gillespie"]),
            "cgmap": None if rng.random() < 0.6 else [rng.randrange(3) for _ in range(space_size(system["space"]))],
            "cgmap_np": rng.random() < 0.15}


GEN = {"network": gen_network, "grid": gen_grid, "graph": gen_graph, "system": gen_system, "script": gen_script,
       "trajectory": gen_trajectory}


# =============================================================================================
# building the ORIGINAL objects through the constructors of the package (never through *_from_dict)
# =============================================================================================
def q_arg(q, dim, own):
    """constructor argument for a quantity spec"""
    if "sys" in q:
        return "%r %s" % (q["v"], units_text(q["sys"], dim))
    return q["v"]


def envval_arg(ev, f):
    if "scalar" in ev:
        return f(ev["scalar"])
    return {k: f(v) for k, v in ev["env"]}


def build_network(sp):
    m = S()
    us = tuple(sp["us"])
    species = []
    for s in sp["species"]:
        sus = tuple(s["us"])
        species.append(m["rn"].Species(s["label"],
                                       D=envval_arg(s["D"], lambda q: q_arg(q, DIM["D"], sus)),
                                       density=envval_arg(s["density"], lambda q: q_arg(q, DIM["density"], sus)),
                                       chstt=envval_arg(s["chstt"], lambda b: b),
                                       units_system=mk_sys(sus)))
    reactions = []
    for r in sp["reactions"]:
        rus = tuple(r["us"])
        subs, prods = {}, {}
        for l, c in r["sub"]:
            subs[l] = subs.get(l, 0) + c
        for l, c in r["prod"]:
            prods[l] = prods.get(l, 0) + c
        of, orv = sum(subs.values()), sum(prods.values())
        reactions.append(m["rn"].Reaction([subs, prods],
                                          kf=envval_arg(r["kf"], lambda q: q_arg(q, kdim(of), rus)),
                                          kr=envval_arg(r["kr"], lambda q: q_arg(q, kdim(orv), rus)),
                                          label=r["label"], units_system=mk_sys(rus)))
    return m["rn"].RDNetwork(species, reactions, environments=list(sp["envs"]), units_system=mk_sys(us))


def build_space(sp):
    m = S()
    us = tuple(sp["us"])
    if sp["type"] == "grid":
        env = sp["cell_env"].get("scalar", sp["cell_env"].get("array"))
        return m["rg"].RDGridSpace(w=sp["w"], h=sp["h"], d=sp["d"], cell_env=env,
                                   cell_vol=q_arg(sp["cell_vol"], DIM["volume"], us),
                                   boundary_conditions=dict(sp["bc"]), units_system=mk_sys(us))
    nodes = [m["rgr"].RDGraphSpaceNode(volume=q_arg(n["volume"], DIM["volume"], tuple(n["us"])), environment=n["env"],
                                       units_system=mk_sys(n["us"])) for n in sp["nodes"]]
    edges = [m["rgr"].RDGraphSpaceEdge(e["i"], e["j"], surface=q_arg(e["surface"], DIM["surface"], tuple(e["us"])),
                                       distance=q_arg(e["distance"], DIM["length"], tuple(e["us"])),
                                       units_system=mk_sys(e["us"])) for e in sp["edges"]]
    return m["rgr"].RDGraphSpace(nodes=nodes, edges=edges, units_system=mk_sys(us))


def build_uarr(a, dim, own):
    m = S()
    if a.get("sys"):
        return m["u"].UnitArray(list(a["values"]), units_text(a["sys"], dim))
    return list(a["values"])


def build_system(sp):
    m = S()
    us = tuple(sp["us"])
    state = None if sp["state"] is None else build_uarr(sp["state"], DIM["quantity"], us)
    return m["rsy"].RDSystem(build_network(sp["network"]), build_space(sp["space"]), state=state,
                             chemostats=sp["chemostats"], units_system=mk_sys(us))


def build_script(sp):
    m = S()
    us = tuple(sp["us"])
    tm = sp["t_max"] if sp["t_max"] == "default" else q_arg(sp["t_max"], DIM["time"], us)
    return m["rsc"].RDScript(build_system(sp["system"]), build_uarr(sp["t_sample"], DIM["time"], us),
                             time_step=q_arg(sp["time_step"], DIM["time"], us), t_max=tm,
                             sampling_policy=sp["policy"], sampling_interval=q_arg(sp["interval"], DIM["time"], us),
                             rng_seed=sp["seed"], init_state_processing=sp["mode"], units_system=mk_sys(us))


def build_trajectory(sp):
    m = S()
    return m["ro"].RDTrajectory(data=m["u"].UnitArray(list(sp["data"]["values"]), units_text(sp["data"]["sys"], DIM["quantity"])),
                                t_sample=m["u"].UnitArray(list(sp["t"]["values"]), units_text(sp["t"]["sys"], DIM["time"])),
                                system=build_system(sp["system"]),
                                script=None if sp["script"] is None else build_script(sp["script"]),
                                engine_description=sp["engine_description"], engine_option=sp["engine_option"],
                                cgmap=(__import__("numpy").array(sp["cgmap"], dtype=int)
                                       if (sp.get("cgmap_np") and sp["cgmap"] is not None) else sp["cgmap"]))


BUILD = {"network": build_network, "grid": build_space, "graph": build_space, "system": build_system,
         "script": build_script, "trajectory": build_trajectory}


# =============================================================================================
# SI views of the real objects (the "physical content" of the property statement)
# =============================================================================================
def v_uv(x):
    """UnitValue -> (SI value exactly, dimension)"""
    s = sys_t(x.units.sys)
    d = (x.units.dim.space, x.units.dim.time, x.units.dim.quantity)
    return {"si": frac(x.value) * si_factor(s, d), "dim": list(d)}


def v_ua(x):
    s = sys_t(x.units.sys)
    d = (x.units.dim.space, x.units.dim.time, x.units.dim.quantity)
    f = si_factor(s, d)
    return {"si": [frac(v) * f for v in x.value.tolist()], "dim": list(d)}


def v_env(x, f):
    if isinstance(x, dict):
        return {"env": {k: f(v) for k, v in x.items()}}
    return {"scalar": f(x)}


def view_network(n):
    return {"us": list(sys_t(n.units_system)), "envs": list(n.environments),
            "species": [{"label": s.label, "us": list(sys_t(s.units_system)), "D": v_env(s.D, v_uv),
                         "density": v_env(s.density, v_uv), "chstt": v_env(s.chstt, lambda b: bool(b))} for s in n.species],
            "reactions": [{"label": r.label, "us": list(sys_t(r.units_system)),
                           "sub": {k: int(v) for k, v in r.substrates.items() if v != 0},
                           "prod": {k: int(v) for k, v in r.products.items() if v != 0},
                           "kf": v_env(r.kf, v_uv), "kr": v_env(r.kr, v_uv)} for r in n.reactions]}


def view_space(sp):
    m = S()
    if type(sp) == m["rg"].RDGridSpace:
        return {"type": "grid", "us": list(sys_t(sp.units_system)), "w": sp.w, "h": sp.h, "d": sp.d,
                "cell_env": [int(v) for v in sp.cell_env], "cell_vol": v_uv(sp.cell_vol),
                "bc": dict(sp.get_boundary_conditions())}
    return {"type": "graph", "us": list(sys_t(sp.units_system)),
            "nodes": [{"us": list(sys_t(n.units_system)), "volume": v_uv(n.volume), "env": int(n.environment)} for n in sp.nodes],
            "edges": [{"us": list(sys_t(e.units_system)), "i": e.i, "j": e.j, "surface": v_uv(e.surface),
                       "distance": v_uv(e.distance)} for e in sp.edges]}


def view_system(s):
    return {"us": list(sys_t(s.units_system)), "network": view_network(s.network), "space": view_space(s.space),
            "state": v_ua(s.state), "chemostats": [int(v) for v in s.chemostats]}


def view_script(s):
    return {"us": list(sys_t(s.units_system)), "system": view_system(s.system), "t_sample": v_ua(s.t_sample),
            "time_step": v_uv(s.time_step), "t_max": v_uv(s.t_max), "policy": s.sampling_policy,
            "interval": v_uv(s.sampling_interval), "seed": int(s.rng_seed), "mode": s.init_state_processing}


def view_trajectory(t):
    return {"script": None if t.script is None else view_script(t.script), "system": view_system(t.system),
            "t": v_ua(t.t), "data": v_ua(t.data), "engine_description": t.engine_description,
            "engine_option": t.engine_option, "cgmap": None if t.cgmap is None else [int(v) for v in t.cgmap]}


VIEW = {"network": view_network, "grid": view_space, "graph": view_space, "system": view_system, "script": view_script,
        "trajectory": view_trajectory}


def diff(a, b, path=""):
    """first difference between two views (None when equal); numbers exact or within 1e-12 relative"""
    if isinstance(a, Fraction) or isinstance(b, Fraction):
        try:
            # values are carried without arithmetic through every route (repr round trip): exact, up to 2 ulp for the few
            # places where the package converts units on the way (string items of arrays)
            if a == b or close(float(a), b, rel=4.5e-16):
                return None
        except Exception:  # noqa
            pass
        return (path, a, b)
    if isinstance(a, dict) and isinstance(b, dict):
        if list(a.keys()) != list(b.keys()):
            if sorted(a.keys()) != sorted(b.keys()):
                return (path + "<keys>", sorted(a.keys()), sorted(b.keys()))
            if path.endswith("env"):
                return (path + "<key order>", list(a.keys()), list(b.keys()))
        for k in a:
            r = diff(a[k], b[k], path + "." + str(k) if path else str(k))
            if r:
                return r
        return None
    if isinstance(a, (list, tuple)) and isinstance(b, (list, tuple)):
        if len(a) != len(b):
            return (path + "<len>", len(a), len(b))
        for i, (x, y) in enumerate(zip(a, b)):
            r = diff(x, y, "%s[%d]" % (path, i))
            if r:
                return r
        return None
    if type(a) != type(b) or a != b:
        return (path, a, b)
    return None


def field_of(path):
    """stable short name of a differing field (indices removed)"""
    import re
    return re.sub(r"\[\d+\]", "", path)


# =============================================================================================
# the package's converters per kind
# =============================================================================================
def conv(kind):
    m = S()
    return {
        "network": (m["rn"].rdnetwork_to_dict, m["rn"].rdnetwork_from_dict, m["rn"].save_rdnetwork, m["rn"].load_rdnetwork),
        "grid": (m["rs"].rdspace_to_dict, m["rs"].rdspace_from_dict, m["rs"].save_rdspace, m["rs"].load_rdspace),
        "graph": (m["rs"].rdspace_to_dict, m["rs"].rdspace_from_dict, m["rs"].save_rdspace, m["rs"].load_rdspace),
        "system": (m["rsy"].rdsystem_to_dict, m["rsy"].rdsystem_from_dict, m["rsy"].save_rdsystem, m["rsy"].load_rdsystem),
        "script": (m["rsc"].rdscript_to_dict, m["rsc"].rdscript_from_dict, m["rsc"].save_rdscript, m["rsc"].load_rdscript),
    }[kind]


def jsonable_dict(d):
    """dictionary form as JSON would carry it (tuples -> lists), via the json module"""
    return json.loads(json.dumps(d))


class Tmp:
    def __enter__(self):
        self.d = tempfile.mkdtemp(prefix="verif_c12_")
        return self.d

    def __exit__(self, *a):
        shutil.rmtree(self.d, ignore_errors=True)


def relpath(p):
    return os.path.relpath(p, os.getcwd())


# ---- loading from a working directory that holds DECOY files: same relative names, different content
_QTXT = None


def perturb(j):
    """a different but equally readable content (numbers of arrays shifted, quantity values + 1)"""
    import re
    global _QTXT
    if _QTXT is None:
        _QTXT = re.compile(r"^\s*([-+]?[0-9][0-9.eE+-]*)\s+(\S.*)$")
    if isinstance(j, dict):
        return {k: (v if k in ("w", "h", "d", "units", "nodes") and not isinstance(v, (dict, list)) else perturb(v)) if k != "units" else v
                for k, v in j.items()}
    if isinstance(j, list):
        if j and all(isinstance(v, bool) or isinstance(v, int) for v in j):
            return [(1 - v) if v in (0, 1) else v for v in j] if all(v in (0, 1) for v in j) else list(j)
        if j and all(isinstance(v, (int, float)) and not isinstance(v, bool) for v in j):
            return [float(v) + 1.0 for v in j]
        return [perturb(v) for v in j]
    if isinstance(j, str):
        mm = _QTXT.match(j)
        if mm:
            try:
                return "%r %s" % (float(mm.group(1)) + 1.0, mm.group(2))
            except ValueError:
                return j
    return j


class DecoyCwd:
    """chdir into a fresh directory holding, for every file below `layout` (mirrored tree + flattened copies), a decoy with
    the same relative name and perturbed content; the previous working directory is restored on exit"""

    def __init__(self, layout):
        self.layout = layout

    def __enter__(self):
        import numpy as np
        self.old = os.getcwd()
        self.d = tempfile.mkdtemp(prefix="verif_c12_decoy_")
        for root, _, files in os.walk(self.layout):
            for f in files:
                src = os.path.join(root, f)
                rel = os.path.relpath(src, self.layout)
                for target in {rel, f}:
                    dst = os.path.join(self.d, target)
                    os.makedirs(os.path.dirname(dst) or self.d, exist_ok=True)
                    try:
                        if f.endswith(".npy"):
                            a = np.load(src)
                            np.save(dst, (1 - a) if (a.dtype.kind in "iu" and a.size and set(a.tolist()) <= {0, 1}) else a + 1)
                        elif f.endswith(".json"):
                            with open(dst, "w", encoding="utf-8") as g:
                                json.dump(perturb(json.load(open(src, encoding="utf-8"))), g)
                        else:
                            toks = open(src).read().replace(",", " ").split()
                            with open(dst, "w") as g:
                                g.write(" ".join(str(1 - int(t)) if t in ("0", "1") else t for t in toks))
                    except Exception:  # noqa
                        shutil.copy(src, dst)
        os.chdir(self.d)
        return self.d

    def __exit__(self, *a):
        os.chdir(self.old)
        shutil.rmtree(self.d, ignore_errors=True)


def load_from_decoy_cwd(load, path, layout, relative=False):
    """load `path` while the working directory holds decoys of every file of the layout"""
    with DecoyCwd(layout):
        return load(os.path.relpath(path, os.getcwd()) if relative else path)


# ---- one round-trip mode on the real code: returns (reloaded object, dictionary form or None)
def do_mode(kind, mode, x, tmp):
    m = S()
    if kind == "trajectory":
        name = {"file-abs": "traj.json", "file-rel": "traj", "file-inline": "traj_inline.json"}[mode]
        p = os.path.join(tmp, name)
        pp = relpath(p) if mode == "file-rel" else p
        m["ro"].save_rdtrajectory(x, pp, separate_data=(mode != "file-inline"))
        jp = p if p.endswith(".json") else p + ".json"
        saved = json.load(open(jp, encoding="utf-8"))
        return load_from_decoy_cwd(m["ro"].load_rdtrajectory, jp, tmp, relative=(mode == "file-rel")), saved
    to_d, from_d, save, load = conv(kind)
    if mode == "direct":
        d = to_d(x)
        return from_d(copy.deepcopy(d)), d
    if mode == "json":
        d = to_d(x)
        return from_d(json.loads(json.dumps(d))), d
    if mode in ("file-abs", "file-rel"):
        p = os.path.join(tmp, "obj.json")
        pp = relpath(p) if mode == "file-rel" else p
        save(x, pp)
        saved = json.load(open(p, encoding="utf-8"))
        return load_from_decoy_cwd(load, p, tmp, relative=(mode == "file-rel")), saved
    raise ValueError(mode)


# ---- multi-file layouts written by the harness itself (the package has no multi-file writer)
def write_multifile(kind, x, tmp, rng_bits, d_given=None):
    """split the dictionary form of a system / script over several files with relative and absolute paths and
    external array files; returns the path of the top file"""
    import numpy as np
    m = S()
    os.makedirs(os.path.join(tmp, "sub"), exist_ok=True)
    bits = list(rng_bits)

    def bit():
        return bits.pop(0) if bits else 0

    def dump(d, rel):
        with open(os.path.join(tmp, rel), "w", encoding="utf-8") as f:
            json.dump(d, f)

    def split_system(sd, prefix):
        sd = copy.deepcopy(sd)
        # space: external cell_env (grid), then the space itself as a file
        sp = sd["space"]
        if sp.get("type") == "grid" and bit():
            if bit():
                np.save(os.path.join(tmp, "sub", prefix + "env.npy"), np.array(sp["cell_env"], dtype=int))
                sp["cell_env"] = prefix + "env.npy"          # relative to the space file (in sub/) or to the system file
                env_dir = "sub"
            else:
                with open(os.path.join(tmp, "sub", prefix + "env.txt"), "w") as f:
                    f.write(", ".join(str(v) for v in sp["cell_env"]))
                sp["cell_env"] = prefix + "env.txt"
                env_dir = "sub"
            space_external = True       # cell_env path is relative to sub/: the space must then live in sub/
        else:
            space_external = bool(bit())
        if space_external:
            dump(sp, os.path.join("sub", prefix + "space.json"))
            sd["space"] = os.path.join("sub", prefix + "space.json") if bit() else os.path.join(tmp, "sub", prefix + "space.json")
        if bit():
            dump(sd["network"], prefix + "net.json")
            sd["network"] = (prefix + "net.json") if bit() else os.path.join(tmp, prefix + "net.json")
        if bit():
            np.save(os.path.join(tmp, prefix + "state.npy"), np.array(sd["state"]["value"], dtype=float))
            sd["state"]["value"] = prefix + "state.npy"
        if bit():
            if bit():
                np.save(os.path.join(tmp, prefix + "chem.npy"), np.array(sd["chemostats"], dtype=int))
                sd["chemostats"] = prefix + "chem.npy"
            else:
                with open(os.path.join(tmp, prefix + "chem.txt"), "w") as f:
                    f.write(" ".join(str(v) for v in sd["chemostats"]))
                sd["chemostats"] = os.path.join(tmp, prefix + "chem.txt")
        return sd

    if kind == "system":
        top = split_system(d_given if d_given is not None else m["rsy"].rdsystem_to_dict(x), "s_")
        dump(top, "system.json")
        return os.path.join(tmp, "system.json")
    d = copy.deepcopy(d_given) if d_given is not None else m["rsc"].rdscript_to_dict(x)
    d["system"] = split_system(d["system"], "c_")
    if bit():
        dump(d["system"], "sys_of_script.json")
        d["system"] = "sys_of_script.json"
    if bit():
        np.save(os.path.join(tmp, "ts.npy"), np.array(d["t_sample"]["value"], dtype=float))
        d["t_sample"]["value"] = "ts.npy"
    dump(d, "script.json")
    return os.path.join(tmp, "script.json")


# =============================================================================================
# alias lists and documented defaults
# =============================================================================================
def reader_aliases():
    """synonym groups of every reader, read syntactically from the source under test (translator functions)"""
    sys.path.insert(0, os.path.join(VERIF, "tools"))
    import gen_groups  # noqa
    from trlib import PySrc
    out = {}
    for name, mod, reader, writer, ctor in gen_groups._DK_CLASSES:
        if name in ("trajectory",):
            continue
        try:
            src = PySrc(REPO, "src/strengths/" + mod)
            out[name] = gen_groups._dk_reader(src, src.func(reader))[0] or []
        except Exception:  # noqa
            out[name] = []
    return out


DOC_ALIASES = {   # documentation/json_and_dict_doc.rst
    "species": {"label": ["l"], "density": ["concentration", "dens", "conc", "C"],
                "D": ["diff_coef", "diff coef", "diffusion_coefficient", "diffusion coefficient"], "chstt": ["chemostat"],
                "units": ["units_system", "units system", "u"]},
    "reaction": {"label": ["l"], "stoichiometry": ["sto", "equation", "eq"], "k+": ["kf"], "k-": ["kr"],
                 "units": ["units_system", "units system", "u"]},
    "network": {"environments": ["env"], "units": ["units_system", "units system", "u"]},
    "grid": {"w": ["width"], "h": ["height"], "d": ["depth"], "cell_env": ["cell_environments"], "cell_volume": ["cell_vol"],
             "units": ["units_system", "units system", "u"]},
    "system": {"network": ["rdnetwork"], "space": ["rdspace"], "units": ["units_system", "units system", "u"]},
    "script": {"units": ["units_system", "units system", "u"]},
}

# documented defaults: (kind of dictionary, key) -> JSON value that must be equivalent to omitting the key
DOC_DEFAULTS = {
    ("species", "D"): 0, ("species", "density"): 0, ("species", "chstt"): False, ("species", "units"): "inherit",
    ("reaction", "label"): None, ("reaction", "k+"): 0, ("reaction", "k-"): 0, ("reaction", "units"): "inherit",
    ("network", "reactions"): [], ("network", "units"): "inherit",
    ("grid", "w"): 1, ("grid", "h"): 1, ("grid", "d"): 1, ("grid", "cell_env"): 0, ("grid", "cell_volume"): 1,
    ("grid", "units"): "inherit",
    ("system", "state"): None, ("system", "chemostats"): None, ("system", "units"): "inherit", ("system", "space"): None,
    ("script", "time_step"): 1e-3, ("script", "t_max"): "default", ("script", "sampling_policy"): "on_t_sample",
    ("script", "sampling_interval"): 1, ("script", "init_state_processing"): "auto", ("script", "units"): "default",
    ("unitsSystem", "space"): "µm", ("unitsSystem", "time"): "s", ("unitsSystem", "quantity"): "molecule",
}


def parent_units(subs, path):
    """explicit units dictionary of the dictionary that encloses the one at `path` (None when it is not spelled out)"""
    import re
    pp = re.sub(r"\.[^.]*$", "", path)
    for (dk, dd, p2) in subs:
        if p2 == pp and dk != "unitsSystem":
            u = dd.get("units")
            return dict(u) if isinstance(u, dict) and len(u) == 3 else None
    return None


QTY_OF = {"species": ["D", "density"], "reaction": ["k+", "k-"], "grid": ["cell_volume"], "node": ["volume"],
          "edge": ["surface", "distance"]}


def bare_numbers(dk, dd):
    """replace the quantity texts of one dictionary by bare numbers (read in that dictionary's units system)"""
    def num(v):
        if isinstance(v, str):
            try:
                return float(v.split()[0])
            except (ValueError, IndexError):
                return v
        return v
    for k in QTY_OF.get(dk, []):
        if k in dd:
            dd[k] = {kk: num(vv) for kk, vv in dd[k].items()} if isinstance(dd[k], dict) else num(dd[k])


def sub_dicts(kind, d):
    """(dictionary kind, dictionary, path) for every dictionary nested in the dictionary form `d` of an object"""
    out = []

    def units(dd, path):
        if isinstance(dd.get("units"), dict):
            out.append(("unitsSystem", dd["units"], path + ".units"))

    def net(nd, path):
        out.append(("network", nd, path))
        units(nd, path)
        for i, s in enumerate(nd.get("species", [])):
            out.append(("species", s, "%s.species[%d]" % (path, i)))
            units(s, "%s.species[%d]" % (path, i))
        for i, r in enumerate(nd.get("reactions", [])):
            out.append(("reaction", r, "%s.reactions[%d]" % (path, i)))
            units(r, "%s.reactions[%d]" % (path, i))

    def space(sd, path):
        if sd.get("type", "grid") == "grid":
            out.append(("grid", sd, path))
            units(sd, path)
        else:
            out.append(("graph", sd, path))
            units(sd, path)
            for i, n in enumerate(sd.get("nodes", [])):
                out.append(("node", n, "%s.nodes[%d]" % (path, i)))
            for i, e in enumerate(sd.get("edges", [])):
                out.append(("edge", e, "%s.edges[%d]" % (path, i)))

    def system(sd, path):
        out.append(("system", sd, path))
        units(sd, path)
        net(sd["network"], path + ".network")
        space(sd["space"], path + ".space")

    if kind == "network":
        net(d, "")
    elif kind in ("grid", "graph"):
        space(d, "")
    elif kind == "system":
        system(d, "")
    elif kind == "script":
        out.append(("script", d, ""))
        units(d, "")
        system(d["system"], ".system")
    return out


# =============================================================================================
# the oracle on one object
# =============================================================================================
def guarded(f):
    try:
        return f(), None
    except Exception as ex:  # noqa
        return None, "%s: %s" % (type(ex).__name__, str(ex)[:200])


# =============================================================================================
# coupling: dictionaries and objects on the DIRECT route must not share anything mutable
# =============================================================================================
def container_ids(d, out=None):
    if out is None:
        out = {}
    if isinstance(d, dict):
        out[id(d)] = "dict"
        for v in d.values():
            container_ids(v, out)
    elif isinstance(d, list):
        out[id(d)] = "list"
        for v in d:
            container_ids(v, out)
    return out


def harsh_mutate(d):
    """edit a dictionary form IN PLACE at every nesting level: every leaf replaced, every dict given a new key, every list
    appended to (the result need not be loadable: it is the objects made BEFORE the edit that are inspected)"""
    if isinstance(d, dict):
        for k in list(d.keys()):
            v = d[k]
            if isinstance(v, (dict, list)):
                harsh_mutate(v)
            elif isinstance(v, bool):
                d[k] = not v
            elif isinstance(v, (int, float)):
                d[k] = v + 1
            elif isinstance(v, str):
                d[k] = perturb(v) if perturb(v) != v else ("km" if v in SPACE else "h" if v in TIME else "kmol" if v in QTY else v + "_edited")
            elif v is None:
                d[k] = 0
        d["zz_added"] = True
    elif isinstance(d, list):
        for i, v in enumerate(d):
            if isinstance(v, (dict, list)):
                harsh_mutate(v)
            elif isinstance(v, bool):
                d[i] = not v
            elif isinstance(v, (int, float)):
                d[i] = v + 1
            elif isinstance(v, str):
                d[i] = v + "_edited"
        d.append(d[0] if d and not isinstance(d[0], (dict, list)) else 7)


def edit_object_deep(obj):
    """edit IN PLACE everything mutable reachable from an object: units systems, arrays, quantities, per-environment
    dictionaries (flags flipped), stoichiometric coefficients"""
    import numpy as np
    m = S()
    edit_in_place(obj, None)
    done = set()

    def walk(o, depth=0):
        if o is None or depth > 12 or id(o) in done or isinstance(o, (str, int, float, bool)):
            return
        done.add(id(o))
        if isinstance(o, np.ndarray):
            if o.size and o.dtype.kind in "iu":
                o[0] = 1 - o[0] if o[0] in (0, 1) else o[0] + 1
            return
        if isinstance(o, (list, tuple)):
            for v in o:
                walk(v, depth + 1)
            return
        if isinstance(o, dict):
            for k in list(o.keys()):
                v = o[k]
                if isinstance(v, bool):
                    o[k] = not v
                elif isinstance(v, int):
                    o[k] = v + 1
                else:
                    walk(v, depth + 1)
            return
        if type(o) == m["u"].UnitValue:
            o.value = o.value + 1.0
            return
        if (getattr(type(o), "__module__", "") or "").startswith("strengths") and hasattr(o, "__dict__"):
            for v in vars(o).values():
                walk(v, depth + 1)
    walk(obj)


def short_field(path):
    """stable short name of a field inside nested objects: 'system.network.species[1].chstt.env<keys>' -> 'species.chstt'"""
    import re
    f = re.sub(r"<[^>]*>", "", field_of(path))
    while True:
        g = re.sub(r"^(system|network|space|script)\.", "", f)
        if g == f:
            break
        f = g
    return ".".join(f.split(".")[:2])


def check_coupling(kind, spec, ref):
    to_d, from_d = conv(kind)[:2]
    # (1) template dictionary -> object, then the template is edited
    d = jsonable_dict(to_d(BUILD[kind](spec)))
    o1, err = guarded(lambda: from_d(d))
    if err is not None:
        return fail("direct:%s:raises" % kind, "reading the dictionary form of a %s raises %s" % (kind, err), impl=err)
    v1 = VIEW[kind](o1)
    tmpl = container_ids(d)
    held = [w for i, w in mutable_ids(o1).items() if i in tmpl]
    harsh_mutate(d)
    df = diff(v1, VIEW[kind](o1))
    if df:
        return fail("coupling:from_dict:%s" % short_field(df[0]),
                    "editing the template dictionary in place AFTER %s_from_dict(d) changes the object already built: %s" % (kind, df[0]),
                    impl=df[2], expected=df[1])
    # (2) two objects from one and the same dictionary, then the first is edited
    d2 = jsonable_dict(to_d(BUILD[kind](spec)))
    oa, ea = guarded(lambda: from_d(d2))
    ob, eb = guarded(lambda: from_d(d2))
    if ea is None and eb is None:
        vb = VIEW[kind](ob)
        edit_object_deep(oa)
        df = diff(vb, VIEW[kind](ob))
        if df:
            return fail("coupling:between-objects:%s" % short_field(df[0]),
                        "two %ss built from the same dictionary are coupled: editing the first in place changes %s of the second" % (kind, df[0]),
                        impl=df[2], expected=df[1])
    # (3) object -> dictionary, then the returned dictionary is edited
    x3 = BUILD[kind](spec)
    d3 = to_d(x3)
    harsh_mutate(d3)
    df = diff(ref, VIEW[kind](x3))
    observed = None
    if df:
        # aliasing between an object and a dictionary its writer RETURNED is outside C12's statement: observed, not judged
        observed = short_field(df[0])
    if held:
        return fail("aliasing:%s:template" % kind, "the object returned by the %s reader holds a %s of the caller's dictionary (not a copy)" % (kind, held[0]),
                    impl=held[:3])
    return True, ({"observed": observed} if observed else {})


# =============================================================================================
# refused edits: calls that MUST raise, made on the object before the round trip; the object must stay as described
# =============================================================================================
class NotApplicable(Exception):
    pass


def _bad_space(system):
    """a space of the same type naming an environment index beyond the network's list"""
    m = S()
    nenv = system.network.nenvironments()
    sp = system.space
    if type(sp) == m["rg"].RDGridSpace:
        return m["rg"].RDGridSpace(w=sp.w, h=sp.h, d=sp.d, cell_env=nenv, cell_vol=7, units_system=sp.units_system)
    nodes = [m["rgr"].RDGraphSpaceNode(volume=7, environment=nenv) for _ in range(max(1, sp.size()))]
    return m["rgr"].RDGraphSpace(nodes=nodes, edges=[])


def _first(seq):
    if not len(seq):
        raise NotApplicable()
    return seq[0]


def _uv(v, u):
    return S()["u"].UnitValue(v, u)


NETWORK_EDITS = {
    "network.units.time": lambda n: setattr(n.units_system, "time", "sec"),
    "network.units.dict": lambda n: setattr(n, "units_system", {"space": "parsec"}),
    "network.environments.empty": lambda n: setattr(n, "environments", []),
    "network.environments.default": lambda n: setattr(n, "environments", ["default"]),
    "network.species.type": lambda n: setattr(n, "species", [1]),
    "species.D.dimension": lambda n: setattr(_first(n.species), "D", "1 s"),
    "species.density.dimension": lambda n: setattr(_first(n.species), "density", {"default": "2 m2"}),
    "species.chstt.type": lambda n: setattr(_first(n.species), "chstt", "yes"),
    "species.units.space": lambda n: setattr(_first(n.species).units_system, "space", "parsec"),
    "reaction.kf.dimension": lambda n: setattr(_first(n.reactions), "kf", "1 m7"),
    "reaction.units.quantity": lambda n: n.reactions[0].units_system.__setitem__("quantity", "dozen") if len(n.reactions) else (_ for _ in ()).throw(NotApplicable()),
}


def _grid(sp):
    if type(sp).__name__ != "RDGridSpace":
        raise NotApplicable()
    return sp


def _graph(sp):
    if type(sp).__name__ != "RDGraphSpace":
        raise NotApplicable()
    return sp


SPACE_EDITS = {
    "space.units.time": lambda sp: setattr(sp.units_system, "time", "sec"),
    "grid.cell_env.size": lambda sp: setattr(_grid(sp), "cell_env", [0] * (sp.size() + 1)),
    "grid.cell_vol.dimension": lambda sp: setattr(_grid(sp), "cell_vol", "1 m2"),
    "grid.boundary.value": lambda sp: _grid(sp).set_boundary_conditions({"x": "periodical", "y": "open"}),
    "grid.boundary.axis": lambda sp: _grid(sp).set_boundary_conditions({"z": "periodical", "t": "reflecting"}),
    "node.volume.dimension": lambda sp: setattr(_first(_graph(sp).nodes), "volume", "1 s"),
    "node.units.space": lambda sp: setattr(_first(_graph(sp).nodes).units_system, "space", "parsec"),
    "edge.distance.dimension": lambda sp: setattr(_first(_graph(sp).edges), "distance", "1 m2"),
}

SYSTEM_EDITS = {
    "system.space.environment-index": lambda sy: setattr(sy, "space", _bad_space(sy)),
    "system.space.type": lambda sy: setattr(sy, "space", 3),
    "system.network.type": lambda sy: setattr(sy, "network", "net"),
    "system.state.dimension": lambda sy: setattr(sy, "state", S()["u"].UnitArray([1.0] * len(sy.state), "s")),
    "system.state.item-dimension": lambda sy: sy.state.set_value([_uv(1.0, "s")] + [2.0] * (len(sy.state) - 1)) if len(sy.state) else (_ for _ in ()).throw(NotApplicable()),
    "system.state.type": lambda sy: setattr(sy, "state", "full"),
    "system.chemostats.type": lambda sy: setattr(sy, "chemostats", 3),
    "system.units.time": lambda sy: setattr(sy.units_system, "time", "sec"),
}

SCRIPT_EDITS = {
    "script.sampling_policy": lambda sc: setattr(sc, "sampling_policy", "sometimes"),
    "script.init_state_processing": lambda sc: setattr(sc, "init_state_processing", "sampled"),
    "script.units.type": lambda sc: setattr(sc, "units_system", 3),
    "script.units.time": lambda sc: setattr(sc.units_system, "time", "sec"),
    "script.t_sample.dimension": lambda sc: setattr(sc, "t_sample", S()["u"].UnitArray([1.0], "m")),
    "script.time_step.dimension": lambda sc: setattr(sc, "time_step", "1 m"),
    "script.sampling_interval.dimension": lambda sc: setattr(sc, "sampling_interval", "1 mol"),
    "script.system.type": lambda sc: setattr(sc, "system", None),
}

TRAJ_EDITS = {
    "trajectory.data.item-dimension": lambda t: t.data.set_value([_uv(1.0, "s")] + [0.0] * (len(t.data) - 1)) if len(t.data) else (_ for _ in ()).throw(NotApplicable()),
    "trajectory.t.item-dimension": lambda t: t.t.set_value([_uv(1.0, "m")] + [0.0] * (len(t.t) - 1)) if len(t.t) else (_ for _ in ()).throw(NotApplicable()),
}


def refused_edits_of(kind):
    if kind == "network":
        return dict(NETWORK_EDITS)
    if kind in ("grid", "graph"):
        return dict(SPACE_EDITS)
    out = {}
    if kind == "system":
        out.update(SYSTEM_EDITS)
        out.update({k: (lambda sy, f=f: f(sy.network)) for k, f in NETWORK_EDITS.items()})
        out.update({k: (lambda sy, f=f: f(sy.space)) for k, f in SPACE_EDITS.items()})
    elif kind == "script":
        out.update(SCRIPT_EDITS)
        out.update({k: (lambda sc, f=f: f(sc.system)) for k, f in refused_edits_of("system").items()})
    elif kind == "trajectory":
        out.update(TRAJ_EDITS)
        out.update({k: (lambda t, f=f: f(t.system)) for k, f in refused_edits_of("system").items()})
        out.update({"script:" + k: (lambda t, f=f: f(t.script) if t.script is not None else (_ for _ in ()).throw(NotApplicable()))
                    for k, f in SCRIPT_EDITS.items()})
    return out


def pick_refused(kind, rng):
    names = sorted(refused_edits_of(kind))
    # the edits that matter most for this kind come up more often
    hot = [n for n in names if n in ("system.space.environment-index", "script.sampling_policy", "script.init_state_processing",
                                     "system.state.item-dimension", "network.units.time", "space.units.time")]
    return [rng.choice(hot) if (hot and rng.random() < 0.5) else rng.choice(names) for _ in range(rng.randint(1, 3))]


def apply_refused(kind, x, names):
    """-> list of (name, outcome) with outcome in raised | accepted | n/a"""
    table = refused_edits_of(kind)
    out = []
    for nm in names:
        f = table.get(nm)
        if f is None:
            out.append((nm, "n/a"))
            continue
        try:
            f(x)
            out.append((nm, "accepted"))
        except NotApplicable:
            out.append((nm, "n/a"))
        except Exception as ex:  # noqa
            out.append((nm, "raised"))
    return out


def check_object(ctx, kind, spec, modes, aliases, rng):
    """build the original through the constructors and run the requested modes; reports violations"""
    x, err = guarded(lambda: BUILD[kind](spec))
    if err is not None:
        ctx.count("generator_rejected")
        return None
    ref = VIEW[kind](x)
    refused = spec.get("refused") or []
    if refused:
        outcomes = apply_refused(kind, x, refused)
        for nm, oc in outcomes:
            ctx.count("refused_edit_" + oc)
        acc = [nm for nm, oc in outcomes if oc == "accepted"]
        case0 = {"kind": kind, "mode": "refused-edit", "spec": spec}
        if acc:
            ctx.violation("refused-edit:%s:accepted" % acc[0], "the invalid edit %r of a %s did not raise" % (acc[0], kind), case0, impl="accepted",
                          expected="exception")
        df = diff(ref, VIEW[kind](x))
        if df:
            ctx.violation("refused-edit:%s:%s" % (kind, field_of(df[0])),
                          "after the refused edit(s) %s (each raised) the %s is no longer the one that was built: %s changed"
                          % ([nm for nm, oc in outcomes if oc == "raised"], kind, df[0]), case0, impl=df[2], expected=df[1])
    nsys = len({tuple(u) for u in _all_sys(spec)})
    for mode in modes:
        case = {"kind": kind, "mode": mode, "spec": spec}
        with Tmp() as tmp:
            try:
                holds, detail = run_mode(kind, mode, x, ref, spec, tmp, aliases, rng, case)
            except Exception as ex:  # noqa  (a writer / reader of the package raising outside the guarded calls)
                holds, detail = fail("%s:%s:raises" % (mode.split("-")[0], kind),
                                     "%s of a %s raises %s: %s" % (mode, kind, type(ex).__name__, str(ex)[:200]), impl=repr(ex))
        ctx.case((kind, mode, json.dumps(spec, sort_keys=True)), nontrivial=(nsys >= 2 or mode not in ("direct", "json")),
                 sample={"kind": kind, "mode": mode, "holds": holds, "unit_systems": nsys} if ctx.evaluations % 97 == 0 else None)
        ctx.count("mode_" + mode)
        ctx.count("kind_" + kind)
        if holds and detail.get("observed"):
            ctx.count("observed:to_dict-aliases-source:%s" % detail["observed"])
            note = ("observed, not judged (outside C12's statement): editing the dictionary returned by *_to_dict in place changes the "
                    "source object's %s (the writer returns the object's own dictionary); see proposed_fixes/c12_species_chstt_copy.diff"
                    % detail["observed"])
            if note not in ctx.notes:
                ctx.notes.append(note)
        if not holds:
            ctx.violation(detail["key"], detail["what"], dict(case, **detail.get("extra", {})), impl=detail.get("impl"),
                          expected=detail.get("expected"))
    return x


def _all_sys(spec):
    out = []

    def walk(o):
        if isinstance(o, dict):
            for k, v in o.items():
                if k in ("us", "sys") and isinstance(v, list) and len(v) == 3:
                    out.append(v)
                else:
                    walk(v)
        elif isinstance(o, list):
            for v in o:
                walk(v)
    walk(spec)
    return out


def fail(key, what, impl=None, expected=None, extra=None):
    return False, {"key": key, "what": what, "impl": impl, "expected": expected, "extra": extra or {}}


def run_mode(kind, mode, x, ref, spec, tmp, aliases, rng, case):
    """-> (holds, detail).  `case` may carry recorded choices (alias / default / multifile) for replay; when absent
    they are drawn from rng and stored into `case`."""
    m = S()
    if mode in ("direct", "json", "file-abs", "file-rel", "file-inline"):
        res, err = guarded(lambda: do_mode(kind, mode, x, tmp))
        if err is not None:
            tag = ""
            np_map = kind == "trajectory" and spec.get("cgmap_np") and spec.get("cgmap") is not None
            if np_map and "JSON serializable" in err:
                tag = ":cgmap-ndarray"
            elif kind == "trajectory" and spec.get("script") is None:
                tag = ":scriptless"
            elif np_map:
                tag = ":cgmap-ndarray"
            return fail("%s:%s:raises%s" % (mode.split("-")[0], kind, tag), "%s round trip of a %s raises %s" % (mode, kind, err), impl=err,
                        expected="an equal object")
        y, d = res
        df = diff(ref, VIEW[kind](y))
        if df:
            return fail("roundtrip:%s:%s" % (kind, field_of(df[0])),
                        "%s round trip of a %s changes %s" % (mode, kind, df[0]), impl=df[2], expected=df[1])
        return True, {}
    if mode == "reserialise":
        to_d, from_d = conv(kind)[:2]
        res, err = guarded(lambda: (to_d(x), to_d(from_d(copy.deepcopy(to_d(x))))))
        if err is not None:
            return fail("reserialise:%s:raises" % kind, "re-serialising a %s raises %s" % (kind, err), impl=err)
        d1, d2 = jsonable_dict(res[0]), jsonable_dict(res[1])
        df = diff(d1, d2)
        if df:
            return fail("reserialise:%s:%s" % (kind, field_of(df[0])), "to_dict(from_dict(to_dict(x))) differs from to_dict(x) at %s" % df[0],
                        impl=df[2], expected=df[1])
        # and through JSON text + a second generation
        res, err = guarded(lambda: to_d(from_d(json.loads(json.dumps(res[1])))))
        if err is not None or diff(d1, jsonable_dict(res)):
            return fail("reserialise:%s:second" % kind, "second re-serialisation differs / raises", impl=err)
        return True, {}
    if mode == "multifile":
        bits = case.get("bits")
        if bits is None:
            bits = [rng.randint(0, 1) for _ in range(16)]
            case["bits"] = bits
        load = conv(kind)[3]
        res, err = guarded(lambda: load_from_decoy_cwd(load, write_multifile(kind, x, tmp, bits), tmp))
        if err is not None:
            return fail("multifile:%s:raises" % kind, "loading a multi-file layout of a %s (from a working directory holding files with the same relative names but other content) raises %s" % (kind, err), impl=err,
                        extra={"bits": bits})
        df = diff(ref, VIEW[kind](res))
        if df:
            return fail("multifile:%s:%s" % (kind, field_of(df[0])), "multi-file layout of a %s (loaded from a working directory holding files with the same relative names but other content) differs from the inline one at %s" % (kind, df[0]),
                        impl=df[2], expected=df[1], extra={"bits": bits})
        # relative path to the top file as well
        top = os.path.join(tmp, "system.json" if kind == "system" else "script.json")
        res, err = guarded(lambda: load_from_decoy_cwd(load, top, tmp, relative=True))
        if err is not None or diff(ref, VIEW[kind](res)):
            return fail("multifile:%s:relative-top" % kind, "loading the same layout through a relative path differs / raises", impl=err,
                        extra={"bits": bits})
        return True, {}
    if mode == "multifile-inherit":
        # the same dictionary, with units left to inheritance at several levels, inline vs spread over files
        to_d, from_d, _, load = conv(kind)
        bits = case.get("bits")
        if bits is None:
            bits = [rng.randint(0, 1) for _ in range(24)]
            case["bits"] = bits
        d = jsonable_dict(to_d(x))
        sd = d if kind == "system" else d["system"]
        drop = bits[16:]
        if drop[0]:
            sd["network"].pop("units", None)
        if drop[1]:
            sd["space"].pop("units", None)
        if drop[2]:
            sd.pop("units", None)
        for i, sp in enumerate(sd["network"]["species"]):
            if drop[3 + (i % 2)]:
                sp.pop("units", None)
        for i, r in enumerate(sd["network"]["reactions"]):
            if drop[5 + (i % 2)]:
                r["units"] = "inherit"
        inline, err = guarded(lambda: VIEW[kind](from_d(copy.deepcopy(d), base_path=tmp)))
        if err is not None:
            return True, {}      # e.g. a quantity text whose units no longer fit: rejected inline, nothing to compare
        res, err = guarded(lambda: VIEW[kind](load_from_decoy_cwd(load, write_multifile(kind, x, tmp, bits[:16], d_given=d), tmp)))
        if err is not None:
            return fail("multifile:%s:raises" % kind, "a dictionary that loads inline raises %s when spread over files" % err, impl=err,
                        extra={"bits": bits})
        df = diff(inline, res)
        if df:
            return fail("multifile:%s:%s" % (kind, field_of(df[0])), "a %s dictionary with inherited units loaded from several files differs from the same dictionary inline at %s" % (kind, df[0]),
                        impl=df[2], expected=df[1], extra={"bits": bits})
        return True, {}
    if mode == "shared-parts":
        # ONE set of part files (network / space without their own units, bare numbers) referenced by TWO system files declared
        # in different units, all loaded in one process: each system must be its own inline reading (inherited units, SI values)
        m = S()
        to_d, from_d, _, load = conv("system")
        parents = case.get("parents")
        if parents is None:
            a = rand_sys(rng)
            b = rand_sys(rng)
            while tuple(b) == tuple(a):
                b = rand_sys(rng)
            parents = [list(a), list(b)]
            case["parents"] = parents
        d = jsonable_dict(to_d(x))
        for (dk, dd, path) in sub_dicts("system", d):
            if dk in ("species", "reaction", "network", "grid", "graph", "node", "edge"):
                dd.pop("units", None)
                bare_numbers(dk, dd)
        net, sp = d["network"], d["space"]
        os.makedirs(os.path.join(tmp, "parts"), exist_ok=True)
        for name, part in (("network.json", net), ("space.json", sp)):
            with open(os.path.join(tmp, "parts", name), "w", encoding="utf-8") as f:
                json.dump(part, f)
        expected, files = [], []
        for i, us in enumerate(parents):
            ud = {"space": us[0], "time": us[1], "quantity": us[2]}
            exp, err = guarded(lambda: VIEW["system"](from_d({"units": ud, "network": copy.deepcopy(net), "space": copy.deepcopy(sp)})))
            if err is not None:
                return True, {}
            expected.append(exp)
            fp = os.path.join(tmp, "system_%d.json" % i)
            with open(fp, "w", encoding="utf-8") as f:
                json.dump({"units": ud, "network": "parts/network.json", "space": "parts/space.json"}, f)
            files.append(fp)
        for order in ((0, 1), (1, 0), (0, 1)):
            for i in order:
                got, err = guarded(lambda: VIEW["system"](load(files[i])))
                if err is not None:
                    return fail("shared-parts:system:raises", "loading system_%d.json (units %s) sharing part files with another system raises %s" % (i, parents[i], err),
                                impl=err, extra={"parents": parents})
                df = diff(expected[i], got)
                if df:
                    return fail("shared-parts:system:%s" % short_field(df[0]),
                                "two system files declared in %s and %s reference the same parts/network.json and parts/space.json (no units of their own); "
                                "loaded in one process, the system in %s differs from its own inline reading at %s" % (parents[0], parents[1], parents[i], df[0]),
                                impl=df[2], expected=df[1], extra={"parents": parents})
        # and the part loader itself under two parents
        for us in parents + parents[:1]:
            n1, e1 = guarded(lambda: view_network(m["rn"].load_rdnetwork(os.path.join(tmp, "parts", "network.json"), mk_sys(us))))
            n2, e2 = guarded(lambda: view_network(m["rn"].rdnetwork_from_dict(copy.deepcopy(net), mk_sys(us))))
            if (e1 is None) != (e2 is None) or (e1 is None and diff(n2, n1)):
                return fail("shared-parts:load_rdnetwork", "load_rdnetwork(parts/network.json, parent %s) differs from rdnetwork_from_dict of the same content under that parent "
                            "(after the same file was loaded under another parent)" % us, impl=e1 or str(diff(n2, n1))[:200], extra={"parents": parents})
        return True, {}
    if mode == "coupling":
        return check_coupling(kind, spec, ref)
    if mode == "units-strings":
        # the STRING forms of "units" at a nested level: "default" = µm/s/molecule whatever the parent, "inherit" = the parent's;
        # the quantities of that dictionary are given as bare numbers, so that the units system decides their SI value
        to_d, from_d = conv(kind)[:2]
        d = jsonable_dict(to_d(x))
        subs = sub_dicts(kind, d)
        choice = case.get("units_string")
        if choice is None:
            cands = []
            for (dk, dd, path) in subs:
                if dk in ("species", "reaction", "network", "grid", "graph", "node", "edge", "system") and path != "":
                    par = parent_units(subs, path)
                    if par is not None:
                        for form in ("default", "inherit"):
                            cands.append([path, dk, form, rng.choice(aliases.get(dk, [["units"]])[-1] if aliases.get(dk) else ["units"])])
            # prefer parents whose units are not the default ones
            strong = [c for c in cands if parent_units(subs, c[0]) != {"space": "µm", "time": "s", "quantity": "molecule"}]
            cands = strong or cands
            if not cands:
                return True, {}
            choice = cands[rng.randrange(len(cands))]
            case["units_string"] = choice
        path, dk, form, key = choice
        par = parent_units(subs, path)
        expl = {"space": "µm", "time": "s", "quantity": "molecule"} if form == "default" else dict(par)
        d_str, d_exp = copy.deepcopy(d), copy.deepcopy(d)
        for dd_, val in ((d_str, form), (d_exp, expl)):
            for (dk2, dd, p2) in sub_dicts(kind, dd_):
                if p2 == path and dk2 == dk:
                    bare_numbers(dk, dd)
                    for k in ("units", "units_system", "units system", "u"):
                        dd.pop(k, None)
                    dd[key if val is form else "units"] = val
        r1, e1 = guarded(lambda: VIEW[kind](from_d(d_str)))
        r2, e2 = guarded(lambda: VIEW[kind](from_d(d_exp)))
        if e1 is not None and e2 is not None:
            return True, {}
        if e1 is not None or e2 is not None:
            return fail("units-string:%s:%s" % (dk, form), "a %s dictionary with %r: %r under a parent in %s is %s while the explicit units dictionary %s is %s"
                        % (dk, key, form, par, "rejected (%s)" % e1 if e1 else "accepted", expl, "rejected (%s)" % e2 if e2 else "accepted"),
                        impl=e1 or e2, extra={"units_string": choice})
        df = diff(r2, r1)
        if df:
            return fail("units-string:%s:%s" % (dk, form),
                        "a %s dictionary with %r: %r nested under a parent declared in %s is not read like the explicit units %s: %s differs"
                        % (dk, key, form, par, expl, df[0]), impl=df[2], expected=df[1], extra={"units_string": choice})
        return True, {}
    if mode == "alias":
        to_d, from_d = conv(kind)[:2]
        d = jsonable_dict(to_d(x))
        subs = [s for s in sub_dicts(kind, d) if s[0] in aliases]
        choice = case.get("alias")
        if choice is None:
            cands = []
            for (dk, dd, path) in subs:
                for g in aliases[dk]:
                    if g and g[0] in dd:
                        for a in g[1:]:
                            cands.append([path, dk, g[0], a])
            if not cands:
                return True, {}
            choice = cands[rng.randrange(len(cands))]
            case["alias"] = choice
        path, dk, k, a = choice
        for (dk2, dd, p2) in subs:
            if p2 == path and dk2 == dk and k in dd:
                dd[a] = dd.pop(k)
        res, err = guarded(lambda: from_d(d))
        if err is not None:
            return fail("alias:%s:%s->%s" % (dk, k, a), "a %s dictionary with key %r spelled %r raises %s" % (dk, k, a, err), impl=err,
                        extra={"alias": choice})
        df = diff(ref, VIEW[kind](res))
        if df:
            return fail("alias:%s:%s->%s" % (dk, k, a), "spelling key %r as %r changes %s" % (k, a, df[0]), impl=df[2], expected=df[1],
                        extra={"alias": choice})
        return True, {}
    if mode == "default":
        to_d, from_d = conv(kind)[:2]
        d = jsonable_dict(to_d(x))
        subs = sub_dicts(kind, d)
        choice = case.get("default")
        if choice is None:
            cands = [[path, dk, k] for (dk, dd, path) in subs for (dk2, k) in DOC_DEFAULTS if dk2 == dk and k in dd]
            if not cands:
                return True, {}
            choice = cands[rng.randrange(len(cands))]
            case["default"] = choice
        path, dk, k = choice
        d_omit, d_dflt = copy.deepcopy(d), copy.deepcopy(d)
        for dd in [dd for (dk2, dd, p2) in sub_dicts(kind, d_omit) if p2 == path and dk2 == dk]:
            dd.pop(k, None)
        for dd in [dd for (dk2, dd, p2) in sub_dicts(kind, d_dflt) if p2 == path and dk2 == dk]:
            dd[k] = DOC_DEFAULTS[(dk, k)]
        r1, e1 = guarded(lambda: VIEW[kind](from_d(d_omit)))
        r2, e2 = guarded(lambda: VIEW[kind](from_d(d_dflt)))
        if e1 is not None and e2 is not None:
            return True, {}        # e.g. omitting "d" while cell_env keeps the old size: both forms are rejected alike
        if e1 is not None:
            return fail("default:%s:%s" % (dk, k), "omitting key %r of a %s dictionary raises %s (documented default %r)" % (k, dk, e1, DOC_DEFAULTS[(dk, k)]),
                        impl=e1, extra={"default": choice})
        if e2 is not None:
            return fail("default:%s:%s" % (dk, k), "the documented default %r for key %r of a %s dictionary raises %s" % (DOC_DEFAULTS[(dk, k)], k, dk, e2),
                        impl=e2, extra={"default": choice})
        df = diff(r2, r1)
        if df:
            return fail("default:%s:%s" % (dk, k), "omitting key %r differs from giving its documented default %r at %s" % (k, DOC_DEFAULTS[(dk, k)], df[0]),
                        impl=df[2], expected=df[1], extra={"default": choice})
        return True, {}
    raise ValueError(mode)


# =============================================================================================
# stream "file names": save_* / load_* under families of valid file names in ONE directory
# =============================================================================================
NAME_FAMILIES = [["run.json", "runs.json"], ["session.json", "sessions.json"], ["sim_n.json", "sim_s.json"],
                 ["o.json", "oo.json", "json.json"], ["results", "resultss", "result.js"], ["a.b.json", "a.b.jsons.json"],
                 ["traj.json", "trajs", "traj.jso"], ["x_data.json", "x.json"]]


def stem_of(name):
    return name[:-5] if name.endswith(".json") else name


def check_file_names(ctx, specs, names, separate, replaying=False):
    """save every trajectory under its name in one directory, THEN reload all and compare each with its own original;
    the data file written next to each JSON file must be <stem>_data.npy and the JSON must refer to it"""
    m = S()
    xs = [BUILD["trajectory"](sp) for sp in specs]
    refs = [VIEW["trajectory"](x) for x in xs]
    with Tmp() as tmp:
        try:
            for x, nm in zip(xs, names):
                m["ro"].save_rdtrajectory(x, os.path.join(tmp, nm), separate_data=separate)
        except Exception as ex:  # noqa
            return fail("filenames:trajectory:raises", "saving trajectories under the names %s raises %s: %s" % (names, type(ex).__name__, str(ex)[:150]),
                        impl=repr(ex))
        for i, nm in enumerate(names):
            st = stem_of(nm)
            jp = os.path.join(tmp, st + ".json")
            if not os.path.exists(jp):
                return fail("filenames:trajectory:json-name", "save_rdtrajectory(%r) did not write %s.json (directory: %s)" % (nm, st, sorted(os.listdir(tmp))),
                            impl=sorted(os.listdir(tmp)), expected=st + ".json")
            if separate:
                if not os.path.exists(os.path.join(tmp, st + "_data.npy")):
                    return fail("filenames:trajectory:data-name", "save_rdtrajectory(%r, separate_data=True) did not write %s_data.npy (directory: %s)"
                                % (nm, st, sorted(os.listdir(tmp))), impl=sorted(os.listdir(tmp)), expected=st + "_data.npy")
                ref_name = json.load(open(jp, encoding="utf-8"))["data"]["value"]
                if ref_name != st + "_data.npy":
                    return fail("filenames:trajectory:data-ref", "the file written for %r refers to the data file %r instead of %r" % (nm, ref_name, st + "_data.npy"),
                                impl=ref_name, expected=st + "_data.npy")
            y, err = guarded(lambda: load_from_decoy_cwd(m["ro"].load_rdtrajectory, jp, tmp, relative=(i % 2 == 1)))
            if err is not None:
                return fail("filenames:trajectory:raises", "loading %s.json (saved next to %s) raises %s" % (st, [n for n in names if n != nm], err), impl=err)
            df = diff(refs[i], VIEW["trajectory"](y))
            if df:
                return fail("filenames:trajectory:%s" % field_of(df[0]),
                            "trajectory saved as %r next to %s comes back with a different %s" % (nm, [n for n in names if n != nm], df[0]),
                            impl=df[2], expected=df[1])
    return True, {}


def file_name_stream(ctx):
    rng = ctx.rng
    for i in range(ctx.n(12, 300)):
        fam = NAME_FAMILIES[i % len(NAME_FAMILIES)]
        names = list(fam)
        rng.shuffle(names)
        separate = (i % 3 != 2)
        specs = []
        for _ in names:
            sp = gen_trajectory(rng)
            sp["cgmap_np"] = False
            specs.append(sp)
        case = {"kind": "file-names", "names": names, "separate": separate, "specs": specs}
        try:
            holds, detail = check_file_names(ctx, specs, names, separate)
        except Exception as ex:  # noqa
            holds, detail = fail("filenames:trajectory:raises", "file-name stream raises %s: %s" % (type(ex).__name__, str(ex)[:200]), impl=repr(ex))
        ctx.case(("fn", tuple(names), separate, i), nontrivial=True)
        ctx.count("stream_file_names")
        if not holds:
            ctx.violation(detail["key"], detail["what"], case, impl=detail.get("impl"), expected=detail.get("expected"))


# =============================================================================================
# stream "sequences": read -> edit the result in place -> read again; no aliasing between results / module defaults
# =============================================================================================
def mutable_ids(obj, seen=None, depth=0):
    """ids of every mutable object reachable from obj (package objects, numpy arrays, lists, dicts)"""
    import numpy as np
    if seen is None:
        seen = {}
    if depth > 12 or obj is None or isinstance(obj, (str, int, float, bool, bytes)):
        return seen
    if id(obj) in seen:
        return seen
    if isinstance(obj, tuple):
        for v in obj:
            mutable_ids(v, seen, depth + 1)
        return seen
    if isinstance(obj, np.ndarray):
        seen[id(obj)] = "ndarray"
        return seen
    if isinstance(obj, (list, set)):
        seen[id(obj)] = type(obj).__name__
        for v in obj:
            mutable_ids(v, seen, depth + 1)
        return seen
    if isinstance(obj, dict):
        seen[id(obj)] = "dict"
        for v in obj.values():
            mutable_ids(v, seen, depth + 1)
        return seen
    mod = getattr(type(obj), "__module__", "") or ""
    if mod.startswith("strengths") and hasattr(obj, "__dict__"):
        seen[id(obj)] = type(obj).__name__
        for v in vars(obj).values():
            mutable_ids(v, seen, depth + 1)
    return seen


def module_default_ids():
    """mutable default-argument objects of every function / method of the package (UnitsSystem(), RDGridSpace(), [""] …)"""
    import inspect
    import strengths
    out = {}
    m = S()
    for mod in m.values():
        for name, f in list(vars(mod).items()):
            fs = []
            if inspect.isfunction(f):
                fs.append((name, f))
            elif inspect.isclass(f) and (getattr(f, "__module__", "") or "").startswith("strengths"):
                for n2, g in vars(f).items():
                    if inspect.isfunction(g):
                        fs.append((name + "." + n2, g))
            for qn, g in fs:
                for dv in (g.__defaults__ or ()):
                    for i, what in mutable_ids(dv).items():
                        out.setdefault(i, "%s default of %s" % (what, qn))
    return out


def edit_in_place(obj, rng_choice):
    """edit, through the public API, every units system reachable from a reader's result (and its state array)"""
    import numpy as np
    m = S()
    US = m["u"].UnitsSystem
    done = set()

    def walk(o, depth=0):
        if o is None or depth > 12 or id(o) in done or isinstance(o, (str, int, float, bool)):
            return
        done.add(id(o))
        if isinstance(o, US):
            o.space = "m" if o.space != "m" else "km"
            o["time"] = "min" if o.time != "min" else "h"
            o.quantity = "mol" if o.quantity != "mol" else "kmol"
            return
        if isinstance(o, np.ndarray):
            if o.size and o.dtype.kind == "f":
                o[0] = o[0] + 1.0
            return
        if isinstance(o, (list, tuple)):
            for v in o:
                walk(v, depth + 1)
            return
        if isinstance(o, dict):
            for v in o.values():
                walk(v, depth + 1)
            return
        if (getattr(type(o), "__module__", "") or "").startswith("strengths") and hasattr(o, "__dict__"):
            for v in vars(o).values():
                walk(v, depth + 1)
    walk(obj)


def strip_units(kind, d, level):
    """dictionary with the `units` keys of the first `level` nesting levels left to inheritance"""
    d = copy.deepcopy(d)
    for (dk, dd, path) in sub_dicts(kind, d):
        depth = path.count(".")
        if dk in ("species", "reaction", "network", "grid", "graph", "system", "script", "node", "edge") and depth <= level:
            dd.pop("units", None)
    return d


def check_sequence(kind, spec, level):
    """read(d) -> view1 ; edit the result in place ; read(d) again -> must equal view1 and the explicit-default spelling;
    the two results and the package's default arguments share no mutable object"""
    to_d, from_d = conv(kind)[:2]
    x = BUILD[kind](spec)
    d = strip_units(kind, jsonable_dict(to_d(x)), level)
    o1, err = guarded(lambda: from_d(copy.deepcopy(d)))
    if err is not None:
        return True, {}          # quantity text no longer fits the inherited units: nothing to compare
    v1 = VIEW[kind](o1)
    defaults = module_default_ids()
    shared = [defaults[i] for i in mutable_ids(o1) if i in defaults]
    edit_in_place(o1, None)
    o2, err = guarded(lambda: from_d(copy.deepcopy(d)))
    if err is not None:
        return fail("sequence:%s:raises" % kind, "reading the same %s dictionary again after editing the first result in place raises %s" % (kind, err), impl=err)
    v2 = VIEW[kind](o2)
    df = diff(v1, v2)
    if df:
        return fail("sequence:%s:%s" % (kind, field_of(df[0])),
                    "reading the same %s dictionary (units omitted at %d level(s)) again, after editing the FIRST result's units systems in place, gives a different %s"
                    % (kind, level + 1, df[0]), impl=df[2], expected=df[1])
    ids1, ids2 = mutable_ids(o1), mutable_ids(o2)
    common = [ids1[i] for i in ids1 if i in ids2]
    if common:
        return fail("aliasing:%s:between-results" % kind, "two objects read from the same %s dictionary share a mutable %s" % (kind, common[0]), impl=common[:3])
    # a different dictionary read later with omitted units = the documented default units
    m = S()
    later = {"species": [{"label": "A", "D": 2, "density": 3}], "reactions": [{"eq": "A -> ", "k+": 5}]}
    n1, e1 = guarded(lambda: view_network(m["rn"].rdnetwork_from_dict(copy.deepcopy(later))))
    n2, e2 = guarded(lambda: view_network(m["rn"].rdnetwork_from_dict(dict(copy.deepcopy(later), units={"space": "µm", "time": "s", "quantity": "molecule"}))))
    if e1 or e2 or diff(n2, n1):
        return fail("sequence:%s:later-default" % kind, "after that edit, a network dictionary with omitted units is no longer read in the documented default units (µm, s, molecule)",
                    impl=e1 or (diff(n2, n1) and str(diff(n2, n1))[:200]))
    if shared:
        return fail("aliasing:%s:module-default" % kind, "the object returned by the %s reader holds (not a copy of) the %s" % (kind, shared[0]),
                    impl=shared[:3])
    return True, {}


def sequence_stream(ctx):
    rng = ctx.rng
    kinds = ["network", "grid", "graph", "system", "script"]
    for i in range(ctx.n(40, 1200)):
        kind = kinds[i % len(kinds)]
        spec = GEN[kind](rng)
        level = rng.choice([0, 0, 1, 3])
        case = {"kind": "sequence", "of": kind, "level": level, "spec": spec}
        try:
            holds, detail = check_sequence(kind, spec, level)
        except Exception as ex:  # noqa
            ctx.count("generator_rejected")
            continue
        ctx.case(("seq", kind, level, json.dumps(spec, sort_keys=True)), nontrivial=True)
        ctx.count("stream_sequence_" + kind)
        if not holds:
            ctx.violation(detail["key"], detail["what"], case, impl=detail.get("impl"), expected=detail.get("expected"))


# =============================================================================================
# stream "zero coefficients": reaction sides holding explicit zeros, dict-of-sides and text form
# =============================================================================================
ZERO_CASES = [([{"A": 0, "B": 2}, {"D": 1}], None), ([{"A": 1, "B": 0}, {"D": 0, "A": 1}], None), ([{"A": 0}, {"B": 0, "D": 3}], None),
              (None, "0 A + B -> D"), (None, "A + 0 B -> 0 D + 2 A"), (None, "0 A -> B"), (None, "2 A -> 0 B"),
              ([{"B": 0, "A": 0, "D": 1}, {}], None)]


def zero_coefficient_stream(ctx):
    m = S()
    for sides, text in ZERO_CASES:
        case = {"kind": "zero-coefficient", "sides": sides, "text": text}
        holds, detail = check_zero_case(sides, text)
        ctx.case(("zero", json.dumps(sides), text), nontrivial=True)
        ctx.count("stream_zero_coefficients")
        if not holds:
            ctx.violation(detail["key"], detail["what"], case, impl=detail.get("impl"), expected=detail.get("expected"))


# =============================================================================================
# stream "label forms": the stoichiometry of reactions whose species labels take every lexical form a label may have
# (the equation text written by the writers is the only place where a label stands next to a number)
# =============================================================================================
LABEL_FAMILIES = [["A", "B", "D"], ["1A", "A", "2B"], ["2X", "3X", "X"], ["10", "2", "7"], ["1O2", "O2", "O"], ["13C", "12C", "C"],
                  ["a", "A", "Aa"], ["A", "AB", "ABC"], ["e-", "H3O", "Ca2"], ["A*", "A'", "A_"], ["[A]", "(A)", "A.B"],
                  ["α", "µX", "2α"], ["0", "00", "0A"], ["A1", "1A1", "11"], ["A-", "-A", "A--B"], ["1e3", "e3", "1.5A"],
                  ["-1", "1-", "A>"], ["0x1F", "x1F", "1F"]]


def label_forms_stream(ctx):
    m = S()
    rng = ctx.rng
    fams = [list(f) for f in LABEL_FAMILIES]
    for _ in range(ctx.n(25, 600)):
        f = rand_labels(rng, 3, ["A", "B", "D"])
        if len(f) == 3:
            fams.append(f)
    ops, meta = [], []
    for fam in fams:
        a, b, c = fam
        co = [1, rng.choice([1, 2, 3, 12])]
        variants = [([{a: 1, b: co[1]}, {c: 1}], None), ([{c: 1}, {b: 1, a: co[1]}], None), ([{b: 1, c: 1, a: 1}, {}], None),
                    (None, "%s + %d %s -> %s" % (a, co[1], b, c)), (None, "%s->%s+%s" % (c, b, a)), (None, " -> %s + %s + %s" % (b, c, b))]
        for sides, text in variants:
            case = {"kind": "zero-coefficient", "sides": sides, "text": text, "species": fam}
            # the file route on the fixed families and on one variant of the random ones (the three routes share the reader)
            holds, detail = check_zero_case(sides, text, fam, "label-forms:", modes=("direct", "json", "file-abs", "reserialise")
                                            if (fam in LABEL_FAMILIES and text is None) or (sides is not None and len(sides[1]) == 0) else ("json", "reserialise"))
            ctx.case(("label-forms", json.dumps(fam), json.dumps(sides), text), nontrivial=True)
            ctx.count("stream_label_forms")
            ctx.count("label_form_" + ("digit-leading" if any(l[0].isdigit() and not l.isdigit() for l in fam) else
                                       "digits-only" if any(l.isdigit() for l in fam) else "other"))
            if not holds:
                ctx.violation(detail["key"], detail["what"], case, impl=detail.get("impl"), expected=detail.get("expected"))
            # correspondence: the model of Reaction._fromstring (Model/Network.lean parseEquation) on the text the writer emits
            try:
                r = m["rn"].Reaction(sides if sides is not None else text)
                ops.append({"op": "parse_equation", "eq": r.to_string()})
                meta.append((case, r.to_string(), {k: int(v) for k, v in r.substrates.items() if v != 0},
                             {k: int(v) for k, v in r.products.items() if v != 0}))
            except Exception:  # noqa
                pass
    res = ctx.model.run(ops) if ops else []
    for (case, eq, subs, prods), r in zip(meta, res):
        try:
            x = m["rn"].Reaction(eq)
            got = {"subs": {k: int(v) for k, v in x.substrates.items() if v != 0}, "prods": {k: int(v) for k, v in x.products.items() if v != 0}}
        except Exception as ex:  # noqa
            got = {"error": type(ex).__name__}
        ctx.count("corr_written_equation")
        if r is None:
            continue
        if "error" in r or "ok" not in r:
            mod = {"error": r.get("error")}
        else:
            mod = {"subs": {l: int(c) for l, c in r["ok"]["subs"] if int(c) != 0}, "prods": {l: int(c) for l, c in r["ok"]["prods"] if int(c) != 0}}
        if mod != got:
            ctx.disagree("parse_equation:written", dict(case, eq=eq), got, mod)
        if mod != {"subs": subs, "prods": prods}:      # C19 print_parse says this cannot happen
            ctx.disagree("parse_equation:print_parse", dict(case, eq=eq), {"subs": subs, "prods": prods}, mod)


def check_zero_case(sides, text, species=None, prefix="zero-coefficient:", modes=("direct", "json", "file-abs", "reserialise")):
    m = S()
    try:
        sp = [m["rn"].Species(l) for l in (species or "ABD")]
        r = m["rn"].Reaction(sides if sides is not None else text, kf=2.0, kr=0.0, units_system=mk_sys(("mm", "s", "mol")))
        net = m["rn"].RDNetwork(sp, [r])
    except Exception as ex:  # noqa
        return True, {}      # not constructible: outside the quantifier
    ref = view_network(net)
    for mode in modes:
        with Tmp() as tmp:
            try:
                holds, detail = run_mode("network", mode, net, ref, {}, tmp, {}, None, {})
            except Exception as ex:  # noqa
                holds, detail = fail("zero:network:raises", "%s of a network with a zero coefficient raises %s: %s" % (mode, type(ex).__name__, str(ex)[:150]))
        if not holds:
            detail = dict(detail)
            detail["key"] = prefix + detail["key"]
            detail["what"] = "reaction %s: %s (written equation: %r)" % (sides if sides is not None else repr(text), detail["what"], r.to_string())
            return False, detail
    if species is not None:
        # the stoichiometry as the property names it: coefficient vectors over the network's species, original vs every reading
        lab = list(species)
        want = (r.ssto(lab), r.psto(lab))
        d = m["rn"].rdnetwork_to_dict(net)
        for route, rd in (("dict", lambda: m["rn"].rdnetwork_from_dict(copy.deepcopy(d))),
                          ("json", lambda: m["rn"].rdnetwork_from_dict(json.loads(json.dumps(jsonable_dict(d)))))):
            y, err = guarded(rd)
            got = None if err is not None else (y.reactions[0].ssto(lab), y.reactions[0].psto(lab))
            if got is None or [list(map(int, v)) for v in got] != [list(map(int, v)) for v in want]:
                return fail(prefix + "stoichiometry-vectors", "species %r, reaction %s: read back through %s the (ssto, psto) vectors are %s (written equation: %r)"
                            % (lab, sides if sides is not None else repr(text), route, err if got is None else [list(map(int, v)) for v in got], r.to_string()),
                            impl=err if got is None else [list(map(int, v)) for v in got], expected=[list(map(int, v)) for v in want])
    return True, {}


MODES = {"network": ["direct", "json", "file-abs", "file-rel", "reserialise", "alias", "default", "units-strings", "coupling"],
         "grid": ["direct", "json", "file-abs", "file-rel", "reserialise", "alias", "default", "coupling"],
         "graph": ["direct", "json", "file-abs", "file-rel", "reserialise", "alias", "units-strings", "coupling"],
         "system": ["direct", "json", "file-abs", "file-rel", "reserialise", "alias", "default", "multifile", "multifile-inherit", "shared-parts", "units-strings", "coupling"],
         "script": ["direct", "json", "file-abs", "file-rel", "reserialise", "alias", "default", "multifile", "multifile-inherit", "units-strings", "coupling"],
         "trajectory": ["file-abs", "file-rel", "file-inline"]}


def run(ctx):
    rng = ctx.rng
    aliases = reader_aliases()
    ctx.notes += [
        "roundtrip + reserialise are proved at class level, for all well-formed objects, through the one generic reader/writer "
        "(generic_roundtrip, toDictG_reparse): species, reaction, network, grid, graph (nodes/edges with own or inherited units), "
        "system (explicit state and chemostat map), script (t_max made explicit); the unit-text hypothesis is discharged from "
        "C18 show_parse_units (printable_of_valid).  Not covered by a theorem: systems whose state / chemostat map is left to the "
        "generated default (C13), JSON text and file contents (trusted primitives), children given as file paths beyond "
        "multi_file_equals_inline",
        "trajectories: save_rdtrajectory / load_rdtrajectory are modelled over the virtual file system (Model/Dict.lean "
        "saveTrajectory / loadTrajectory) with theorems trajectory_roundtrip_inline, trajectory_roundtrip_separate (data file named "
        "relative to the JSON file's directory), trajectory_reserialise; the path of the file is modelled as (directory, stem): "
        "get_base_path / get_last_element / the extension helpers on real path strings are compared with the model by the "
        "correspondence (ops path_with_base, traj_load), not proved",
        "alias_interchangeable is proved in general (Proofs/DictAlias.lean, Props/C12Classes.lean): for every reader, every "
        "dictionary carrying the keys its writer emits (any values) and every synonym of any of its keys, the generic reader returns "
        "the same result; the key-level side conditions are evaluated on the regenerated tables (alias_checks_all).  Dictionaries "
        "with several synonyms at once / other key sets: oracle mode `alias` + correspondence edits `alias` / `two-synonyms`",
    ]
    ctx.extra["reader_alias_groups"] = {k: len(v) for k, v in aliases.items()}
    counts = {"network": ctx.n(40, 1500), "grid": ctx.n(30, 800), "graph": ctx.n(30, 800), "system": ctx.n(40, 1500),
              "script": ctx.n(40, 1500), "trajectory": ctx.n(25, 600)}
    for kind, n in counts.items():
        for i in range(n):
            if ctx.time_left() < 15:
                ctx.notes.append("time budget reached in %s after %d objects" % (kind, i))
                break
            spec = GEN[kind](rng)
            if rng.random() < 0.35:
                spec["refused"] = pick_refused(kind, rng)
            check_object(ctx, kind, spec, MODES[kind], aliases, rng)
    documented_alias_checks(ctx, aliases)
    special_cases(ctx)
    zero_coefficient_stream(ctx)
    label_forms_stream(ctx)
    file_name_stream(ctx)
    from props import c12_model
    c12_model.correspond(ctx, aliases)
    # last: these sequences edit objects in place (on a defective tree they may corrupt module-level defaults)
    sequence_stream(ctx)


def documented_alias_checks(ctx, aliases):
    """every alias promised by the documentation is accepted by the reader (checked on the source's own tables)"""
    for dk, groups in DOC_ALIASES.items():
        have = aliases.get(dk, [])
        for k, al in groups.items():
            grp = next((g for g in have if g and g[0] == k), None)
            for a in al:
                ctx.count("documented_alias")
                if grp is None or a not in grp:
                    ctx.violation("alias:%s:%s->%s" % (dk, k, a), "documented alias %r of key %r is not accepted by the %s reader" % (a, k, dk),
                                  {"kind": "doc-alias", "dict": dk, "key": k, "alias": a}, impl=grp, expected=a)


def special_cases(ctx):
    """fixed instances of the input classes that matter most (always run)"""
    rngless = None
    cases = []
    # script with every non-default init_state_processing / policy, own units
    for mode in ["none", "Poisson", "redist", "auto"]:
        sp = {"us": ["mm", "min", "mol"], "system": _tiny_system(["mm", "min", "mol"]), "t_sample": {"values": [0.0, 1.5, 3.0]},
              "time_step": {"v": 0.25}, "t_max": "default", "policy": "on_interval", "interval": {"v": 0.5, "sys": ["µm", "h", "molecule"]},
              "seed": 12345, "mode": mode}
        cases.append(("script", sp, ["direct", "json", "file-abs", "file-rel", "reserialise"]))
    cases.append(("script", {"us": ["µm", "s", "molecule"], "system": _tiny_system(["µm", "s", "molecule"]), "t_sample": {"values": [0.0, 1.0]},
                             "time_step": {"v": 0.5}, "t_max": "default", "policy": "on_t_sample", "interval": {"v": 1.0}, "seed": 0, "mode": "auto"},
                  ["direct", "json", "file-abs", "reserialise"]))
    # graph whose edges / nodes have their own units systems
    g = {"type": "graph", "us": ["µm", "s", "molecule"],
         "nodes": [{"us": ["mm", "s", "molecule"], "volume": {"v": 2.0}, "env": 0}, {"us": ["µm", "s", "molecule"], "volume": {"v": 3.0, "sys": ["nm", "s", "mol"]}, "env": 0}],
         "edges": [{"us": ["cm", "h", "mol"], "i": 0, "j": 1, "surface": {"v": 1.5}, "distance": {"v": 0.5}}]}
    cases.append(("graph", g, ["direct", "json", "file-abs", "reserialise"]))
    sysg = {"us": ["µm", "s", "molecule"], "network": _tiny_network(["µm", "s", "molecule"]), "space": g, "state": None, "chemostats": None}
    cases.append(("system", sysg, ["direct", "json", "file-abs", "reserialise"]))
    base_traj = {"script": None, "system": _tiny_system(["µm", "s", "molecule"]), "t": {"values": [0.0, 1.0], "sys": ["µm", "min", "molecule"]},
                 "data": {"values": [float(i) for i in range(8)], "sys": ["µm", "s", "mol"]}, "engine_description": None,
                 "engine_option": "euler", "cgmap": None, "cgmap_np": False}
    cases.append(("trajectory", base_traj, ["file-abs"]))
    sc = {"us": ["µm", "s", "molecule"], "system": _tiny_system(["µm", "s", "molecule"]), "t_sample": {"values": [0.0, 1.0]},
          "time_step": {"v": 0.5}, "t_max": "default", "policy": "on_t_sample", "interval": {"v": 1.0}, "seed": 1, "mode": "auto"}
    cases.append(("trajectory", dict(base_traj, script=sc, cgmap=[0, 1], cgmap_np=True), ["file-abs"]))
    cases.append(("trajectory", dict(base_traj, script=sc, cgmap=[0, 1]), ["file-abs", "file-rel", "file-inline"]))
    # refused edits before the round trip (always run): the object must stay as built, and serialise as built
    ts = _tiny_system(["mm", "min", "mol"])
    cases.append(("system", dict(ts, refused=["system.space.environment-index", "system.state.item-dimension", "network.units.time"]),
                  ["direct", "json", "file-abs", "reserialise"]))
    cases.append(("system", dict(sysg, refused=["system.space.environment-index", "node.volume.dimension"]), ["direct", "file-abs"]))
    cases.append(("script", {"us": ["µm", "s", "molecule"], "system": _tiny_system(["µm", "s", "molecule"]), "t_sample": {"values": [0.0, 1.0]},
                             "time_step": {"v": 0.5}, "t_max": "default", "policy": "on_interval", "interval": {"v": 1.0}, "seed": 7, "mode": "redist",
                             "refused": ["script.sampling_policy", "script.init_state_processing", "script.units.time", "system.space.environment-index"]},
                  ["direct", "json", "file-abs", "reserialise"]))
    # models declared in coarse units with physically ordinary sizes: the numbers carried are 1e-12 … 1e-30, plus many-digit values
    for us in (["m", "s", "mol"], ["km", "h", "kmol"], ["m", "h", "mol"]):
        net = {"us": us, "envs": ["cyt", "mem"],
               "species": [{"label": "A", "us": us, "D": {"scalar": {"v": 5e-13}}, "density": {"env": [["cyt", {"v": 1.0 / 3.0}], ["default", {"v": 2.5e-19}]]},
                            "chstt": {"scalar": False}},
                           {"label": "B", "us": us, "D": {"env": [["mem", {"v": 3.3e-16}], ["default", {"v": 0.1 + 0.2}]]}, "density": {"scalar": {"v": 1e-21}},
                            "chstt": {"scalar": False}}],
               "reactions": [{"sub": [["A", 1], ["B", 1]], "prod": [["B", 2]], "us": us, "label": "r", "kf": {"scalar": {"v": 3.2e-13}},
                              "kr": {"env": [["cyt", {"v": 1e-30}], ["mem", {"v": 123.45678901234567}]]}}]}
        grid = {"type": "grid", "us": us, "w": 2, "h": 1, "d": 1, "cell_env": {"array": [0, 1]}, "cell_vol": {"v": 1e-18}, "bc": {}}
        graph = {"type": "graph", "us": us, "nodes": [{"us": us, "volume": {"v": 2.5e-19}, "env": 0}, {"us": ["µm", "s", "molecule"], "volume": {"v": 1.0 / 3.0}, "env": 1}],
                 "edges": [{"us": us, "i": 0, "j": 1, "surface": {"v": 1e-12}, "distance": {"v": 7.7e-7}}]}
        for sp_ in (grid, graph):
            sysm = {"us": us, "network": net, "space": sp_, "state": {"values": [1e-21, 2.0 / 3.0, 6.02214076e23 / 7.0, 3e-14]}, "chemostats": [0, 0, 1, 0]}
            cases.append(("system", sysm, ["direct", "json", "file-abs", "file-rel", "reserialise", "multifile"]))
            scr = {"us": us, "system": sysm, "t_sample": {"values": [0.0, 1e-15, 1.0 / 3.0]}, "time_step": {"v": 1e-16},
                   "t_max": {"v": 0.1 + 0.2}, "policy": "on_interval", "interval": {"v": 2.5e-14}, "seed": 2 ** 32 - 1, "mode": "none"}
            cases.append(("script", scr, ["direct", "json", "file-abs", "reserialise"]))
            cases.append(("trajectory", {"script": scr, "system": sysm, "t": {"values": [0.0, 1e-15], "sys": us},
                                         "data": {"values": [1e-21, 2.0 / 3.0, 1e-13 / 3.0, 3e-14, 0.0, 1e-30, 0.1 + 0.2, 5e-13], "sys": us},
                                         "engine_description": None, "engine_option": None, "cgmap": None, "cgmap_np": False},
                          ["file-abs", "file-inline"]))
    for kind, spec, modes in cases:
        check_object(ctx, kind, spec, modes, {}, ctx.rng)
    # omitted keys of hand-written minimal dictionaries vs the documentation
    minimal_dict_checks(ctx)


def _tiny_network(us):
    return {"us": list(us), "envs": ["a", "b"],
            "species": [{"label": "A", "us": list(us), "D": {"scalar": {"v": 1.0}}, "density": {"env": [["a", {"v": 2.0}], ["default", {"v": 0.5, "sys": ["dm", "s", "mol"]}]]},
                         "chstt": {"scalar": False}},
                        {"label": "B", "us": ["nm", "ms", "molecule"], "D": {"env": [["b", {"v": 3.0}]]}, "density": {"scalar": {"v": 0.0}}, "chstt": {"env": [["a", True]]}}],
            "reactions": [{"sub": [["A", 2]], "prod": [["B", 1]], "us": list(us), "label": "dim", "kf": {"scalar": {"v": 0.1}}, "kr": {"scalar": {"v": 2.0, "sys": ["µm", "min", "molecule"]}}},
                          {"sub": [], "prod": [["A", 1]], "us": ["m", "s", "mol"], "label": None, "kf": {"env": [["a", {"v": 1e-3}]]}, "kr": {"scalar": {"v": 0.0}}}]}


def _tiny_system(us):
    return {"us": list(us), "network": _tiny_network(us),
            "space": {"type": "grid", "us": list(us), "w": 2, "h": 1, "d": 1, "cell_env": {"array": [0, 1]}, "cell_vol": {"v": 2.0}, "bc": {"x": "periodical"}},
            "state": None, "chemostats": None}


def minimal_dict_checks(ctx):
    """hand-written dictionaries with omitted keys: behaviour promised by the documentation, evaluated on the real readers"""
    m = S()

    def chk(key, what, f, case):
        ctx.count("minimal_dict")
        ctx.case(("min", key), nontrivial=True)
        ok, err = guarded(f)
        if err is not None:
            ctx.violation(key, what + " raises " + err, case, impl=err)
        elif ok is not True:
            ctx.violation(key, what, case, impl=ok)

    us = {"space": "mm", "time": "min", "quantity": "mol"}
    # units sub-keys
    for k, dv in (("space", "µm"), ("time", "s"), ("quantity", "molecule")):
        dd = {kk: vv for kk, vv in us.items() if kk != k}

        def f(dd=dd, k=k, dv=dv):
            u = m["u"].unitssystem_from_dict(dd)
            return (u[k] == dv and all(u[kk] == vv for kk, vv in dd.items())) or sys_t(u)
        chk("default:unitsSystem:%s" % k, "units dictionary without %r does not default to %r" % (k, dv), f,
            {"kind": "minimal", "name": "units-" + k})

    # network without "reactions" / "environments" / "units"
    def f():
        n = m["rn"].rdnetwork_from_dict({"species": [{"label": "A"}]})
        s = n.species[0]
        return (len(n.reactions) == 0 and sys_t(n.units_system) == DEFAULT_SYS and s.D.value == 0 and s.density.value == 0
                and s.chstt is False and sys_t(s.units_system) == DEFAULT_SYS) or "unexpected defaults"
    chk("default:network:reactions", "network dictionary with only species", f, {"kind": "minimal", "name": "network-minimal"})

    # species inherits the units of the network, which inherits the parent's
    def f():
        n = m["rn"].rdnetwork_from_dict({"species": [{"label": "A", "D": 2}], "reactions": [{"eq": "A -> ", "k+": 3}]}, mk_sys(("mm", "min", "mol")))
        s, r = n.species[0], n.reactions[0]
        return (sys_t(n.units_system) == ("mm", "min", "mol") and sys_t(s.units_system) == ("mm", "min", "mol")
                and sys_t(s.D.units.sys) == ("mm", "min", "mol") and sys_t(r.kf.units.sys) == ("mm", "min", "mol") and r.kr.value == 0
                and r.label is None) or "units not inherited"
    chk("default:network:units", "omitted units are not inherited from the parent", f, {"kind": "minimal", "name": "network-inherit"})

    # the string forms of "units" under a parent in nm / ms / mol: "default" = µm, s, molecule ; "inherit" = the parent's
    for key in ("units", "u", "units_system", "units system"):
        def f(key=key):
            par = {"space": "nm", "time": "ms", "quantity": "mol"}
            n = m["rn"].rdnetwork_from_dict({"units": par, "species": [{"label": "A", "D": 1.5, key: "default"}, {"label": "B", "D": 1.5, key: "inherit"}],
                                             "reactions": [{"eq": "A -> B", "k+": 2, key: "default"}]})
            a, b, r = n.species[0], n.species[1], n.reactions[0]
            got = {"A": (sys_t(a.units_system), float(v_uv(a.D)["si"])), "B": (sys_t(b.units_system), float(v_uv(b.D)["si"])),
                   "r": (sys_t(r.units_system), float(v_uv(r.kf)["si"]))}
            return (sys_t(a.units_system) == DEFAULT_SYS and v_uv(a.D)["si"] == Fraction(3, 2) * si_factor(DEFAULT_SYS, DIM["D"])
                    and sys_t(b.units_system) == ("nm", "ms", "mol") and v_uv(b.D)["si"] == Fraction(3, 2) * si_factor(("nm", "ms", "mol"), DIM["D"])
                    and sys_t(r.units_system) == DEFAULT_SYS and v_uv(r.kf)["si"] == 2 * si_factor(DEFAULT_SYS, kdim(1))) or got
        chk("units-string:network:%s" % key.replace(" ", "_"), "species / reaction with %r: \"default\" / \"inherit\" inside a network declared in nm, ms, mol: "
            "\"default\" must mean µm, s, molecule and \"inherit\" nm, ms, mol; got" % key, f, {"kind": "minimal", "name": "units-string-" + key})

    def f():
        par = {"space": "mm", "time": "min", "quantity": "nmol"}
        s_ = m["rsy"].rdsystem_from_dict({"units": par, "network": {"units": "default", "species": [{"label": "A", "density": 2}]},
                                          "space": {"units": "default", "cell_volume": 3}})
        g = m["rsy"].rdsystem_from_dict({"units": par, "network": {"species": [{"label": "A"}]},
                                         "space": {"type": "graph", "units": par, "nodes": [{"volume": 3, "units": "default"}, {"volume": 3}],
                                                   "edges": [{"nodes": [0, 1], "surface": 2, "distance": 4, "units": "default"}]}})
        got = {"net": sys_t(s_.network.units_system), "grid": (sys_t(s_.space.units_system), float(v_uv(s_.space.cell_vol)["si"])),
               "node0": float(v_uv(g.space.nodes[0].volume)["si"]), "node1": float(v_uv(g.space.nodes[1].volume)["si"]),
               "edge": float(v_uv(g.space.edges[0].surface)["si"])}
        return (sys_t(s_.network.units_system) == DEFAULT_SYS and sys_t(s_.space.units_system) == DEFAULT_SYS
                and v_uv(s_.space.cell_vol)["si"] == 3 * si_factor(DEFAULT_SYS, DIM["volume"])
                and v_uv(g.space.nodes[0].volume)["si"] == 3 * si_factor(DEFAULT_SYS, DIM["volume"])
                and v_uv(g.space.nodes[1].volume)["si"] == 3 * si_factor(("mm", "min", "nmol"), DIM["volume"])
                and v_uv(g.space.edges[0].surface)["si"] == 2 * si_factor(DEFAULT_SYS, DIM["surface"])) or got
    chk("units-string:system:default", "network / grid / graph node / edge with \"units\": \"default\" inside a system declared in mm, min, nmol must be in µm, s, molecule; got",
        f, {"kind": "minimal", "name": "units-string-system"})

    # system without "space": documented = default grid whose units system is inherited from the system
    def f():
        s = m["rsy"].rdsystem_from_dict({"network": {"species": [{"label": "A", "density": 1}]}, "units": us})
        sp = s.space
        got = {"space_units": sys_t(sp.units_system), "cell_vol_si": float(v_uv(sp.cell_vol)["si"]), "size": sp.size()}
        exp_si = si_factor(("mm", "min", "mol"), DIM["volume"])
        return (sys_t(sp.units_system) == ("mm", "min", "mol") and v_uv(sp.cell_vol)["si"] == exp_si and sp.size() == 1) or got
    chk("default:system:space", "system dictionary without \"space\" in units mm/min/mol: documented default is "
        "RDGridSpace(units_system=system.units_system) (cell volume 1 mm3); the reader gives", f, {"kind": "minimal", "name": "system-space"})

    # system: state / chemostats omitted = generated defaults
    def f():
        d = {"network": {"species": [{"label": "A", "density": 2}, {"label": "B", "chstt": True}]},
             "space": {"w": 2, "cell_volume": 3}}
        s = m["rsy"].rdsystem_from_dict(d)
        return (s.state.value.tolist() == [6.0, 6.0, 0.0, 0.0] and [int(v) for v in s.chemostats] == [0, 0, 1, 1]) or \
            {"state": s.state.value.tolist(), "chem": [int(v) for v in s.chemostats]}
    chk("default:system:state", "omitted state / chemostats are not the generated defaults", f, {"kind": "minimal", "name": "system-state"})

    # script: every optional key omitted
    def f():
        sc = m["rsc"].rdscript_from_dict({"system": {"network": {"species": [{"label": "A"}]}}, "t_sample": [0, 1, 2]})
        return (sc.time_step.value == 1e-3 and sys_t(sc.units_system) == DEFAULT_SYS and sc.sampling_policy == "on_t_sample"
                and sc.sampling_interval.value == 1 and sc.init_state_processing == "auto" and sc.t_max.value == 2.0
                and isinstance(sc.rng_seed, int) and 0 <= sc.rng_seed < 2 ** 32) or "unexpected script defaults"
    chk("default:script:all", "script dictionary with only system and t_sample", f, {"kind": "minimal", "name": "script-minimal"})

    # grid: every key omitted
    def f():
        g = m["rs"].rdspace_from_dict({}, mk_sys(("cm", "s", "mol")))
        return (type(g) == m["rg"].RDGridSpace and (g.w, g.h, g.d) == (1, 1, 1) and [int(v) for v in g.cell_env] == [0]
                and g.cell_vol.value == 1 and sys_t(g.cell_vol.units.sys)[0] == "cm" and sys_t(g.units_system) == ("cm", "s", "mol")
                and g.get_boundary_conditions() == {"x": "reflecting", "y": "reflecting", "z": "reflecting"}) or "unexpected grid defaults"
    chk("default:grid:all", "empty space dictionary", f, {"kind": "minimal", "name": "grid-minimal"})


# =============================================================================================
# replay
# =============================================================================================
def replay(ctx, rec):
    if rec.get("kind") == "no-failing-input-found" or "case" not in rec:
        return True, {"note": "this replay file names broken obligations only (no failing input was found); nothing to re-run on the code",
                      "broken": [b.get("name") for b in rec.get("broken", [])]}
    case = rec.get("case", rec)
    out = {"case": {k: v for k, v in case.items() if k not in ("spec", "specs")}}
    if case.get("kind") == "minimal" or case.get("kind") == "doc-alias":
        class C:  # minimal context collecting violations
            def __init__(self):
                self.v = []
                self.evaluations = 0

            def count(self, *a, **k):
                pass

            def case(self, *a, **k):
                pass

            def violation(self, key, what, case, impl=None, expected=None):
                self.v.append({"key": key, "what": what, "impl": impl})
        c = C()
        if case.get("kind") == "minimal":
            minimal_dict_checks(c)
            vs = [v for v in c.v if v["key"] == rec.get("key")]
        else:
            documented_alias_checks(c, reader_aliases())
            vs = [v for v in c.v if v["key"] == rec.get("key")]
        out["violations"] = vs
        return (not vs), out
    if case.get("kind") == "file-names":
        holds, detail = check_file_names(ctx, case["specs"], case["names"], case["separate"], replaying=True)
        out.update(detail)
        return holds, out
    if case.get("kind") == "sequence":
        holds, detail = check_sequence(case["of"], case["spec"], case["level"])
        out.update(detail)
        return holds, out
    if case.get("kind") == "zero-coefficient":
        holds, detail = check_zero_case(case["sides"], case["text"], case.get("species"), "label-forms:" if case.get("species") else "zero-coefficient:")
        out.update(detail)
        return holds, out
    if "model_case" in case:
        from props import c12_model
        return c12_model.replay(ctx, case, out)
    kind, mode, spec = case["kind"], case["mode"], case["spec"]
    x = BUILD[kind](spec)
    ref = VIEW[kind](x)
    if spec.get("refused"):
        outcomes = apply_refused(kind, x, spec["refused"])
        out["refused_edits"] = outcomes
        if mode == "refused-edit":
            df = diff(ref, VIEW[kind](x))
            out["changed"] = None if not df else {"path": df[0], "built": df[1], "after": df[2]}
            return (not df and not any(oc == "accepted" for _, oc in outcomes)), out
    with Tmp() as tmp:
        try:
            holds, detail = run_mode(kind, mode, x, ref, spec, tmp, reader_aliases(), None, dict(case))
        except Exception as ex:  # noqa
            holds, detail = False, {"what": "%s of a %s raises %s: %s" % (mode, kind, type(ex).__name__, str(ex)[:200])}
    out.update(detail)
    return holds, out
