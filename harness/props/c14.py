"""C14 — Initial-state processing yields a valid molecular state with the right totals.

Theorems: lean/Strengths/Props/C14.lean (model: Model/InitState.lean; generated facts: Gen/Stoch.lean,
Gen/EngineCpp.lean).
Correspondence: op `init_state` — the real engine's init-state processing is replayed on the model with the
engine's own logged primitive draws (shimmed build): recorded sample 0 must be identical, the number of draws
consumed and every Poisson / normal mean handed to the primitives must match.
Oracle (independent of the model): on sample 0 of the real engine — termination (sandboxed, time-out),
non-negative integers, per-species totals = floor of the exact rational total, support, Poisson-mode layout
(the draw logged with mean m sits at an entry whose amount is m), pass-through for 'none', reproducibility.
"""
import math
from fractions import Fraction

import common
from common import frac, rstr, rparse
import stoch_gen

ID = "C14"
LEAN_TARGETS = ["Strengths.Props.C14"]
PROP_FILES = ["Strengths/Props/C14.lean"]
GEN_GROUPS = ["Stoch", "EngineCpp"]
RULE = ("random real-valued states (classes: sub-molecule totals, exact integers, entries around and above the "
        "Poisson/normal switch at 100, empty cells, mixed; 1..4 species; 1..8 cells) x modes {auto, redist, Poisson, "
        "none} (+ rejected strings) x engines {euler, tauleap, gillespie} x {grid, graph} x seeds; a case is "
        "non-trivial when the state has a non-zero entry; distinct by (state, mode, option, space kind, seed)")
ASSUMPTIONS = [
    "std::poisson_distribution<int> returns a non-negative integer, std::uniform_real_distribution(0,1) a value in [0,1) "
    "(contracts of the primitives; their distributions and mt19937 are trusted, not tested)",
    "state amounts are non-negative and below 2^31 molecules per species (static_cast<int> of the difference of totals)",
    "totals closer than 1e-9 to an integer, and uniform draws closer than 1e-9 (relative) to a cell boundary of the "
    "cumulated amounts, are counted as ambiguous (float accumulation vs exact rationals) and skipped",
]
TRUSTED = ["harness/shim (draw logging of the rebuilt engine; bit-identical trajectories to the plain build)"]

MODES = ["auto", "redist", "Poisson", "none"]
BAD_MODES = ["floor", "poisson", "", "Redist", "None", "AUTO", "redistribution"]
OPTIONS = ["euler", "tauleap", "gillespie"]


# ---------------------------------------------------------------------------------------------
# generators
# ---------------------------------------------------------------------------------------------
def rand_state(rng, n, ns):
    """species-major list of floats; returns (state, class name)"""
    cls = rng.choice(["sub", "sub", "ints", "big", "switch", "empty", "mixed", "mixed", "nondyadic", "nearint", "nearint"])
    st = []
    for s in range(ns):
        c = cls if cls != "mixed" else rng.choice(["sub", "ints", "big", "switch", "empty", "frac"])
        col = []
        if c == "nearint":
            # total a hair (2^-40 .. 2^-33) BELOW an integer, from dyadic pieces whose float sums are exact
            tot_int = rng.choice([1, 2, 3, 5, 17])
            eps = Fraction(1, 2 ** rng.choice([40, 38, 35, 33]))
            if n == 1:
                col = [float(Fraction(tot_int) - eps)]
            else:
                parts = [Fraction(rng.randint(0, 8 * tot_int), 8 * (n - 1)) for _ in range(n - 1)]
                scale = sum(parts)
                if scale > tot_int - Fraction(1, 2):
                    parts = [p_ * (tot_int - Fraction(1, 2)) / scale for p_ in parts] if scale else parts
                    parts = [Fraction(int(p_ * 1024), 1024) for p_ in parts]
                last = Fraction(tot_int) - eps - sum(parts)
                col = [float(p_) for p_ in parts] + [float(last)]
                rng.shuffle(col)
            st += col
            continue
        for i in range(n):
            if c == "sub":
                # totals below one molecule: dyadic pieces summing to < 1
                v = Fraction(rng.randint(0, 15), 16 * max(n, 1))
            elif c == "ints":
                v = Fraction(rng.choice([0, 0, 1, 2, 3, 7, 20]))
            elif c == "big":
                v = Fraction(rng.choice([100, 101, 150, 1000, 12345])) + Fraction(rng.randint(0, 7), 8)
            elif c == "switch":
                v = rng.choice([Fraction(100), Fraction(100) - Fraction(1, 1024), Fraction(100) + Fraction(1, 1024),
                                Fraction(99), Fraction(799, 8), Fraction(0)])
            elif c == "empty":
                v = Fraction(0) if rng.random() < 0.7 else Fraction(rng.randint(1, 40), 8)
            elif c == "nondyadic":
                v = Fraction(rng.choice([0.1, 0.2, 0.3, 0.7, 1.1, 2.5, 0.05, 0.0]))
            else:
                v = Fraction(rng.randint(0, 400), 16)
            col.append(float(v))
        st += col
    return st, cls


def gen_cases(ctx, count):
    rng = ctx.rng
    cases = []
    for k in range(count):
        kind = "grid" if k % 2 == 0 else "graph"
        space, info = stoch_gen.rand_space(rng, kind=kind, nenv=1, max_cells=8)
        n = info["n"]
        ns = rng.choice([1, 2, 2, 3, 4])
        state, cls = rand_state(rng, n, ns)
        seed = rng.choice([0, 1, 2, 3, 7, 42, rng.randint(0, 2 ** 31 - 1)])
        # every (mode, option) combination for this state
        combos = [(m, o) for m in MODES for o in OPTIONS]
        rng.shuffle(combos)
        take = combos if ctx.tier == "thorough" else combos[:ctx.n(5, 12)]
        chem = None
        if rng.random() < 0.35:
            # chemostatted entries (any truthy flag): processed like every other entry
            chem = [rng.choice([0, 0, 0, 1, 1, 5]) for _ in range(n * ns)]
        for (m, o) in take:
            cases.append({"space": space, "kind": kind, "n": n, "ns": ns, "state": state, "cls": cls, "mode": m, "option": o,
                          "seed": seed, "policy": rng.choice(["on_t_sample", "on_iteration"]),
                          "twice": rng.random() < 0.25 or seed == 0})
            if chem is not None:
                cases[-1]["chem"] = chem
            if rng.random() < 0.2:
                # the TYPE of the seed: an equal seed of another integer / integer-valued type must give the same run
                cases[-1]["seed_type"] = rng.choice(["np.int64", "np.uint32", "np.int32", "float", "np.float64"])
                cases[-1]["seed"] = cases[-1]["seed"] % (2 ** 31 - 1)
                cases[-1]["twice"] = True
        if k % 9 == 4:
            # amounts beyond the range of a C int in one or two cells (2^31 .. 2^36 molecules, a few femtomoles): Poisson mode draws
            # every entry with its own amount as mean, whatever its size; 'none' passes it through ("large counts", "always terminates")
            hs = list(state)
            for e_ in rng.sample(range(len(hs)), min(len(hs), rng.choice([1, 1, 2]))):
                hs[e_] = float(rng.choice([2 * 10 ** 9 + 1, 2100000000, 2 ** 31 - 1, 2 ** 31, 2 ** 31 + 5, 3 * 10 ** 9 + 1, 2 ** 32 + 3, 5 * 10 ** 9, 2 ** 36 + 7]))
            for m, o in [("Poisson", rng.choice(OPTIONS)), ("none", rng.choice(OPTIONS)), ("Poisson", "euler")][:rng.choice([2, 3])]:
                cases.append({"space": space, "kind": kind, "n": n, "ns": ns, "state": hs, "cls": "beyond-int", "mode": m, "option": o,
                              "seed": seed, "policy": "on_t_sample", "twice": False})
        if rng.random() < 0.5:
            # a script in another unit system (time and quantity): the engine must still see MOLECULES
            # (the deterministic engine works in the script's own quantity unit, so its Poisson / redist processing acts on
            #  amounts in that unit — a unit dependence that belongs to C04; here it gets the identity modes only)
            m, o = rng.choice([(mm, oo) for mm in MODES for oo in OPTIONS if oo != "euler" or mm in ("none", "auto")])
            cases.append({"space": space, "kind": kind, "n": n, "ns": ns, "state": state, "cls": cls, "mode": m, "option": o,
                          "seed": seed, "policy": "on_t_sample", "twice": False,
                          "units": {"time": rng.choice(["s", "ms", "min"]), "quantity": rng.choice(["nmol", "fmol", "mol"])}})
        if rng.random() < 0.35:
            # a refused assignment of an unknown mode, then the script is run: it must behave with the mode it had before
            m, o = rng.choice([(mm, oo) for mm in MODES for oo in OPTIONS])
            cases.append({"space": space, "kind": kind, "n": n, "ns": ns, "state": state, "cls": cls, "mode": m, "option": o,
                          "seed": seed, "policy": "on_t_sample", "twice": False,
                          "refused": rng.choice(["floor", "floor", "Floor", "round ", "", "poisson"])})
        if rng.random() < 0.4:
            # the state given as a UnitArray in a quantity unit OTHER than the system's (system and script units default):
            # the engine must receive the molecule numbers, computed here from SI (N_A) independently of the package
            unit, per_unit = rng.choice([("fmol", Fraction(602214076)), ("pmol", Fraction(602214076000)), ("nmol", Fraction(602214076000000))])
            mol = [Fraction(rng.choice([0, 0, 3, 12, 40, 150, 266])) + rng.choice([Fraction(1, 2), Fraction(1, 4), Fraction(0)]) for _ in range(n * ns)]
            in_unit = [float(v / per_unit) for v in mol]
            expect = [float(Fraction(v) * per_unit) for v in in_unit]
            m, o = rng.choice([(mm, oo) for mm in MODES for oo in OPTIONS])
            cases.append({"space": space, "kind": kind, "n": n, "ns": ns, "state": expect, "cls": "state-in-other-unit", "mode": m,
                          "option": o, "seed": seed, "policy": "on_t_sample", "twice": False, "state_unit": unit,
                          "state_in_unit": in_unit, "inexact": True})
        if rng.random() < 0.3:
            # the script's own default (keyword omitted): must behave like "auto"
            cases.append({"space": space, "kind": kind, "n": n, "ns": ns, "state": state, "cls": cls, "mode": None,
                          "option": rng.choice(OPTIONS), "seed": seed, "policy": "on_t_sample", "twice": False})
        if rng.random() < 0.15:
            cases.append({"space": space, "kind": kind, "n": n, "ns": ns, "state": state, "cls": cls, "mode": rng.choice(BAD_MODES),
                          "option": rng.choice(OPTIONS), "seed": seed, "policy": "on_t_sample", "twice": False})
    # process history: a redistribution with an ODD number of entries above the Poisson/normal switch, then the same
    # script and seed again (two independent simulate() calls in one process must agree)
    for q in range(ctx.n(6, 40)):
        n = rng.choice([1, 3, 5])
        space = {"type": "grid", "w": n, "h": 1, "d": 1, "cell_volume": 1.0, "cell_env": [0] * n,
                 "boundary_conditions": {"x": "reflecting", "y": "reflecting", "z": "reflecting"}}
        state = [float(rng.choice([100, 150, 400, 1000]) + rng.randint(0, 7) / 8) for _ in range(n)]
        if n > 1 and rng.random() < 0.5:
            state += [float(rng.randint(0, 5)) for _ in range(n)]
        cases.append({"space": space, "kind": "grid", "n": n, "ns": len(state) // n, "state": state, "cls": "odd-large",
                      "mode": rng.choice(["auto", "redist"]), "option": rng.choice(["gillespie", "tauleap"]),
                      "seed": rng.randint(0, 2 ** 31 - 1), "policy": "on_t_sample", "twice": True})
    # seeds 0, 1, 2^31, 2^32-1 through every route by which a script reaches the engine, each delivered twice independently
    routes = ["ctor", "simulate", "dict:rng_seed", "dict:rng seed", "dict:seed", "file"]
    k_ = 0
    for sd in (0, 1, 2 ** 31, 2 ** 32 - 1):
        for route in routes:
            for rep_ in range(ctx.n(1, 4)):
                kind = "grid" if k_ % 2 == 0 else "graph"
                space, info = stoch_gen.rand_space(rng, kind=kind, nenv=1, max_cells=6)
                n = info["n"]
                ns = rng.choice([1, 2])
                state = [float(Fraction(rng.randint(0, 120), 8)) for _ in range(n * ns)]
                cases.append({"space": space, "kind": kind, "n": n, "ns": ns, "state": state, "cls": "seed-route",
                              "mode": ["auto", "Poisson", "redist"][k_ % 3], "option": ["gillespie", "tauleap"][(k_ // 3) % 2],
                              "seed": sd, "policy": "on_t_sample", "twice": True, "route": route,
                              "nomodel": route == "simulate"})
                k_ += 1
    # one large low-count state per seed: thousands of entries of 10..25 molecules (rare events of the per-entry draw)
    for sd in ([1, 2, 4, 7] if ctx.tier == "quick" else list(range(24))):
        n = 1500
        space = {"type": "grid", "w": n, "h": 1, "d": 1, "cell_volume": 1.0, "cell_env": [0] * n,
                 "boundary_conditions": {"x": "reflecting", "y": "reflecting", "z": "reflecting"}}
        state = [float(10 + ((i * 7 + s * 3) % 5)) for s in range(2) for i in range(n)]
        cases.append({"space": space, "kind": "grid", "n": n, "ns": 2, "state": state, "cls": "bulk-lowcount", "mode": "auto",
                      "option": "gillespie", "seed": sd, "policy": "on_t_sample", "twice": False, "nomodel": True})
    return cases


# ---------------------------------------------------------------------------------------------
# the real code (runs inside the sandboxed child)
# ---------------------------------------------------------------------------------------------
def child_case(case, lib):
    import numpy as np
    import strengths as st
    from strengths.librdengine import LibRDEngine
    ns = case["ns"]
    net = {"species": [{"label": stoch_gen.LABELS[s], "density": 0, "D": 0} for s in range(ns)], "reactions": [],
           "environments": ["a"]}
    system = stoch_gen.build_system(net, case["space"])
    if case.get("state_unit"):
        from strengths.units import UnitArray
        system.state = UnitArray(list(case["state_in_unit"]), case["state_unit"])   # a state in another unit than the system's
    else:
        system.state = list(case["state"])
    if case.get("chem") is not None:
        system.chemostats = list(case["chem"])
    sent = [float(v) for v in system.state.value]

    def typed_seed():
        import numpy
        sd = case["seed"]
        return {"np.int64": numpy.int64, "np.uint32": numpy.uint32, "np.int32": numpy.int32, "float": float,
                "np.float64": numpy.float64}.get(case.get("seed_type"), int)(sd)
    def mk_script():
        kw = {} if case["mode"] is None else {"init_state_processing": case["mode"]}
        if case.get("units"):
            kw["units_system"] = st.UnitsSystem(**case["units"])
        return st.RDScript(system, t_sample=[0], time_step=1 / 64, t_max=1 / 64, sampling_policy=case["policy"],
                           rng_seed=typed_seed(), **kw)
    def via_route(k):
        """the k-th independent delivery of the same script + seed through the route under test"""
        import copy, json as _json, os as _os, tempfile as _tf
        from strengths.rdscript import rdscript_to_dict, rdscript_from_dict, save_rdscript, load_rdscript
        route = case.get("route", "ctor")
        if route in ("ctor", "simulate") or k == 2:
            return mk_script()                         # k == 2: the reference run made with RDScript(rng_seed=s)
        if route.startswith("dict:"):
            d = rdscript_to_dict(mk_script())
            d = _json.loads(_json.dumps(d))            # as it would come from a JSON text
            sd = d.pop("rng_seed")
            d[route[5:]] = sd
            return rdscript_from_dict(copy.deepcopy(d))
        if route == "file":
            dd = _tf.mkdtemp(prefix="verif_c14_")
            pth = _os.path.join(dd, "script.json")
            save_rdscript(mk_script(), pth)
            try:
                return load_rdscript(pth)
            finally:
                import shutil
                shutil.rmtree(dd, ignore_errors=True)
        raise ValueError("unknown route " + route)
    try:
        script = via_route(0)
    except (ValueError, TypeError) as ex:
        return {"raised": type(ex).__name__}
    out = {"sent": sent}
    if case.get("route"):
        out["loaded_seeds"] = [int(script.rng_seed)]
    runs = []
    nrep = 3 if case.get("route") not in (None, "ctor") else (2 if case.get("twice") else 1)
    for rep in range(nrep):
        if rep:
            script = via_route(rep)      # a second, independent delivery of the same script and seed
            if case.get("route") and rep == 1:
                out["loaded_seeds"].append(int(script.rng_seed))
        if case.get("refused") is not None:
            # an assignment the setter must refuse; the script is used afterwards and must be as it was before
            before_mode = script.init_state_processing
            try:
                script.init_state_processing = case["refused"]
                out["refusal"] = "accepted"
            except (ValueError, TypeError):
                out["refusal"] = "raised"
            out["mode_after_refusal"] = [before_mode, script.init_state_processing]
        eng = LibRDEngine(lib, option=case["option"], requires_molecules=(case["option"] != "euler"))
        common.draws_clear(lib)
        if case.get("route") == "simulate" and rep < 2:
            kw2 = {} if case["mode"] is None else {"init_state_processing": case["mode"]}
            traj = st.simulate(system, [0], engine=eng, time_step=1 / 64, t_max=1 / 64, sampling_policy=case["policy"],
                               rng_seed=typed_seed(), **kw2)
            draws = []
            out["loaded_seeds"] = out.get("loaded_seeds", [])[:rep] + [int(traj.script.rng_seed)]
        else:
            eng.setup(script)
            draws = common.draws_get(lib)
            traj = eng.get_output()
            eng.finalize()
        tdata = traj.data
        if case.get("units") and case["units"].get("quantity", "molecule") != "molecule":
            usm = script.units_system.copy()
            usm.quantity = "molecule"
            tdata = tdata.convert(usm)
        data = np.asarray(tdata.value, dtype=float)
        if case.get("units"):
            # back from the script's quantity unit: one rounding, removed by snapping to the nearest integer
            r = np.round(data)
            data = np.where(np.abs(data - r) <= 1e-6 * np.maximum(1.0, np.abs(data)), r, data)
        size = ns * case["n"]
        runs.append({"nsamples": int(traj.nsamples()), "x0": [float(v) for v in data[:size]],
                     "t0": float(traj.t.value[0]) if traj.nsamples() else None,
                     "draws": [[k, a, b, r] for (k, a, b, r) in draws]})
    out.update(runs[0])
    if len(runs) > 1:
        out["again"] = runs[1]["x0"]
    if len(runs) > 2:
        out["ref"] = runs[2]["x0"]
    return out


# ---------------------------------------------------------------------------------------------
# oracle (the property's own predicate, on the real code's output)
# ---------------------------------------------------------------------------------------------
def effective_mode(mode, option):
    if mode == "auto" or mode is None:
        return "none" if option == "euler" else "redist"
    return mode


def is_nonneg_int(v):
    return v >= 0 and float(v).is_integer()


def oracle(case, res):
    """returns (list of (key, what), ambiguous?)"""
    fails = []
    n, ns = case["n"], case["ns"]
    mode = case["mode"]
    if mode is not None and mode not in MODES:
        if "raised" not in res:
            fails.append(("bad-mode-accepted", "init_state_processing=%r was accepted" % mode))
        return fails, False
    if "raised" in res:
        return [("mode-rejected:%s" % mode, "documented mode %r raised %s" % (mode, res["raised"]))], False
    if mode is None:
        mode = "auto"
    if case.get("refused") is not None:
        if res.get("refusal") != "raised":
            fails.append(("bad-mode-accepted", "assigning init_state_processing=%r to a script was accepted" % case["refused"]))
        ma = res.get("mode_after_refusal")
        if ma and ma[0] != ma[1]:
            fails.append(("refused-mode-stored", "after the refused assignment of %r the script's init_state_processing reads %r (was %r)"
                          % (case["refused"], ma[1], ma[0])))
    if res.get("hang"):
        return [("hang:%s" % effective_mode(mode, case["option"]),
                 "initial-state processing did not terminate within %ss" % res.get("timeout_s"))], False
    if "crash" in res or "exception" in res:
        return [("crash", "setup crashed / raised: %s" % (res.get("crash") or res.get("exception")))], False
    x = [frac(v) for v in case["state"]]
    y = res["x0"]
    if res["nsamples"] < 1 or res["t0"] != 0.0 or len(y) != n * ns:
        return [("no-sample0", "no sample recorded at t = 0")], False
    em = effective_mode(mode, case["option"])
    ambiguous = False
    if case.get("route") and any(sd != case["seed"] for sd in res.get("loaded_seeds", [])):
        fails.append(("seed-not-kept:%s" % case["route"], "the script delivered through %s carries rng_seed %s, the given seed is %d"
                      % (case["route"], res.get("loaded_seeds"), case["seed"])))
    if "ref" in res and res["ref"] != y and em != "none":
        fails.append(("route-not-reproducing-constructor:%s" % case["route"],
                      "the script delivered through %s does not reproduce the run made with RDScript(rng_seed=%d)" % (case["route"], case["seed"])))
    if "again" in res and res["again"] != y:
        fails.append(("not-reproducible:%s" % em, "two runs with the same seed give different t = 0 states"))
    if em == "none":
        if case.get("units") or case.get("inexact"):
            same = all(common.close(v, q, rel=1e-9) for v, q in zip(y, x))
        else:
            same = [frac(v) for v in y] == x
        if not same:
            fails.append(("none-changes-state", "'none' processing changed the state"))
        return fails, False
    yf = [frac(v) for v in y]
    if not all(is_nonneg_int(v) for v in y):
        fails.append(("not-nonneg-int:%s" % em, "t = 0 state has an entry that is not a non-negative integer"))
    for p in range(n * ns):
        if x[p] == 0 and yf[p] != 0:
            fails.append(("support:%s" % em, "a molecule was placed in a cell whose real-valued amount is zero (entry %d)" % p))
            break
    if em == "redist":
        for s in range(ns):
            tot = sum(x[s * n:(s + 1) * n])
            got = sum(yf[s * n:(s + 1) * n])
            # float accumulation of the total in the engine (cell order): decidable when it is exact, or when rounding
            # cannot move it across an integer
            ftot = 0.0
            for i in range(n):
                ftot += case["state"][s * n + i]
            if frac(ftot) != tot and (math.floor(ftot) != math.floor(tot) or abs(tot - round(tot)) < Fraction(1, 10 ** 9)):
                ambiguous = True
                continue
            if got != math.floor(tot):
                fails.append(("redist-total", "species %d: total %s after redistribution, floor of the real total is %d" % (s, got, math.floor(tot))))
                break
    if em == "Poisson" and case.get("route") != "simulate":
        # layout: the draw logged with mean m must sit at an entry whose amount is m (multiset per value)
        by_val = {}
        for p in range(n * ns):
            if x[p] > 0:
                by_val.setdefault(x[p], []).append(yf[p])
        logged = {}
        for k, a, b, r in res["draws"]:
            if k != "pois":
                fails.append(("poisson-mode-draw-kind", "Poisson mode drew from %s" % k))
                break
            logged.setdefault(frac(a), []).append(frac(r))
        if not fails:
            if {v: sorted(l) for v, l in by_val.items()} != {v: sorted(l) for v, l in logged.items()}:
                fails.append(("poisson-layout", "entries are not the draws whose mean is the entry's real-valued amount"))
    return fails, ambiguous


def draw_margin_ok(case, res):
    """are all correction-loop uniforms away from the cell boundaries of the cumulated amounts?"""
    n, ns = case["n"], case["ns"]
    x = [frac(v) for v in case["state"]]
    us = [frac(r) for (k, a, b, r) in res["draws"] if k == "unif"]
    if not us:
        return True
    prefixes = []
    for s in range(ns):
        tot = sum(x[s * n:(s + 1) * n])
        if tot <= 0:
            continue
        cum = Fraction(0)
        for i in range(n):
            cum += x[s * n + i]
            prefixes.append(cum / tot)
    for u in us:
        for p in prefixes:
            if abs(u - p) < Fraction(1, 10 ** 9):
                return False
    return True


def model_op(case, res):
    draws = []
    for k, a, b, r in res["draws"]:
        if k == "pois":
            draws.append(["pois", int(r)])
        else:
            draws.append([k, rstr(r)])
    return {"op": "init_state", "mode": case["mode"] if case["mode"] is not None else "auto", "option": case["option"],
            "n": case["n"], "ns": case["ns"], "x": [rstr(v) for v in case["state"]], "draws": draws}


def compare_model(ctx, case, res, ans):
    """correspondence: model answer vs the real engine"""
    if ans is None:
        return
    small = {k: case[k] for k in ("space", "ns", "state", "mode", "option", "seed", "policy", "units") if k in case}
    if "raised" in res:
        if "error" not in ans:
            ctx.disagree("init_state", small, res, ans, note="code raises, model accepts the mode")
        return
    if "error" in ans:
        ctx.disagree("init_state", small, {"x0": res.get("x0")}, ans, note="model rejects the mode, code accepts")
        return
    if res.get("hang") or "crash" in res or "exception" in res or "x0" not in res:
        ctx.disagree("init_state", small, res, ans, note="no result from the real engine")
        return
    o = ans["ok"]
    if o == "needs-more-fuel":
        ctx.disagree("init_state", small, {"x0": res["x0"], "ndraws": len(res["draws"])}, ans,
                     note="the model needs more (or other) draws than the engine consumed")
        return
    mx = [rparse(v) for v in o["x"]]
    if (case.get("units") or case.get("inexact")) and effective_mode(case["mode"], case["option"]) == "none":
        differs = not all(common.close(v, q, rel=1e-9) for v, q in zip(res["x0"], mx))
    else:
        differs = mx != [frac(v) for v in res["x0"]]
    if differs:
        ctx.disagree("init_state", small, res["x0"], o["x"], note="sample 0 differs")
        return
    if o["used"] != len(res["draws"]):
        ctx.disagree("init_state", small, len(res["draws"]), o["used"], note="number of primitive draws differs")
        return
    logged = [(k, a, b) for (k, a, b, r) in res["draws"] if k in ("pois", "norm")]
    if len(logged) != len(o["means"]):
        ctx.disagree("init_state", small, len(logged), len(o["means"]), note="number of Poisson/normal draws differs")
        return
    for (k, a, b), (m, nrm) in zip(logged, o["means"]):
        if (k == "norm") != bool(nrm) or frac(a) != rparse(m) or (k == "norm" and not common.close(b, Fraction(math.sqrt(a)), rel=1e-12)):
            ctx.disagree("init_state", small, [k, a, b], [m, nrm], note="mean / kind of a primitive draw differs")
            return


def run(ctx):
    count = ctx.n(170, 4000)
    cases = gen_cases(ctx, count)
    chunk = 400
    n_amb = 0
    for c0 in range(0, len(cases), chunk):
        if ctx.time_left() < 10:
            ctx.notes.append("time budget reached after %d of %d cases" % (c0, len(cases)))
            break
        part = cases[c0:c0 + chunk]
        results = stoch_gen.run_batch("props.c14", "child_case", part, kind="shim", timeout=ctx.n(6, 20))
        ops, idx = [], []
        for k, (case, res) in enumerate(zip(part, results)):
            if res is None:
                continue
            em = effective_mode(case["mode"], case["option"]) if (case["mode"] in MODES or case["mode"] is None) else "rejected"
            if case["mode"] is None:
                ctx.count("default_mode_cases")
            fp = (tuple(case["state"]), case["mode"], case["option"], case["kind"], case["seed"])
            ctx.case(fp, nontrivial=any(v != 0 for v in case["state"]) or em == "rejected",
                     sample={"op": "init_state", "mode": case["mode"], "option": case["option"], "state": case["state"],
                             "impl": res.get("x0", res)})
            ctx.count("mode_" + em)
            ctx.count("option_" + case["option"])
            ctx.count("space_" + case["kind"])
            ctx.count("class_" + case["cls"])
            if res.get("draws") and any(d[0] == "norm" for d in res["draws"]):
                ctx.count("normal_branch_cases")
            if res.get("draws") and any(d[0] == "unif" for d in res["draws"]):
                ctx.count("correction_loop_cases")
                ctx.count("correction_loop_uniforms", sum(1 for d in res["draws"] if d[0] == "unif"))
            fails, amb = oracle(case, res)
            small = {k2: case[k2] for k2 in ("space", "kind", "n", "ns", "state", "mode", "option", "seed", "policy", "twice", "units", "chem", "seed_type", "route", "refused", "state_unit", "state_in_unit", "inexact") if k2 in case}
            if case.get("state_unit"):
                ctx.count("state_given_in_" + case["state_unit"])
            if case.get("refused") is not None:
                ctx.count("refused_assignment_then_run")
            if case.get("route"):
                ctx.count("seed_route_" + case["route"])
            if case.get("units"):
                ctx.count("units_quantity_" + case["units"]["quantity"])
            if case.get("chem") and any(case["chem"]):
                ctx.count("cases_with_chemostatted_entries")
            if case.get("seed_type"):
                ctx.count("seed_type_" + case["seed_type"])
            for key, what in fails:
                ctx.violation(key, what, small, impl={k2: res.get(k2) for k2 in ("x0", "hang", "crash", "exception", "raised") if k2 in res},
                              expected="C14 predicate")
            if amb:
                n_amb += 1
                ctx.count("ambiguous_total")
            if res.get("hang") or "crash" in res or "exception" in res:
                ctx.disagree("init_state", small, res, None, note="no result from the real engine")
                continue
            if "x0" in res and not draw_margin_ok(case, res):
                ctx.count("ambiguous_uniform")
                continue
            if amb or case.get("nomodel"):
                continue
            ops.append(model_op(case, res) if "raised" not in res else
                       {"op": "init_state", "mode": "auto" if case["mode"] is None else case["mode"], "option": case["option"], "n": case["n"], "ns": case["ns"],
                        "x": [rstr(v) for v in case["state"]], "draws": []})
            idx.append(k)
        answers = ctx.model.run(ops)
        for k, ans in zip(idx, answers):
            compare_model(ctx, part[k], results[k], ans)
        if sum(1 for r in results if r is not None and (r.get("hang") or "crash" in r)) >= 3:
            ctx.notes.append("stopped after three hangs / crashes of the real engine")
            break
    ctx.notes.append("termination is proved on every fair stream of uniform draws (C14.redist_terminates_on_fair_stream); that an i.i.d. "
                     "uniform stream is fair almost surely, and the distributions of the primitives, are trusted")


def replay(ctx, rec):
    case = rec.get("case", rec)
    res = stoch_gen.run_batch("props.c14", "child_case", [case], kind="shim", timeout=20)[0]
    fails, amb = oracle(case, res)
    return (not fails), {"case": case, "impl": res, "failures": fails, "ambiguous": amb}
