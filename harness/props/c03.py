"""C03 — Chemostated entries never change; everything else ignores the flag.

Theorems: lean/Strengths/Props/C03.lean (Euler / tau-leap / Gillespie steps of `Model/Engine.lean` fix flagged entries,
any number of steps; flag lookup index; kinetics / dxdtf / apply_reaction of `Model/Kinetics.lean`).
Correspondence: `dstate` with apply_chemostats, `dxdtf`, `apply_reaction`, `euler_step`, `tauleap_step`, `gillespie_step`
(draw replay) on systems with flags on every species index and cell.
Oracle on the real code: (i) every flagged entry of every sample of Euler / tau-leap / Gillespie trajectories equals sample 0
bitwise; (ii) kinetics / dxdtf derivative of a flagged entry is exactly 0 and of every other entry equals the rate law
(computed from the flagged amounts too); (iii) apply_reaction skips exactly the flagged entries; (iv) with
apply_chemostats=False the flags are ignored; (v) Euler runs whose chemostated entries hold extreme quantities (subnormal doubles,
values around the smallest normal double, 1e-280 … 1e-12, 1e30 … 1e140, either sign; two driving schedules) judged by (i), by the
rate law on the free entries and by one model `euler_step`; (vi) ONE engine object and ONE script object run several times with
the script's system edited in place in between (set_chemostat by index / label, item assignment into `chemostats`, a new map,
reset_chemostats, set_state; optionally another script of the same shape simulated in between): every run judged by (i) with the
flags tracked by the harness, by the rate law (Euler, + model `euler_step` on the current marshalling) and against the same
simulation made from scratch (Props/C03.lean `*_obeys_edited_map`).
"""
import math
from fractions import Fraction
import common
from common import frac, rstr, rparse, close
import determ_lib as L
import engine_io
from props import c01 as C1

_builtin_float = float


def float(x):  # noqa: A001 — overflow-safe: a huge exact rational becomes ±inf instead of raising OverflowError
    try:
        return _builtin_float(x)
    except OverflowError:
        return _builtin_float("inf") if x > 0 else _builtin_float("-inf")


ID = "C03"
LEAN_TARGETS = ["Strengths.Props.C03"]
PROP_FILES = ["Strengths/Props/C03.lean"]
GEN_GROUPS = ["IndexPy", "EngineCpp", "KineticsPy"]
RULE = ("random systems as in C01 with chemostat flags set globally (species chstt), per environment (chstt dict) and per cell "
        "(set_chemostat / chemostats array) on every species index (never only the first) and every cell; kinetics with "
        "apply_chemostats True/False, make_dxdtf on size-1 systems, apply_reaction with n in {1,-1,2,0.5}, trajectories of all "
        "three engines with on_iteration sampling; small directed systems whose chemostated entries hold subnormal / tiny / huge quantities "
        "(Euler, iterate and t_sample schedules); histories run / edit the map in place / run again on one engine and one script; a case is one (system, path) evaluation; non-trivial when at least one entry "
        "is flagged and at least one is not; distinct by (system fingerprint, flags, path)")
ASSUMPTIONS = C1.ASSUMPTIONS + ["chemostat flags are 0/1 (what set_chemostat / the species chstt setter store)"]
TRUSTED = C1.TRUSTED + ["RNG draw log of the shimmed engine build (harness/shim) for the step replays"]
TOL = 1e-9


def flag_system(rng, system, phys):
    """put per-cell flags on top of the species-level ones; returns (expected flag list, mode).  The expected list is
    resolved INDEPENDENTLY of the code: from the description (species chstt: own environment, else "default", else 0) and
    then the same per-cell assignments that are made on the real object"""
    n, ns = phys["n"], phys["ns"]
    exp = L.default_chem_phys(phys)
    mode = rng.choice(["keep", "keep", "cells", "cells", "array", "one", "all_but_one"])
    if mode == "cells":
        for _ in range(rng.randint(1, max(1, ns * n // 2))):
            s_, c_, v_ = rng.randrange(ns), rng.randrange(n), rng.choice([1, True, 1, 0])
            system.set_chemostat(s_, c_, v_)
            exp[s_ * n + c_] = int(v_)
    elif mode == "array":
        arr = [rng.choice([0, 0, 1]) for _ in range(ns * n)]
        system.chemostats = arr
        exp = list(arr)
    elif mode == "one":
        system.reset_chemostats()
        s_, c_ = rng.randrange(ns), rng.randrange(n)
        system.set_chemostat(s_, c_, 1)
        exp = [0] * (ns * n)
        exp[s_ * n + c_] = 1
    elif mode == "all_but_one":
        system.chemostats = [1] * (ns * n)
        s_, c_ = rng.randrange(ns), rng.randrange(n)
        system.set_chemostat(s_, c_, 0)
        exp = [1] * (ns * n)
        exp[s_ * n + c_] = 0
    return exp, mode


def flag_dict_job(rng, kind):
    """a directed system: per-environment chstt dictionaries mixing a "default" entry with explicit truthy AND falsy entries
    (explicit False under "default": True, explicit True under "default": False, a missing key with and without default);
    the expected flags are written down here by hand"""
    um, um3, um2 = Fraction(1, 10 ** 6), Fraction(1, 10 ** 18), Fraction(1, 10 ** 12)
    species = [
        {"label": "A", "density": 5, "D": 1.0, "chstt": {"default": True, "b": False}},                  # a: True (default), b: False (explicit)
        {"label": "B", "density": 2, "D": 0.5, "chstt": {"a": True, "default": False}},                  # a: True (explicit), b: False (default)
        {"label": "C", "density": 1, "D": 0.25, "chstt": {"b": rng.choice([True, 1]), "a": rng.choice([False, 0])}},   # a: False, b: True, no default
    ]
    rng.shuffle(species)
    labels = [sp["label"] for sp in species]
    flag = {"A": [True, False], "B": [True, False], "C": [False, True]}
    dens = {"A": 5, "B": 2, "C": 1}
    dco = {"A": Fraction(1), "B": Fraction(1, 2), "C": Fraction(1, 4)}
    net = {"environments": ["a", "b"], "species": species,
           "reactions": [{"eq": "%s -> %s" % (labels[0], labels[1]), "k+": 1.5}, {"eq": "%s + %s -> %s" % (labels[1], labels[2], labels[0]), "k+": 0.3}]}
    env = [0, 1, 1, 0]                # four cells, three species: a flat index computed with the wrong stride shows
    if kind == "grid":
        space = {"type": "grid", "w": 4, "h": 1, "d": 1, "cell_env": env}
        pspace = {"kind": "grid", "w": 4, "h": 1, "d": 1, "px": False, "py": False, "pz": False}
    else:
        space = {"type": "graph", "nodes": [{"environment": e} for e in env], "edges": [{"nodes": [0, 1]}, {"nodes": [2, 1]}, {"nodes": [3, 2]}]}
        pspace = {"kind": "graph", "edges": [(0, 1, um2, um), (2, 1, um2, um), (3, 2, um2, um)]}
    desc = {"network": net, "space": space}
    idx = {lab: k for k, lab in enumerate(labels)}
    def vec(*labs):
        v = [0, 0, 0]
        for lab in labs:
            v[idx[lab]] += 1
        return v
    phys = {"ns": 3, "n": 4, "labels": labels, "envs": ["a", "b"],
            "reacs": [{"sub": vec(labels[0]), "prod": vec(labels[1]), "kf": [Fraction(3, 2)] * 2, "kr": [Fraction(0)] * 2},
                      {"sub": vec(labels[1], labels[2]), "prod": vec(labels[0]), "kf": [Fraction(3, 10) * um3] * 2, "kr": [Fraction(0)] * 2}],
            "env": env, "vol": [um3] * 4, "edge": [um] * 4, "D": [[dco[lab] * um2] * 2 for lab in labels],
            "dens": [[Fraction(dens[lab]) / um3] * 2 for lab in labels], "chem_env": [flag[lab] for lab in labels], "space": pspace}
    system = L.build_system(desc)
    exp = L.default_chem_phys(phys)
    vals = [float(rng.choice([1, 2, 3, 5, 8, 20])) for _ in range(12)]
    C1.set_state(system, vals, L.DEFAULT_SYS, False)
    return {"desc": desc, "phys": phys, "info": {"kind": kind, "directed": "flag-dicts"}, "system": system, "x_si": L.state_si(system.state),
            "chem": exp, "exp_chem": exp, "real_chem": [int(v) for v in system.chemostats], "chem_mode": "keep",
            "state": {"vals": vals, "units": list(L.DEFAULT_SYS), "as_unitarray": False}, "U": L.rand_sys(rng), "Uscript": L.DEFAULT_SYS,
            "dt_nat": Fraction(1, 256), "parallel": False, "integer_state": True}


def make_job(ctx, rng, kind, size1=False, integer_state=False):
    desc, phys, info = L.gen_system(rng, kind=kind, max_cells=1 if size1 else ctx.n(6, 16), chem_p=0.5, max_order=2 if integer_state else 4,
                                    non_growing=integer_state, min_env=(2 if (size1 and rng.random() < 0.6) else 1))
    system = L.build_system(desc)
    chem, mode = flag_system(rng, system, phys)
    us = ("µm", "s", "molecule") if integer_state else L.rand_sys(rng)
    if integer_state:
        vals = [float(rng.choice([0, 1, 2, 3, 5, 8, 20])) for _ in range(phys["ns"] * phys["n"])]
    else:
        vals, _ = L.rand_state(rng, phys, us)
    as_ua = rng.random() < 0.5
    C1.set_state(system, vals, us, as_ua)
    real = [int(v) for v in system.chemostats]
    return {"desc": desc, "phys": phys, "info": info, "system": system, "x_si": L.state_si(system.state), "chem": chem, "exp_chem": chem,
            "real_chem": real, "chem_mode": mode,
            "state": {"vals": vals, "units": list(us), "as_unitarray": as_ua}, "U": L.rand_sys(rng), "Uscript": L.rand_sys(rng),
            "dt_nat": rng.choice([Fraction(1, 64), Fraction(1, 256)]), "parallel": L.has_parallel_edges(phys)}


def flagged_substrate_job(ctx, rng):
    """directed: a one-cell system (the make_dxdtf route) in which a chemostated species is a SUBSTRATE of a reaction with a
    non-zero constant and a free species takes part in it — the flagged entry still acts as a reactant (rejection sampling)"""
    jb = None
    for _ in range(60):
        jb = make_job(ctx, rng, rng.choice(["grid", "graph"]), size1=True, integer_state=False)
        phys, chem = jb["phys"], jb["chem"]
        e0 = phys["env"][0]
        for r in phys["reacs"]:
            fwd = r["kf"][e0] != 0 and any(c > 0 and chem[sp] for sp, c in enumerate(r["sub"]))
            bwd = r["kr"][e0] != 0 and any(c > 0 and chem[sp] for sp, c in enumerate(r["prod"]))
            free = any((r["sub"][sp] != r["prod"][sp]) and not chem[sp] for sp in range(phys["ns"]))
            if (fwd or bwd) and free and all(v != 0 for sp, v in enumerate(jb["x_si"]) if chem[sp]):
                ctx.count("directed_flagged_substrate")
                jb["integer_state"] = False
                jb["U"] = L.DEFAULT_SYS          # make_dxdtf in µm / s / molecule: moderate, non-integral rates
                return jb
    jb["integer_state"] = False
    return jb


def base_case(jb, kind):
    return {"kind": kind, "desc": jb["desc"], "phys": C1.phys_dump(jb["phys"]), "state": jb["state"], "chem": jb["chem"], "chem_mode": jb["chem_mode"],
            "U": list(jb["U"])}


def restore(case):
    phys = C1.phys_load(case["phys"])
    system = L.build_system(case["desc"])
    if case.get("chem_mode", "array") != "keep":
        system.chemostats = list(case["chem"])      # per-cell assignments; with "keep" the map is the one the description builds
    st_ = case["state"]
    C1.set_state(system, st_["vals"], tuple(st_["units"]), st_["as_unitarray"])
    return phys, system


TRUTHY_FORMS = ["True", "1", "numpy.True_", "numpy.any(chemostats)"]
FALSY_FORMS = ["False", "0", "numpy.False_"]


def apply_value(form, system):
    """the object handed to `apply_chemostats`: any truthy / falsy value must do (`numpy.any(chemostats)` is only used when
    some entry is flagged, so that it is truthy)"""
    import numpy
    return {"True": True, "1": 1, "numpy.True_": numpy.True_, "False": False, "0": 0, "numpy.False_": numpy.False_,
            "numpy.any(chemostats)": numpy.any(numpy.asarray(system.chemostats) != 0)}[form]


# ------------------------------------------------------------------------------------------------ kinetics
def check_kinetics(ctx, jobs):
    ops = []
    for jb in jobs:
        jb["sysj"] = L.sys_json(jb["system"], edges_si=jb["phys"]["edge"])
        xs = [rstr(v) for v in jb["x_si"]]
        ops.append({"op": "dstate", "sys": jb["sysj"], "x": xs, "apply_chem": True})
    res = ctx.model.run(ops)
    for jb, m in zip(jobs, res):
        phys, system, x, U, chem = jb["phys"], jb["system"], jb["x_si"], jb["U"], jb["chem"]
        n, ns = phys["n"], phys["ns"]
        orc = L.oracle_rate(phys, x)
        fp = (C1.fingerprint(jb["desc"]), tuple(chem))
        ctx.count("flags_" + jb["chem_mode"])
        ctx.count("flagged_entries", sum(chem))
        ctx.count("unflagged_entries", len(chem) - sum(chem))
        for s in range(ns):
            ctx.count("flag_on_species_%d" % s, sum(chem[s * n:(s + 1) * n]))
        nontriv = 0 < sum(chem) < len(chem)
        for s in range(ns):
            for i in range(n):
                e = s * n + i
                form = TRUTHY_FORMS[(e + len(chem)) % (4 if sum(jb["real_chem"]) else 3)]
                ctx.count("apply_chemostats=" + form)
                case = dict(base_case(jb, "kinetics"), s=s, i=i, apply=True, apply_form=form)
                got = C1.kinetics_entry(system, s, i, apply_value(form, system), U)
                ctx.case((fp, "kin", e), nontrivial=nontriv,
                         sample={"op": "compute_dspeciesdt(apply_chemostats=True)", "flag": chem[e], "impl": None if got[0] == "error" else float(got[0]),
                                 "rate": float(orc[e][0])})
                exp, mag = orc[e]
                no_terms = C1.py_has_no_terms(phys, i)
                if chem[e]:
                    if got[0] == "error":
                        ctx.violation("chem-kinetics:raises", "compute_dspeciesdt raised %s on a chemostated entry" % got[1], case, impl=got[1], expected="0")
                    elif got[0] != 0 or tuple(got[1]) != L.D_RATE:
                        ctx.violation("chem-kinetics:flagged-nonzero",
                                      "compute_dspeciesdt(apply_chemostats=%s) of the chemostated entry (species %d, cell %d) is %r %s, not 0 amount/time"
                                      % (form, s, i, float(got[0]), got[1]), case, impl=float(got[0]), expected="0")
                elif not jb["parallel"]:
                    C1.check_entry(ctx, got, exp, mag, U, case, "chem-kinetics:unflagged", "compute_dspeciesdt(apply_chemostats=True) of the free entry (species %d, cell %d)" % (s, i))
                if m is not None and not C1.model_entry_matches(got, m["ok"]["entries"][e], mag):
                    ctx.disagree("dstate", case, None if got[0] == "error" else float(got[0]), m["ok"]["entries"][e])
                # the flag is ignored when apply_chemostats=False
                if chem[e] and not jb["parallel"]:
                    form2 = FALSY_FORMS[e % 3]
                    got2 = C1.kinetics_entry(system, s, i, apply_value(form2, system), U)
                    if True:
                        C1.check_entry(ctx, got2, exp, mag, U, dict(case, apply=False, apply_form=form2), "chem-kinetics:ignore-flag",
                                       "compute_dspeciesdt(apply_chemostats=False) of the flagged entry (species %d, cell %d)" % (s, i))
        # ---- the whole-state function: every free entry follows the rate law, also for a species flagged in SOME cells only
        partial = [s for s in range(ns) if 0 < sum(chem[s * n:(s + 1) * n]) < n]
        ctx.count("species_flagged_in_some_cells_only", len(partial))
        case = dict(base_case(jb, "dstatedt"), apply=True)
        vals = whole_dstatedt(system, U)
        ctx.case((fp, "whole"), nontrivial=bool(partial), sample={"op": "compute_dstatedt", "species_flagged_in_some_cells_only": partial})
        if vals[0] == "error":
            ctx.violation("chem-dstatedt:raises", "compute_dstatedt raised %s" % vals[1], case, impl=vals[1])
        else:
            for e in range(ns * n):
                s_, i_ = e // n, e % n
                if chem[e]:
                    if vals[0][e] != 0:
                        ctx.violation("chem-dstatedt:flagged-nonzero", "compute_dstatedt: the chemostated entry %d (species %d, cell %d) is %r, not 0"
                                      % (e, s_, i_, float(vals[0][e])), dict(case, e=e), impl=float(vals[0][e]), expected="0")
                        break
                elif not jb["parallel"]:
                    exp, mag = orc[e]
                    what = "compute_dstatedt entry %d (species %d, cell %d: free; the species is chemostated in %d of the %d cells)" % (
                        e, s_, i_, sum(chem[s_ * n:(s_ + 1) * n]), n)
                    if not C1.check_entry(ctx, (vals[0][e], vals[1], vals[2]), exp, mag, U, dict(case, e=e), "chem-dstatedt:unflagged", what):
                        break


def whole_dstatedt(system, U):
    """compute_dstatedt(apply_chemostats=True) as (SI values, dim, system) or ('error', type)"""
    import strengths.kinetics as kin
    try:
        arr = kin.compute_dstatedt(system, None, True, L.us_obj(U))
        f = L.si_factor(L.sys_of(arr.units.sys), L.dim_of(arr.units.dim))
        return ([Fraction(float(v)) * f for v in arr.value], L.dim_of(arr.units.dim), L.sys_of(arr.units.sys))
    except Exception as ex:  # noqa
        return ("error", type(ex).__name__)


# ------------------------------------------------------------------------------------------------ dxdtf
def check_dxdtf(ctx, jobs):
    # C01's routine already applies the oracle "flagged -> exactly 0 (mag 0), free -> rate"
    C1.run_dxdtf(ctx, jobs)


# ------------------------------------------------------------------------------------------------ apply_reaction
def check_apply_reaction(ctx, jobs):
    ops, meta = [], []
    for jb in jobs:
        phys, system = jb["phys"], jb["system"]
        if not phys["reacs"]:
            continue
        rng = ctx.rng
        r = rng.randrange(len(phys["reacs"]))
        i = rng.randrange(phys["n"])
        nn = rng.choice([1, -1, 2, 0.5, 3])
        su = L.sys_of(system.state.units.sys)
        mol = L.si_factor(su, L.D_QTY)
        x0 = [float(v) for v in system.state.value]
        ops.append({"op": "apply_reaction", "sys": jb["sysj"], "r": r, "i": i, "n": rstr(nn), "mol_per_unit": rstr(mol), "x": [rstr(v) for v in x0]})
        meta.append((jb, r, i, nn, mol, x0))
    res = ctx.model.run(ops)
    for (jb, r, i, nn, mol, x0), m in zip(meta, res):
        phys, system, chem = jb["phys"], jb["system"], jb["chem"]
        n, ns = phys["n"], phys["ns"]
        case = dict(base_case(jb, "apply_reaction"), r=r, i=i, n=nn)
        try:
            out = system.apply_reaction(r, position=i, n=nn)
            x1 = [float(v) for v in out.value]
            same_units = L.sys_of(out.units.sys) == L.sys_of(system.state.units.sys)
        except Exception as ex:  # noqa
            ctx.violation("apply-reaction:raises", "apply_reaction raised %s" % type(ex).__name__, case, impl=type(ex).__name__)
            continue
        ctx.case((C1.fingerprint(jb["desc"]), tuple(chem), "apply", r, i, nn), nontrivial=0 < sum(chem) < len(chem),
                 sample={"op": "apply_reaction", "r": r, "cell": i, "n": nn, "x0": x0[:6], "x1": x1[:6], "chem": chem[:6]})
        ctx.count("apply_reaction")
        rr = phys["reacs"][r]
        for e in range(ns * n):
            s, c = divmod(e, n)
            if c != i or chem[e]:
                exp = Fraction(x0[e])          # untouched (other cell, or chemostated entry): bitwise
                if x1[e] != x0[e]:
                    what = "chemostated entry" if chem[e] else "entry of another cell"
                    ctx.violation("apply-reaction:" + ("flagged-changed" if chem[e] else "other-cell"),
                                  "apply_reaction changed the %s (species %d, cell %d): %r -> %r" % (what, s, c, x0[e], x1[e]), dict(case, e=e),
                                  impl=x1[e], expected=x0[e])
                    break
            else:
                exp = Fraction(x0[e]) + Fraction(rr["prod"][s] - rr["sub"][s]) * Fraction(nn) / mol
                if not close(x1[e], exp, abs(Fraction(x0[e])) + abs(exp), rel=1e-12):
                    ctx.violation("apply-reaction:free-value", "apply_reaction gives %r for the free entry (species %d, cell %d), expected %r" % (x1[e], s, c, float(exp)),
                                  dict(case, e=e), impl=x1[e], expected=rstr(exp))
                    break
        if not same_units:
            ctx.violation("apply-reaction:units", "apply_reaction returned the state in another units system", case)
        if m is not None:
            if "error" in m:
                ctx.disagree("apply_reaction", case, x1, m)
            else:
                mv = [rparse(v) for v in m["ok"]]
                if len(mv) != len(x1) or not all(close(a, b, abs(Fraction(c)) + abs(b), rel=1e-12) for a, b, c in zip(x1, mv, x0)):
                    ctx.disagree("apply_reaction", case, x1, m["ok"])


# ------------------------------------------------------------------------------------------------ trajectories
def run_engine(system, option, script_units, dt_nat, nsteps, seed, with_draws):
    import strengths as st
    dt = L.nice_float(Fraction(dt_nat) / L.si_factor(script_units, L.D_TIME))
    script = st.RDScript(system, t_sample=[0], time_step=dt, t_max=dt * (nsteps + 2) if option != "gillespie" else 1e300,
                         sampling_policy="on_iteration", rng_seed=seed, units_system=L.us_obj(script_units))
    eng = common.load_engine(option, "shim" if with_draws else "plain")
    if with_draws:
        common.draws_clear(eng._lib)
    eng.setup(script)
    k = 0
    while k < nsteps and eng.iterate():
        k += 1
    out = eng.get_output()
    draws = common.draws_get(eng._lib) if with_draws else None
    eng.finalize()
    return script, out, draws


def stable_tau(phys):
    """a tau-leap time step (s) that moves at most ~1/8 of the molecules of any entry per step by diffusion
    (the engine does not guard against negative populations: larger steps oscillate, explode and finally hang
    inside std::poisson_distribution — input outside the property)"""
    kmax = Fraction(0)
    for s in range(phys["ns"]):
        for i in range(phys["n"]):
            out = Fraction(0)
            for (j, S, d) in L.faces_of(phys, i):
                out += L.dbar(phys["edge"][i], phys["edge"][j], phys["D"][s][phys["env"][i]], phys["D"][s][phys["env"][j]]) * S / (d * phys["vol"][i])
            kmax = max(kmax, out)
    dt = Fraction(1, 16)
    while kmax * dt > Fraction(1, 8):
        dt /= 2
    return dt


def check_trajectories(ctx, jobs, replay_steps):
    """oracle (i) on all engines + step correspondences"""
    for jb in jobs:
        phys, system, chem = jb["phys"], jb["system"], jb["chem"]
        n, ns = phys["n"], phys["ns"]
        fp = (C1.fingerprint(jb["desc"]), tuple(chem))
        for option in ("euler", "tauleap", "gillespie"):
            if option != "euler" and not jb.get("integer_state"):
                continue
            nsteps = ctx.rng.choice([3, 8, 25]) if option != "gillespie" else ctx.rng.choice([20, 60])
            # stochastic engines: a time step large enough for events to happen in every run
            dt_nat = jb["dt_nat"] if option == "euler" else stable_tau(phys)
            seed = ctx.rng.randrange(1, 2 ** 31 - 1)
            Us = jb["Uscript"] if option == "euler" else ("µm", "s", "molecule")
            case = dict(base_case(jb, "trajectory"), option=option, nsteps=nsteps, seed=seed, Uscript=list(Us), dt_nat=rstr(dt_nat))
            try:
                script, traj, draws = run_engine(system, option, Us, dt_nat, nsteps, seed, with_draws=(option != "euler"))
            except Exception as ex:  # noqa
                ctx.violation("chem-traj:raises", "%s run raised %s" % (option, type(ex).__name__), case, impl=type(ex).__name__)
                continue
            ss = engine_io.samples(traj)
            ctx.case((fp, "traj", option, nsteps, seed), nontrivial=(0 < sum(chem) < len(chem)) and len(ss) > 1,
                     sample={"op": "trajectory", "engine": option, "samples": len(ss), "flagged": sum(chem)})
            ctx.count("traj_" + option)
            ctx.count("samples_" + option, len(ss))
            bad = None
            for k in range(1, len(ss)):
                for e in range(ns * n):
                    if chem[e] and ss[k][1][e] != ss[0][1][e]:
                        bad = (k, e)
                        break
                if bad:
                    break
            if bad:
                k, e = bad
                ctx.violation("chem-traj:" + option, "%s: the chemostated entry %d (species %d, cell %d) is %r in sample %d but %r in sample 0"
                              % (option, e, e // n, e % n, ss[k][1][e], k, ss[0][1][e]), dict(case, sample=k, e=e), impl=ss[k][1][e], expected=ss[0][1][e])
                continue
            changed = any(ss[k][1][e] != ss[0][1][e] for k in range(1, len(ss)) for e in range(ns * n) if not chem[e])
            ctx.count("traj_free_entries_moved" if changed else "traj_nothing_moved")
            # ---- unflagged entries follow the rate law / the model step
            if option == "euler":
                fq = L.si_factor(L.sys_of(traj.data.units.sys), L.D_QTY)
                dt_si = Fraction(float(script.time_step.value)) * L.si_factor(L.sys_of(script.time_step.units.sys), L.D_TIME)
                for kstep in range(min(len(ss) - 1, 3)):
                    if not all(abs(v) < 1e150 for v in ss[kstep][1] + ss[kstep + 1][1]):
                        ctx.count("euler_blowup_skipped")     # explicit Euler with a coarse step diverged (inf/nan): nothing to compare
                        break
                    x0 = [Fraction(v) * fq for v in ss[kstep][1]]
                    x1 = [Fraction(v) * fq for v in ss[kstep + 1][1]]
                    orc = L.oracle_rate(phys, x0)
                    for e in range(ns * n):
                        if chem[e]:
                            continue
                        exp = x0[e] + dt_si * orc[e][0]
                        if not close(float(x1[e]), exp, abs(x0[e]) + dt_si * orc[e][1], rel=TOL):
                            ctx.violation("chem-euler:unflagged", "Euler sample %d: free entry %d is %r, x0 + dt*rate(x0) = %r (flagged amounts act as reactants / diffusion partners)"
                                          % (kstep + 1, e, float(x1[e]), float(exp)), dict(case, step=kstep, e=e), impl=float(x1[e]), expected=rstr(exp))
                            break
            elif replay_steps:
                replay_stochastic(ctx, jb, option, script, ss, draws, case)


def replay_stochastic(ctx, jb, option, script, ss, draws, case):
    """every recorded step of the real engine against one model step from the recorded state with the logged draws"""
    arr = engine_io.system_arrays(script, True)
    eng = engine_io.eng_json(arr)
    nsteps = len(ss) - 1
    dt = float(script.time_step.convert(arr["us"]).value)
    if nsteps <= 0:
        return
    if option == "tauleap":
        res = ctx.model.run([{"op": "tauleap_means", "eng": eng, "x": [rstr(v) for v in ss[k][1]], "dt": rstr(dt)} for k in range(nsteps)])
        if res[0] is None:
            return
        means = [[rparse(v) for v in r["ok"]] for r in res]
        ndraw = sum(sum(1 for m in ms if m > 0) for ms in means)
        step_draws = draws[len(draws) - ndraw:] if ndraw else []
        if len(draws) < ndraw or not all(d[0] == "pois" for d in step_draws):
            ctx.disagree("tauleap_step", case, "draw log has %d draws" % len(draws), "model expects %d Poisson draws" % ndraw)
            return
        ops, p = [], 0
        for k in range(nsteps):
            npos = sum(1 for m in means[k] if m > 0)
            dd = step_draws[p:p + npos]
            p += npos
            for d, m in zip(dd, [m for m in means[k] if m > 0]):
                if not close(d[1], m, rel=1e-9):
                    ctx.disagree("tauleap_means", dict(case, step=k), d[1], rstr(m))
                    return
            ops.append({"op": "tauleap_step", "eng": eng, "x": [rstr(v) for v in ss[k][1]], "draws": [int(d[3]) for d in dd], "dt": rstr(dt)})
        res = ctx.model.run(ops)
        for k, r in enumerate(res):
            ctx.count("tauleap_steps_replayed")
            if "ok" not in r or [rparse(v) for v in r["ok"]] != [frac(v) for v in ss[k + 1][1]]:
                ctx.disagree("tauleap_step", dict(case, step=k), ss[k + 1][1], r)
                return
    else:
        step_draws = draws[len(draws) - 2 * nsteps:]
        if len(draws) < 2 * nsteps or not all(d[0] == "unif" for d in step_draws):
            ctx.disagree("gillespie_step", case, "draw log has %d draws" % len(draws), "model expects %d uniform draws" % (2 * nsteps))
            return
        ops = []
        for k in range(nsteps):
            u1, u2 = step_draws[2 * k][3], step_draws[2 * k + 1][3]
            ops.append({"op": "gillespie_step", "eng": eng, "x": [rstr(v) for v in ss[k][1]], "u1": rstr(u1), "L": rstr(math.log(1 / u2))})
        res = ctx.model.run(ops)
        for k, r in enumerate(res):
            if r is None:
                return
            ctx.count("gillespie_steps_replayed")
            o = r["ok"]
            if o.get("complete"):
                ctx.disagree("gillespie_step", dict(case, step=k), ss[k + 1][1], "model: a0 = 0, no step")
                return
            if [rparse(v) for v in o["x"]] != [frac(v) for v in ss[k + 1][1]]:
                # selection by a uniform draw is discontinuous: skip when the draw is within 1e-6 of a boundary (cannot tell here) -> count
                ctx.count("gillespie_state_diff")
                ctx.disagree("gillespie_step", dict(case, step=k), ss[k + 1][1], o["x"])
                return


RESERVOIRS = [1000, 2 ** 24 + 1, 5 * 10 ** 9 + 1]      # molecules in the chemostated entry: small, above 2^24 (odd), above 2^31 (odd)


def scenario_eval(case):
    """build and run one scenario on the real engine; returns (holds, what-failed or None, detail)"""
    import math
    ns, f, p, scen, kind, option = case["ns"], case["flagged"], case["product"], case["scenario"], case["space"], case["option"]
    N, k, nsteps = case["N"], case["k"], case["nsteps"]
    labels = L.LABELS[:ns]
    if scen == "small-substrate":
        return small_substrate_eval(case)
    if scen == "sink":
        return sink_eval(case)
    if scen == "flagged-multimer":
        return multimer_eval(case)
    species = [{"label": lab, "D": (1.0 if scen == "source" else 0.0), "density": 0} for lab in labels]
    net = {"species": species, "reactions": [{"eq": "%s -> %s" % (labels[f], labels[p]), "k+": k}] if scen == "reactant" else []}
    space = {"type": "grid", "w": 2, "h": 1, "d": 1} if kind == "grid" else {"type": "graph", "nodes": [{}, {}], "edges": [{"nodes": [0, 1]}]}
    system = L.build_system({"network": net, "space": space})
    n = 2
    x = [0.0] * (ns * n)
    x[f * n] = float(N)
    system.state = x
    system.reset_chemostats()
    system.set_chemostat(f, 0, 1)
    if scen == "reactant":
        system.set_chemostat(f, 1, 1)
    chem = [int(v) for v in system.chemostats]
    dt = Fraction(1, 16)
    script, traj, _ = run_engine(system, option, L.DEFAULT_SYS, dt, nsteps, case["seed"], False)
    ss = engine_io.samples(traj)
    last = ss[-1][1]
    target = (f * n + 1) if scen == "source" else (p * n)
    detail = {"first": ss[0][1], "last": last, "chem": chem, "iterations": len(ss) - 1, "watched_entry": target}
    if any(ss[j][1][e] != ss[0][1][e] for j in range(len(ss)) for e in range(ns * n) if chem[e]):
        return False, "a chemostated entry changed", detail
    if scen == "source":
        if not last[target] > 0:
            return False, ("the free cell next to a chemostated cell holding %d molecules (D = 1) is still empty after %d iterations: "
                           "the flagged entry does not act as a diffusion source" % (N, len(ss) - 1)), detail
        return True, None, detail
    # reactant: flagged A (N molecules, constant) -> free B with constant k: B grows at the constant rate k*N
    got = last[target]
    if option == "euler":
        exp = float(nsteps * dt) * k * N
        detail["expected"] = exp
        if not close(got, Fraction(exp), rel=1e-9):
            return False, "Euler: the product of the chemostated reactant is %r after %d steps, k*N*t = %r" % (got, nsteps, exp), detail
    elif option == "tauleap":
        exp = float(nsteps * dt) * k * N
        detail["expected_mean"] = exp
        if not (got > 0 and abs(got - exp) <= 8 * math.sqrt(exp) + 1):
            return False, ("tau-leap: the product of the chemostated reactant (%d molecules, k = %r) is %r after %d steps; the expected number of "
                           "firings is %r (a count this far off has probability < 1e-12): the flagged entry does not act as a reactant" % (N, k, got, nsteps, exp)), detail
    else:
        detail["expected"] = nsteps
        if len(ss) - 1 != nsteps or got != nsteps:
            return False, ("Gillespie: %d iterations recorded and %r product molecules after %d requested iterations; the only possible event is the "
                           "conversion of the chemostated reactant (%d molecules, propensity k*N = %r > 0), one per iteration"
                           % (len(ss) - 1, got, nsteps, N, k * N)), detail
    return True, None, detail


def small_substrate_eval(case):
    """A + B -> C with A chemostated at 5 molecules, B = 10^6 free, k*A*B/V*dt = 50 firings per leap: the flagged entry is
    replenished, so the 5 molecules it shows do not bound the number of firings of one leap (C grows by ~50 per leap)."""
    import math
    ns, f, kind, option, nsteps = case["ns"], case["flagged"], case["space"], case["option"], case["nsteps"]
    A, B, k = case["N"], case["B"], case["k"]
    labels = L.LABELS[:ns]
    a, b, c = f, (f + 1) % ns, (f + 2) % ns
    species = [{"label": lab, "D": 0.0, "density": 0} for lab in labels]
    net = {"species": species, "reactions": [{"eq": "%s + %s -> %s" % (labels[a], labels[b], labels[c]), "k+": k}]}
    space = {"type": "grid", "w": 2, "h": 1, "d": 1, "cell_volume": "1 µm3"} if kind == "grid" else \
        {"type": "graph", "nodes": [{"volume": "1 µm3"}, {"volume": "1 µm3"}], "edges": [{"nodes": [0, 1]}]}
    system = L.build_system({"network": net, "space": space})
    n = 2
    x = [0.0] * (ns * n)
    x[a * n] = float(A)
    x[b * n] = float(B)
    system.state = x
    system.reset_chemostats()
    system.set_chemostat(a, 0, 1)
    chem = [int(v) for v in system.chemostats]
    dt = Fraction(1, 16)
    script, traj, _ = run_engine(system, option, L.DEFAULT_SYS, dt, nsteps, case["seed"], False)
    ss = engine_io.samples(traj)
    last = ss[-1][1]
    target = c * n
    per_leap = float(dt) * k * A * B            # cell volume 1 µm3, default units (µm, s, molecule)
    detail = {"first": ss[0][1], "last": last, "chem": chem, "iterations": len(ss) - 1, "watched_entry": target}
    if any(ss[j][1][e] != ss[0][1][e] for j in range(len(ss)) for e in range(ns * n) if chem[e]):
        return False, "a chemostated entry changed", detail
    got = last[target]
    if option == "euler":
        exp = per_leap                          # one step from the initial state: exact
        detail["expected"] = exp
        if not close(ss[1][1][target], Fraction(exp), rel=1e-9):
            return False, "Euler: the product is %r after one step, dt*k*A*B/V = %r" % (ss[1][1][target], exp), detail
        return True, None, detail
    exp = nsteps * per_leap                     # B loses < 0.1 %% over the run
    detail["expected_mean"] = exp
    if not (got > 0 and abs(got - exp) <= 8 * math.sqrt(exp) + 1 + 0.002 * exp):
        return False, ("tau-leap: %s + %s -> %s with the chemostated substrate held at %d molecules and %d molecules of the other: the product is %r "
                       "after %d leaps; the rate law prescribes %r firings per leap, %r in all (a count this far off has probability < 1e-12): "
                       "the amount shown by a chemostated entry must not bound the firings of a leap"
                       % (labels[a], labels[b], labels[c], A, B, got, nsteps, per_leap, exp)), detail
    return True, None, detail


def multimer_eval(case):
    """m A -> B (m = 2 or 3) with A chemostated at m-1 molecules: the flag exempts the entry from the change, not from the
    propensity — fewer molecules than the coefficient means the reaction is impossible (combinatorial count 0), flagged or not.
    The stochastic engines must never produce B; the unflagged twin (same state, no flag) must not either."""
    ns, f, p, kind, option, nsteps = case["ns"], case["flagged"], case["product"], case["space"], case["option"], case["nsteps"]
    m, k = case["m"], case["k"]
    labels = L.LABELS[:ns]
    species = [{"label": lab, "D": 0.0, "density": 0} for lab in labels]
    net = {"species": species, "reactions": [{"eq": "%d %s -> %s" % (m, labels[f], labels[p]), "k+": k}]}
    space = {"type": "grid", "w": 2, "h": 1, "d": 1, "cell_volume": "1 µm3"} if kind == "grid" else \
        {"type": "graph", "nodes": [{"volume": "1 µm3"}, {"volume": "1 µm3"}], "edges": [{"nodes": [0, 1]}]}
    n = 2
    out = {}
    for flagged in (True, False):
        system = L.build_system({"network": net, "space": space})
        x = [0.0] * (ns * n)
        x[f * n] = float(m - 1)            # one occupied cell only: the initial-state redistribution keeps it there
        system.state = x
        system.reset_chemostats()
        if flagged:
            system.set_chemostat(f, 0, 1)
        script, traj, _ = run_engine(system, option, L.DEFAULT_SYS, Fraction(1, 16), nsteps, case["seed"], False)
        ss = engine_io.samples(traj)
        out[flagged] = ss
    ss = out[True]
    last = ss[-1][1]
    detail = {"first": ss[0][1], "last": last, "unflagged_last": out[False][-1][1], "iterations": len(ss) - 1, "watched_entry": p * n}
    if out[False][-1][1][p * n] != 0 or out[False][-1][1][p * n + 1] != 0:
        return False, ("%d %s -> %s with %d molecule(s) of %s (no flag): %r product molecules appeared although the reaction needs %d reactant molecules"
                       % (m, labels[f], labels[p], m - 1, labels[f], out[False][-1][1][p * n], m)), detail
    if last[p * n] != 0:
        return False, ("%s: %d %s -> %s with %s chemostated at %d molecule(s): %r product molecules after %d iterations; the unflagged twin produces none "
                       "(combinatorial count %s = 0): the propensity of a reaction must not depend on the flag of its reactant"
                       % (option, m, labels[f], labels[p], labels[f], m - 1, last[p * n], len(ss) - 1,
                          "*".join(str(m - 1 - j) for j in range(m)))), detail
    return True, None, detail


def sink_eval(case):
    """a free cell holding N molecules next to a chemostated cell holding 5 (D = 1 µm2/s, 1 µm cells: first-order constant 1/s
    for leaving through the face): molecules jump INTO the chemostated cell as anywhere else, the free cell drains"""
    import math
    ns, f, kind, option, nsteps, N = case["ns"], case["flagged"], case["space"], case["option"], case["nsteps"], case["N"]
    labels = L.LABELS[:ns]
    species = [{"label": lab, "D": 1.0, "density": 0} for lab in labels]
    space = {"type": "grid", "w": 2, "h": 1, "d": 1} if kind == "grid" else {"type": "graph", "nodes": [{}, {}], "edges": [{"nodes": [0, 1]}]}
    system = L.build_system({"network": {"species": species, "reactions": []}, "space": space})
    n = 2
    x = [0.0] * (ns * n)
    x[f * n] = 5.0
    x[f * n + 1] = float(N)
    system.state = x
    system.reset_chemostats()
    system.set_chemostat(f, 0, 1)
    chem = [int(v) for v in system.chemostats]
    dt = Fraction(1, 16)
    script, traj, _ = run_engine(system, option, L.DEFAULT_SYS, dt, nsteps, case["seed"], False)
    ss = engine_io.samples(traj)
    last = ss[-1][1]
    target = f * n + 1
    detail = {"first": ss[0][1], "last": last, "chem": chem, "iterations": len(ss) - 1, "watched_entry": target}
    if any(ss[j][1][e] != ss[0][1][e] for j in range(len(ss)) for e in range(ns * n) if chem[e]):
        return False, "a chemostated entry changed", detail
    steps = len(ss) - 1
    keep = float((1 - dt) ** steps)
    exp = N * keep + 5 * (1 - keep)              # linear first-order exchange with a constant neighbour
    detail["expected" if option == "euler" else "expected_mean"] = exp
    got = last[target]
    if option == "euler":
        if not close(got, Fraction(exp), rel=1e-9):
            return False, "Euler: the free cell next to the chemostated cell holds %r after %d steps, the rate law gives %r" % (got, steps, exp), detail
        return True, None, detail
    if abs(got - exp) > 8 * math.sqrt(N - exp + 5) + 5:
        return False, ("tau-leap: the free cell (%d molecules) next to a chemostated cell (5 molecules) holds %r after %d leaps; first-order diffusion into the "
                       "chemostated cell leaves %r on average (a count this far off has probability < 1e-12): jumps toward a chemostated cell must still "
                       "be drawn and removed from the source" % (N, got, steps, exp)), detail
    return True, None, detail


def source_scenarios(ctx):
    """a flagged entry still drives its surroundings, on the real engines: (a) diffusion source — a chemostated cell full of
    molecules next to an empty free cell must fill it; (b) reactant — a chemostated species converts into a free product at the
    rate k*N (Euler: exactly; tau-leap: Poisson with mean k*N*t >= 50; Gillespie: one firing per iteration).  The flagged
    species sits at a random species index; grid and graph; all three engines; reservoirs of 1000, 2^24+1 and 5e9+1 molecules
    (above the float32 mantissa and above a C int)."""
    rng = ctx.rng
    for kind in ("grid", "graph"):
        for option in ("euler", "tauleap", "gillespie"):
            for scen, N in [("source", 1000)] + [("reactant", N) for N in RESERVOIRS] + ([("small-substrate", 5), ("sink", 2000)] if option != "gillespie" else []) \
                    + ([("flagged-multimer", 1), ("flagged-multimer", 2)] if option != "euler" else []):
                ns = 3 if scen == "small-substrate" else rng.choice([2, 3])
                f = rng.randrange(ns)                 # index of the flagged species
                p = (f + 1) % ns                      # product species (reactant scenario)
                k = 1.0 if N == 1000 else 100.0 / N   # expected firings k*N*t: 500 resp. 50 in t = 1/2
                nsteps = {"euler": 6, "tauleap": 8, "gillespie": 300 if N == 1000 else 40}[option]
                seed = rng.randrange(1, 2 ** 31 - 1)
                case = {"kind": "scenario", "scenario": scen, "space": kind, "option": option, "ns": ns, "flagged": f, "product": p,
                        "nsteps": nsteps, "seed": seed, "N": N, "k": k}
                if scen == "sink":
                    case.update(nsteps=4)
                if scen == "small-substrate":
                    case.update(B=10 ** 6, k=1.6e-4, nsteps=(1 if option == "euler" else 8))
                if scen == "flagged-multimer":
                    case.update(m=N + 1, k=50.0, nsteps=8)
                try:
                    ok, what, detail = scenario_eval(case)
                except Exception as ex:  # noqa
                    ctx.violation("chem-scenario:raises", "%s run raised %s" % (option, type(ex).__name__), case, impl=type(ex).__name__)
                    continue
                ctx.case(("scenario", kind, option, scen, ns, f, N), nontrivial=True,
                         sample={"op": "scenario", "scenario": scen, "engine": option, "space": kind, "reservoir": N, "last": detail["last"]})
                ctx.count("scenario_" + scen)
                ctx.count("reservoir_%d" % N)
                if not ok:
                    key = "chem-traj:" + option if what == "a chemostated entry changed" else "chem-source:%s:%s" % (option, kind)
                    ctx.violation(key, "%s on a %s, %s scenario: %s" % (option, kind, scen, what), case, impl=detail["last"], expected=detail.get("expected", detail.get("expected_mean")))


TWO_SIM_CHILD = r"""
import sys, json, ctypes
from fractions import Fraction
sys.path.insert(0, %(harness)r)
import common
common.use_repo_package()
import determ_lib as L
import engine_io
import strengths as st
from strengths.librdengine import LibRDEngine
lib = ctypes.CDLL(%(so)r)
order = %(order)r

def system(kind, with_chem, ns, f):
    labels = L.LABELS[:ns]
    species = [{"label": lab, "D": 1.0, "density": 0} for lab in labels]
    net = {"species": species, "reactions": [{"eq": "%%s -> %%s" %% (labels[f], labels[(f + 1) %% ns]), "k+": 0.5}]}
    space = {"type": "grid", "w": 3, "h": 1, "d": 1} if kind == "grid" else \
        {"type": "graph", "nodes": [{}, {}, {}], "edges": [{"nodes": [0, 1]}, {"nodes": [1, 2]}]}
    sy = L.build_system({"network": net, "space": space})
    x = [0.0] * (ns * 3)
    for s in range(ns):
        x[s * 3 + 0] = 40.0 + 10 * s
        x[s * 3 + 2] = 7.0
    sy.state = x
    sy.reset_chemostats()
    if with_chem:
        sy.set_chemostat(f, 0, 1)
        sy.set_chemostat((f + 1) %% ns, 2, 1)
    return sy

def run(sy, option, seed):
    script = st.RDScript(sy, t_sample=[0], time_step=1.0 / 64, t_max=1e9, sampling_policy="on_iteration", rng_seed=seed)
    eng = LibRDEngine(lib, option=option, requires_molecules=(option != "euler"))
    eng.setup(script)
    k = 0
    while k < 12 and eng.iterate():
        k += 1
    out = eng.get_output()
    eng.finalize()
    return [s_[1] for s_ in engine_io.samples(out)], [int(v) for v in sy.chemostats]

res = {}
for kind in ("grid", "graph"):
    for option in ("euler", "tauleap", "gillespie"):
        ns, f, seed = %(ns)d, %(f)d, %(seed)d
        runs = []
        for w in order:
            runs.append(run(system(kind, w == "B", ns, f), option, seed))
        res[kind + ":" + option] = runs
print(json.dumps(res))
"""


def two_simulations(ctx):
    """function-static state of the native engine is initialised by the FIRST simulation of a process: in a fresh child process,
    simulation A (no chemostat at all) then simulation B (chemostated entries) — and B, A, B in a second child — for every
    engine on grid and graph.  B after A must keep its flagged entries (the C03 oracle) and must equal B run first."""
    import json as _json
    so = common.build_engine("plain")
    ns, f, seed = ctx.rng.choice([2, 3]), 0, ctx.rng.randrange(1, 2 ** 31 - 1)
    f = ctx.rng.randrange(ns)
    outs = {}
    for order in (["A", "B"], ["B", "A", "B"]):
        code = TWO_SIM_CHILD % {"harness": common.os.path.join(common.VERIF, "harness"), "so": so, "order": order, "ns": ns, "f": f, "seed": seed}
        status, out = common.run_child(code, timeout=120)
        if status != "ok":
            ctx.violation("two-sim:child", "the two-simulation child process ended with %s" % status, {"kind": "two-sim", "order": order}, impl=out[-300:])
            return
        outs["".join(order)] = _json.loads(out.strip().splitlines()[-1])
    for key in outs["AB"]:
        kind, option = key.split(":")
        b_after_a, chem = outs["AB"][key][1]
        b_first = outs["BAB"][key][0][0]
        b_again = outs["BAB"][key][2][0]
        case = {"kind": "two-sim", "space": kind, "option": option, "ns": ns, "flagged": f, "seed": seed}
        ctx.case(("two-sim", kind, option, ns, f), nontrivial=True, sample={"op": "two simulations in one process", "engine": option, "space": kind,
                                                                              "B_after_A_last": b_after_a[-1]})
        ctx.count("two_simulations")
        bad = [(k, e) for k in range(len(b_after_a)) for e in range(len(chem)) if chem[e] and b_after_a[k][e] != b_after_a[0][e]]
        if bad:
            k, e = bad[0]
            ctx.violation("chem-traj:%s:after-unflagged-run" % option,
                          "%s on a %s: after a first simulation WITHOUT any chemostat in the same process, the chemostated entry %d of the second simulation "
                          "is %r in sample %d but %r in sample 0" % (option, kind, e, b_after_a[k][e], k, b_after_a[0][e]), dict(case, order="AB"),
                          impl=b_after_a[k][e], expected=b_after_a[0][e])
        elif b_after_a != b_first or b_again != b_first:
            ctx.violation("two-sim:history:%s" % option, "%s on a %s: the same simulation gives different trajectories depending on what was simulated before "
                          "it in the process" % (option, kind), dict(case, order="AB vs B"), impl=b_after_a[-1], expected=b_first[-1])


# ------------------------------------------------------------------------------------------------ small directed systems
def mini_system(kind, ns, n, f, p, k, Ds):
    """description + physics (in the engine's default units µm / s / molecule: cell volume 1, faces of surface 1 at distance 1)
    of a one-environment system: n cells in a row (grid n x 1 x 1 or a path graph), species f -> species p with the first-order
    constant k (/s), diffusion coefficients Ds (µm2/s).  Every factor of the rate law is O(1): no intermediate product of the
    engine's arithmetic leaves the range of the values themselves."""
    labels = L.LABELS[:ns]
    species = [{"label": lab, "D": float(Ds[j]), "density": 0} for j, lab in enumerate(labels)]
    net = {"species": species, "reactions": [{"eq": "%s -> %s" % (labels[f], labels[p]), "k+": float(k)}]}
    if kind == "grid":
        space = {"type": "grid", "w": n, "h": 1, "d": 1}
        pspace = {"kind": "grid", "w": n, "h": 1, "d": 1, "px": False, "py": False, "pz": False}
    else:
        space = {"type": "graph", "nodes": [{} for _ in range(n)], "edges": [{"nodes": [i, i + 1]} for i in range(n - 1)]}
        pspace = {"kind": "graph", "edges": [(i, i + 1, Fraction(1), Fraction(1)) for i in range(n - 1)]}
    sub, prod = [0] * ns, [0] * ns
    sub[f], prod[p] = 1, 1
    phys = {"ns": ns, "n": n, "labels": labels, "reacs": [{"sub": sub, "prod": prod, "kf": [Fraction(k)], "kr": [Fraction(0)]}],
            "env": [0] * n, "vol": [Fraction(1)] * n, "edge": [Fraction(1)] * n, "D": [[Fraction(d)] for d in Ds], "space": pspace}
    return {"network": net, "space": space}, phys


def flagged_constant(ss, chem):
    """oracle (i): the first (sample, entry) at which a flagged entry differs from sample 0, or None"""
    for k in range(1, len(ss)):
        for e in range(len(chem)):
            if chem[e] and not ss[k][1][e] == ss[0][1][e]:
                return (k, e)
    return None


def euler_free_law(phys, chem, ss, dt, steps=3):
    """free entries of an Euler trajectory recorded at every iteration: x_{k+1} = x_k + dt*rate(x_k) in the units of `phys`
    (rate computed from the flagged amounts too).  An entry none of whose terms is non-zero must be kept exactly; entries whose
    terms all lie below 1e-280 are not judged (gradual underflow of the doubles).  Returns (step, entry, got, expected) or None"""
    n, ns = phys["n"], phys["ns"]
    for kstep in range(min(len(ss) - 1, steps)):
        if not all(math.isfinite(v) and abs(v) < 1e150 for e, v in enumerate(ss[kstep][1] + ss[kstep + 1][1]) if not chem[e % (ns * n)]):
            return None
        x0 = [Fraction(v) for v in ss[kstep][1]]
        orc = L.oracle_rate(phys, x0)
        for e in range(ns * n):
            if chem[e]:
                continue
            exp, mag = x0[e] + dt * orc[e][0], abs(x0[e]) + dt * orc[e][1]
            got = ss[kstep + 1][1][e]
            if orc[e][1] == 0:
                if not got == ss[kstep][1][e]:
                    return (kstep, e, got, ss[kstep][1][e])
            elif mag < Fraction(1, 10 ** 280):
                continue
            elif not close(got, exp, mag, rel=TOL):
                return (kstep, e, got, float(exp))
    return None


# ------------------------------------------------------------------------------------------------ extreme magnitudes
def draw_extreme(rng):
    """a legal quantity far from 1: subnormal, just above / below the smallest normal double, 'negligible', huge; either sign"""
    cls = rng.choice(["subnormal", "subnormal", "tiny", "tiny", "small", "huge"])
    if cls == "subnormal":
        v = rng.choice([5e-324, rng.randrange(1, 2 ** 20) * 5e-324, rng.randrange(2 ** 30, 2 ** 52) * 5e-324])
    elif cls == "tiny":
        v = rng.uniform(1, 10) * 10.0 ** rng.randint(-308, -285)
    elif cls == "small":
        v = rng.uniform(1, 10) * 10.0 ** rng.randint(-280, -12)
    else:
        v = rng.uniform(1, 10) * 10.0 ** rng.randint(30, 140)
    if v == 0:
        v = 5e-324
    return cls, (v if rng.random() < 0.75 else -v)


def extreme_case(rng, kind):
    ns, n = rng.choice([2, 3]), rng.choice([2, 3, 4])
    f = rng.randrange(ns)
    p = (f + 1) % ns
    Ds = [rng.choice([0, 1, 0.5]) for _ in range(ns)]
    inert = None
    if ns == 3:                      # a species that neither reacts nor moves: its free entries must be kept exactly
        inert = (f + 2) % ns
        Ds[inert] = 0
    chem, vals, classes = [0] * (ns * n), [float(rng.choice([0, 1, 2, 3, 5, 8, 20])) for _ in range(ns * n)], []
    for s in range(ns):
        cells = list(range(n))
        rng.shuffle(cells)
        nflag = rng.choice([1, 1, 2, n]) if s != inert else rng.choice([0, 1])
        for c in cells[:nflag]:      # flagged entries (every species index): extreme values
            cls, v = draw_extreme(rng)
            chem[s * n + c], vals[s * n + c] = 1, v
            classes.append(cls)
        if s == inert:
            for c in cells[nflag:]:  # free but inert entries: extreme values too
                vals[s * n + c] = draw_extreme(rng)[1]
    if all(chem):
        chem[p * n + rng.randrange(n)] = 0
    schedule = rng.choice(["iterate", "t_sample"])
    return {"kind": "extreme", "space": kind, "ns": ns, "n": n, "flagged_species": f, "product": p, "k": rng.choice([0.5, 1, 2]), "Ds": Ds,
            "chem": chem, "vals": vals, "classes": classes, "schedule": schedule, "nsteps": rng.choice([2, 5, 9]),
            "set_by": rng.choice(["array", "set_chemostat"])}


def extreme_eval(case, ctx=None):
    """one Euler run of a small system whose chemostated entries hold extreme quantities, driven either iteration by iteration
    (every iteration recorded) or by run() against a t_sample list; returns (holds, what, detail, correspondence-op or None)"""
    import strengths as st
    desc, phys = mini_system(case["space"], case["ns"], case["n"], case["flagged_species"], case["product"], case["k"], case["Ds"])
    system = L.build_system(desc)
    system.state = list(case["vals"])
    chem = list(case["chem"])
    if case["set_by"] == "array":
        system.chemostats = list(chem)
    else:
        system.reset_chemostats()
        for e, v in enumerate(chem):
            if v:
                system.set_chemostat(e // case["n"], e % case["n"], 1)
    dt, nsteps = Fraction(1, 64), case["nsteps"]
    if case["schedule"] == "iterate":
        script, traj, _ = run_engine(system, "euler", L.DEFAULT_SYS, dt, nsteps, 1, False)
    else:
        ts = sorted(set([0, 1, nsteps // 2 + 1, nsteps]))
        script = st.RDScript(system, t_sample=[float(dt * t) for t in ts], time_step=float(dt), rng_seed=1)
        eng = common.load_engine("euler", "plain")
        eng.setup(script)
        guard = 0
        while eng.run(7) and guard < 1000:
            guard += 1
        traj = eng.get_output()
        eng.finalize()
    ss = engine_io.samples(traj)
    detail = {"first": ss[0][1], "last": ss[-1][1], "chem": chem, "samples": len(ss)}
    op = None
    if case["schedule"] == "iterate" and len(ss) >= 2:
        arr = engine_io.system_arrays(script, False)
        op = ({"op": "euler_step", "eng": engine_io.eng_json(arr, edge=(Fraction(1) if case["space"] == "grid" else [Fraction(1)] * case["n"])),
               "x": [rstr(v) for v in ss[0][1]], "dt": rstr(float(script.time_step.convert(arr["us"]).value))}, ss[0][1], ss[1][1])
    if len(ss) < 2:
        return False, "the run recorded %d sample(s)" % len(ss), detail, op
    bad = flagged_constant(ss, chem)
    if bad:
        k, e = bad
        detail.update(sample=k, e=e)
        return False, ("the chemostated entry %d (species %d, cell %d) holds %r in sample 0 but %r in sample %d" %
                       (e, e // case["n"], e % case["n"], ss[0][1][e], ss[k][1][e], k)), detail, op
    if case["schedule"] == "iterate":
        bad = euler_free_law(phys, chem, ss, dt)
        if bad:
            detail.update(step=bad[0], e=bad[1], expected=bad[3])
            return False, "free entry %d is %r in sample %d, x0 + dt*rate(x0) = %r" % (bad[1], bad[2], bad[0] + 1, bad[3]), detail, op
    return True, None, detail, op


def extreme_magnitudes(ctx, rounds):
    """chemostated entries holding quantities far from 1 (subnormal doubles, values around the smallest normal double, 1e-280 …
    1e-12, 1e30 … 1e140, either sign) in Euler runs on grid and graph, two driving schedules; oracle (i) on every sample, the rate
    law on the free entries, one model step from sample 0"""
    ops, meta = [], []
    for r in range(rounds):
        for kind in ("grid", "graph"):
            case = extreme_case(ctx.rng, kind)
            try:
                ok, what, detail, op = extreme_eval(case)
            except Exception as ex:  # noqa
                ctx.violation("chem-extreme:raises", "Euler run raised %s" % type(ex).__name__, case, impl=type(ex).__name__)
                continue
            kept = [e for e, c in enumerate(case["chem"]) if c and detail["first"][e] != 0]
            ctx.case(("extreme", kind, tuple(case["vals"]), tuple(case["chem"]), case["schedule"]), nontrivial=bool(kept) and detail["samples"] > 1,
                     sample={"op": "extreme magnitudes", "space": kind, "schedule": case["schedule"], "first": detail["first"][:6], "last": detail["last"][:6]})
            ctx.count("extreme_runs")
            ctx.count("extreme_schedule_" + case["schedule"])
            for cls in case["classes"]:
                ctx.count("extreme_flagged_" + cls)
            if not ok:
                key = "chem-traj:euler" if "chemostated entry" in what else "chem-euler:unflagged"
                ctx.violation(key, "Euler on a %s, chemostated entries holding extreme quantities (%s): %s" % (kind, case["schedule"], what), case,
                              impl=detail["last"], expected=detail.get("expected", detail["first"]))
            if op is not None:
                ops.append(op[0])
                meta.append((case, op[1], op[2]))
    res = ctx.model.run(ops) if ops else []
    for (case, x0, x1), m in zip(meta, res):
        if m is None:
            continue
        ctx.count("extreme_euler_step_model")
        if "ok" not in m:
            ctx.disagree("euler_step", case, x1, m)
            continue
        mx = [rparse(v) for v in m["ok"]["x"]]
        md = [rparse(v) for v in m["ok"]["dxdt"]]
        good = len(mx) == len(x1)
        for e in range(len(x1) if good else 0):
            if case["chem"][e] or md[e] == 0:
                good = good and math.isfinite(x1[e]) and Fraction(x1[e]) == mx[e]          # the model keeps these entries exactly
            elif abs(mx[e]) + abs(Fraction(x0[e])) >= Fraction(1, 10 ** 280):
                good = good and close(x1[e], mx[e], abs(Fraction(x0[e])) + abs(md[e]) / 64, rel=TOL)
        if not good:
            ctx.disagree("euler_step", case, x1, m["ok"]["x"])


# ------------------------------------------------------------------------------------------------ one engine, one script, edited between runs
EDIT_KINDS = ["set_chemostat", "set_chemostat", "set_chemostat_label", "item", "item", "array", "reset", "state"]


def reuse_case(rng, kind, option):
    ns, n = rng.choice([2, 3]), rng.choice([2, 3, 4])
    f = rng.randrange(ns)
    vals = [float(rng.choice([40, 100, 250, 500])) for _ in range(ns * n)]
    chem0 = [0] * (ns * n) if rng.random() < 0.5 else [rng.choice([0, 0, 1]) for _ in range(ns * n)]
    runs = []
    for r in range(rng.choice([2, 3, 3, 4]) - 1):
        edits = []
        for _ in range(rng.choice([1, 1, 2, 3])):
            ek = rng.choice(EDIT_KINDS)
            s_, c_ = rng.randrange(ns), rng.randrange(n)
            if ek in ("set_chemostat", "set_chemostat_label", "item"):
                # the first edit of a history targets the reactant species half of the time: its free entries certainly move
                if not edits and rng.random() < 0.5:
                    s_ = f
                edits.append({"edit": ek, "s": s_, "c": c_, "v": None})        # v: toggled when applied
            elif ek == "array":
                edits.append({"edit": ek, "map": [rng.choice([0, 0, 1]) for _ in range(ns * n)]})
            elif ek == "reset":
                edits.append({"edit": ek})
            else:
                edits.append({"edit": ek, "s": s_, "c": c_, "value": float(rng.choice([10, 60, 333]))})
        runs.append(edits)
    return {"kind": "reuse", "space": kind, "option": option, "ns": ns, "n": n, "flagged_species": f, "product": (f + 1) % ns, "k": 1, "Ds": [1] * ns,
            "vals": vals, "chem0": chem0, "edits": runs, "seed": rng.randrange(1, 2 ** 31 - 1), "nsteps": 12 if option != "gillespie" else 40,
            "other_script_between": rng.random() < 0.3}


def _reuse_run(eng, script, nsteps):
    eng.setup(script)
    k = 0
    while k < nsteps and eng.iterate():
        k += 1
    out = eng.get_output()
    eng.finalize()
    return engine_io.samples(out)


def reuse_eval(case):
    """ONE engine object and ONE script object: run, edit the script's system in place through its public interface (set_chemostat
    by index / label, item assignment into `chemostats`, a whole new map, reset_chemostats, set_state), run again, …  The flags every
    run must obey are tracked here, independently of the object.  Each run is judged by oracle (i), by the rate law (Euler) and
    against the same simulation made from scratch (new system, new script, new engine object, same seed).
    Returns (holds, what, detail, [correspondence ops])"""
    import strengths as st
    kind, option, ns, n = case["space"], case["option"], case["ns"], case["n"]
    desc, phys = mini_system(kind, ns, n, case["flagged_species"], case["product"], case["k"], case["Ds"])
    labels = L.LABELS[:ns]
    dt = Fraction(1, 64)

    def fresh(vals, chem):
        sy = L.build_system(desc)
        sy.state = list(vals)
        sy.chemostats = list(chem)
        return st.RDScript(sy, t_sample=[0], time_step=float(dt), t_max=1e300 if option == "gillespie" else float(dt) * (case["nsteps"] + 2),
                           sampling_policy="on_iteration", rng_seed=case["seed"])

    vals, chem = list(case["vals"]), list(case["chem0"])
    script = fresh(vals, chem)
    eng = common.load_engine(option, "plain")
    detail, ops = {"runs": []}, []
    for r in range(len(case["edits"]) + 1):
        if r > 0:
            if case.get("other_script_between"):
                # the same engine object simulates ANOTHER script of the same shape (everything flagged the other way round) in between
                _reuse_run(eng, fresh(vals, [1 - c for c in chem]), 3)
            for ed in case["edits"][r - 1]:
                sy = script.system
                if ed["edit"] in ("set_chemostat", "set_chemostat_label", "item"):
                    e = ed["s"] * n + ed["c"]
                    v = 1 - chem[e]
                    if ed["edit"] == "set_chemostat":
                        sy.set_chemostat(ed["s"], ed["c"], v)
                    elif ed["edit"] == "set_chemostat_label":
                        sy.set_chemostat(labels[ed["s"]], ed["c"], bool(v))
                    else:
                        sy.chemostats[e] = v
                    chem[e] = v
                elif ed["edit"] == "array":
                    sy.chemostats = list(ed["map"])
                    chem = list(ed["map"])
                elif ed["edit"] == "reset":
                    sy.reset_chemostats()
                    chem = [0] * (ns * n)
                else:
                    sy.set_state(ed["s"], ed["c"], ed["value"])
                    vals[ed["s"] * n + ed["c"]] = ed["value"]
        ss = _reuse_run(eng, script, case["nsteps"])
        ref = _reuse_run(common.load_engine(option, "plain"), fresh(vals, chem), case["nsteps"])
        rec = {"run": r, "chem": list(chem), "first": ss[0][1], "last": ss[-1][1], "samples": len(ss), "from_scratch_last": ref[-1][1]}
        detail["runs"].append(rec)
        detail.update(chem=list(chem), first=ss[0][1], last=ss[-1][1], run=r)
        if option == "euler" and len(ss) >= 2:
            arr = engine_io.system_arrays(script, False)
            ops.append(({"op": "euler_step", "eng": engine_io.eng_json(arr, edge=(Fraction(1) if kind == "grid" else [Fraction(1)] * n)),
                         "x": [rstr(v) for v in ss[0][1]], "dt": rstr(float(dt))}, r, ss[0][1], ss[1][1]))
        if len(ss) < 2:
            return False, "run %d recorded %d sample(s)" % (r, len(ss)), detail, ops
        bad = flagged_constant(ss, chem)
        if bad:
            k, e = bad
            detail.update(sample=k, e=e, expected=ss[0][1][e])
            return False, ("run %d of the same script on the same engine object (chemostat map now %r): the chemostated entry %d (species %d, cell %d) is %r in "
                           "sample %d but %r in sample 0" % (r, chem, e, e // n, e % n, ss[k][1][e], k, ss[0][1][e])), detail, ops
        if option == "euler":
            bad = euler_free_law(phys, chem, ss, dt)
            if bad:
                detail.update(step=bad[0], e=bad[1], expected=bad[3])
                return False, ("run %d of the same script on the same engine object (chemostat map now %r): the free entry %d is %r in sample %d, "
                               "x0 + dt*rate(x0) = %r" % (r, chem, bad[1], bad[2], bad[0] + 1, bad[3])), detail, ops
        if [s_[1] for s_ in ss] != [s_[1] for s_ in ref]:
            k = next((j for j in range(min(len(ss), len(ref))) if ss[j][1] != ref[j][1]), min(len(ss), len(ref)))
            detail.update(sample=k, expected=ref[min(k, len(ref) - 1)][1])
            return False, ("run %d of the same script on the same engine object (chemostat map now %r, seed %d) differs from the same simulation made from "
                           "scratch from sample %d on: %r vs %r — entries that are not flagged must evolve as the rate law prescribes whatever the "
                           "objects simulated before" % (r, chem, case["seed"], k, ss[min(k, len(ss) - 1)][1], ref[min(k, len(ref) - 1)][1])), detail, ops
    return True, None, detail, ops


def reuse_with_edits(ctx, rounds):
    ops, meta = [], []
    for r in range(rounds):
        for kind in ("grid", "graph"):
            for option in ("euler", "tauleap", "gillespie"):
                case = reuse_case(ctx.rng, kind, option)
                try:
                    ok, what, detail, cops = reuse_eval(case)
                except Exception as ex:  # noqa
                    ctx.violation("chem-reuse:raises", "%s: a run of an edited script on a re-used engine raised %s" % (option, type(ex).__name__), case,
                                  impl=type(ex).__name__)
                    continue
                maps = [tuple(rr["chem"]) for rr in detail["runs"]]
                ctx.case(("reuse", kind, option, tuple(case["vals"]), tuple(maps)), nontrivial=len(set(maps)) > 1 and any(any(m) for m in maps),
                         sample={"op": "one engine, one script, edited between runs", "engine": option, "space": kind, "maps": [list(m) for m in maps],
                                 "last": detail["last"][:6]})
                ctx.count("reuse_histories")
                ctx.count("reuse_runs", len(detail["runs"]))
                for eds in case["edits"]:
                    for ed in eds:
                        ctx.count("reuse_edit_" + ed["edit"])
                if not ok:
                    key = ("chem-traj:%s:edited-map" % option) if "chemostated entry" in what else "chem-reuse:%s" % option
                    ctx.violation(key, "%s on a %s: %s" % (option, kind, what), case, impl=detail["last"], expected=detail.get("expected"))
                for (op, rr, x0, x1) in cops:
                    ops.append(op)
                    meta.append((dict(case, run=rr), x0, x1))
    res = ctx.model.run(ops) if ops else []
    for (case, x0, x1), m in zip(meta, res):
        if m is None:
            continue
        ctx.count("reuse_euler_step_model")
        ok = "ok" in m
        if ok:
            mx = [rparse(v) for v in m["ok"]["x"]]
            md = [rparse(v) for v in m["ok"]["dxdt"]]
            ok = len(mx) == len(x1) and all(close(a, b, abs(Fraction(c)) + abs(d) / 64, rel=TOL) for a, b, c, d in zip(x1, mx, x0, md))
        if not ok:
            ctx.disagree("euler_step", case, x1, m.get("ok", m))



def run(ctx):
    rng = ctx.rng
    C1.out_of_time(ctx)          # start the harness clock
    two_simulations(ctx)
    source_scenarios(ctx)
    extreme_magnitudes(ctx, ctx.n(10, 80))
    reuse_with_edits(ctx, ctx.n(2, 12))
    nsys = ctx.n(30, 500)
    jobs = [flag_dict_job(rng, "grid"), flag_dict_job(rng, "graph"), flagged_substrate_job(ctx, rng)]
    ctx.count("directed_flag_dicts", 2)
    for k in range(nsys):
        if C1.out_of_time(ctx, -8 if ctx.tier == "quick" else 0):
            ctx.notes.append("stopped generating after %d systems (time budget)" % k)
            break
        kind = "grid" if k % 2 == 0 else "graph"
        integer_state = (k % 2 == 0) or (k % 3 == 0)
        jb = make_job(ctx, rng, kind, size1=(k % 5 == 4), integer_state=integer_state)
        jb["integer_state"] = integer_state
        jobs.append(jb)
        if len(jobs) >= 9:
            process(ctx, jobs)
            jobs = []
    if jobs:
        process(ctx, jobs)
    ctx.notes.append("flag values other than 0/1 are outside the assumption (make_dxdtf multiplies by 1-flag)")


def search(ctx):
    """an obligation broke and no input failed yet: the directed streams at thorough size (extreme quantities in chemostated
    entries; one engine and one script edited between runs; the source / sink scenarios and the two-simulation histories again)"""
    extreme_magnitudes(ctx, 80)
    if ctx.violations:
        return
    reuse_with_edits(ctx, 10)
    source_scenarios(ctx)


def process(ctx, jobs):
    check_kinetics(ctx, jobs)
    check_dxdtf(ctx, [jb for jb in jobs if jb["phys"]["n"] == 1])
    check_apply_reaction(ctx, jobs)
    check_trajectories(ctx, jobs, replay_steps=True)


def replay_scenario(case):
    case = dict(case)
    case.setdefault("N", 1000)
    case.setdefault("k", 1.0)
    ok, what, detail = scenario_eval(case)
    detail["failure"] = what
    return ok, detail


def replay(ctx, rec):
    case = rec.get("case", rec)
    if case["kind"] == "scenario":
        return replay_scenario(case)
    if case["kind"] == "extreme":
        ok, what, detail, _ = extreme_eval(case)
        detail["failure"] = what
        return ok, detail
    if case["kind"] == "reuse":
        ok, what, detail, _ = reuse_eval(case)
        detail["failure"] = what
        return ok, detail
    if case["kind"] == "two-sim":
        import json as _json
        so = common.build_engine("plain")
        code = TWO_SIM_CHILD % {"harness": common.os.path.join(common.VERIF, "harness"), "so": so, "order": ["A", "B"], "ns": case["ns"],
                                "f": case["flagged"], "seed": case["seed"]}
        status, out = common.run_child(code, timeout=120)
        if status != "ok":
            return False, {"child": status, "out": out[-300:]}
        b, chem = _json.loads(out.strip().splitlines()[-1])[case["space"] + ":" + case["option"]][1]
        ok = all(b[k][e] == b[0][e] for k in range(len(b)) for e in range(len(chem)) if chem[e])
        return ok, {"chem": chem, "B_after_A_first": b[0], "B_after_A_last": b[-1]}
    phys, system = restore(case)
    chem = [int(v) for v in case["chem"]]        # the flags the description + per-cell assignments declare
    n, ns = phys["n"], phys["ns"]
    out = {"kind": case["kind"], "chem": chem}
    if case["kind"] == "kinetics":
        x = L.state_si(system.state)
        orc = L.oracle_rate(phys, x)
        s, i = case["s"], case["i"]
        e = s * n + i
        applyv = apply_value(case["apply_form"], system) if case.get("apply_form") else case.get("apply", True)
        got = C1.kinetics_entry(system, s, i, applyv, tuple(case["U"]))
        flagged = chem[e] and case.get("apply", True)
        exp = Fraction(0) if flagged else orc[e][0]
        out.update(entry=[s, i], flag=chem[e], impl=(got[1] if got[0] == "error" else float(got[0])), expected=float(exp))
        if got[0] == "error":
            return False, out
        ok = (got[0] == 0) if flagged else close(float(got[0]), exp, orc[e][1], rel=TOL)
        return ok and tuple(got[1]) == L.D_RATE, out
    if case["kind"] == "dstatedt":
        x = L.state_si(system.state)
        orc = L.oracle_rate(phys, x)
        vals = whole_dstatedt(system, tuple(case["U"]))
        if vals[0] == "error":
            out.update(impl=vals[1])
            return False, out
        e = case.get("e", 0)
        exp = Fraction(0) if chem[e] else orc[e][0]
        out.update(entry=e, flag=chem[e], impl=float(vals[0][e]), expected=float(exp), whole=[float(v) for v in vals[0]])
        ok = (vals[0][e] == 0) if chem[e] else close(float(vals[0][e]), exp, orc[e][1], rel=TOL)
        return ok, out
    if case["kind"] == "dxdtf":
        return C1.replay(ctx, rec)
    if case["kind"] == "apply_reaction":
        x0 = [float(v) for v in system.state.value]
        res = system.apply_reaction(case["r"], position=case["i"], n=case["n"])
        x1 = [float(v) for v in res.value]
        mol = L.si_factor(L.sys_of(system.state.units.sys), L.D_QTY)
        rr = phys["reacs"][case["r"]]
        ok = True
        exp = []
        for e in range(ns * n):
            s, c = divmod(e, n)
            if c != case["i"] or chem[e]:
                exp.append(x0[e])
                ok = ok and x1[e] == x0[e]
            else:
                v = Fraction(x0[e]) + Fraction(rr["prod"][s] - rr["sub"][s]) * Fraction(case["n"]) / mol
                exp.append(float(v))
                ok = ok and close(x1[e], v, abs(Fraction(x0[e])) + abs(v), rel=1e-12)
        out.update(x0=x0, impl=x1, expected=exp)
        return ok, out
    if case["kind"] == "trajectory":
        script, traj, _ = run_engine(system, case["option"], tuple(case["Uscript"]), rparse(case["dt_nat"]), case["nsteps"], case["seed"], False)
        ss = engine_io.samples(traj)
        ok = all(ss[k][1][e] == ss[0][1][e] for k in range(len(ss)) for e in range(ns * n) if chem[e])
        if ok and case["option"] == "euler":
            fq = L.si_factor(L.sys_of(traj.data.units.sys), L.D_QTY)
            dt_si = Fraction(float(script.time_step.value)) * L.si_factor(L.sys_of(script.time_step.units.sys), L.D_TIME)
            for kstep in range(min(len(ss) - 1, 3)):
                x0 = [Fraction(v) * fq for v in ss[kstep][1]]
                x1 = [Fraction(v) * fq for v in ss[kstep + 1][1]]
                orc = L.oracle_rate(phys, x0)
                ok = ok and all(chem[e] or close(float(x1[e]), x0[e] + dt_si * orc[e][0], abs(x0[e]) + dt_si * orc[e][1], rel=TOL) for e in range(ns * n))
        out.update(samples=[s_[1] for s_ in ss[:4]])
        return ok, out
    return False, {"note": "unknown case kind"}
