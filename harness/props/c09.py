"""C09 — Sampling contract: which states are recorded, when, and in what shape.

Theorems: lean/Strengths/Props/C09.lean over Model/Sampler.lean (abstract step; conditions, loop bodies and the
`Iterate` skeletons tied to the regenerated Gen.EngineCpp text; export formulas Gen.exportDst/Src).
Correspondence: op `lifecycle` — the real engine is driven one `iterate()` at a time in a sandboxed child
(time, return value, is_complete() and the native state after every step are logged), the model replays the
same calls on the OBSERVED clock and must predict every return value, the recorded times and which step each
record holds; ops `script_tmax`, `export_layout`.
Oracle (independent of the model's loop): from the logged step times alone — which step covers which request /
multiple of the interval, one record per step, every step / none, strict monotonicity, shapes, order against
RDSystem.state, t=0 record, fixed-step clock n*dt and completion at the first step beyond t_max.
Derived-script stream (c09_child.py): the same oracle and the same model op on scripts obtained by copy() / from a trajectory and
edited afterwards; the requested times, dt and t_max (explicit, or by default the last requested time) are the CALLER's.
"""
import math
from fractions import Fraction
import common
from common import frac, rstr, rparse, close
import life_common as lc

ID = "C09"
LEAN_TARGETS = ["Strengths.Props.C09"]
PROP_FILES = ["Strengths/Props/C09.lean"]
GEN_GROUPS = ["EngineCpp", "IndexPy", "ScriptPy", "EngineLife"]
RULE = ("scripts generated from the repository's dictionary forms: 3 engines x grid/graph x 4 policies x request-list styles "
        "(grid, cluster inside one step, duplicates, late start, beyond t_max, single 0, sparse, empty) x dyadic / non-dyadic dt x "
        "explicit / default t_max x time quantities in 7 units x optional explicit sample() calls; each driven step by step to "
        "completion (+2 further iterations); interval ratios t/interval beyond 2^31 and beyond 2^53 / 2^63 / 2^64; DERIVED scripts: "
        "the script that is run was obtained from another script object (copy(), deepcopy, trajectory.script after a simulation or "
        "right after setup, chains of these) and then edited through its setters (request list with a shorter / longer horizon, time "
        "step, t_max explicit <-> default, in shuffled order), judged against the quantities the caller assigned; "
        "non-trivial when at least 2 steps were made; distinct by the whole script")
ASSUMPTIONS = [
    "Gillespie with init_state_processing='none' on non-integer amounts (accepted by the setters, but outside the stochastic method: negative "
    "amounts / propensities, clock running backwards, no completion — reported to the coordinator as a candidate finding) is only driven "
    "step by step with a cap, never through simulate_script",
    "the harness reads the native clock and state after each step through engineexport_get_time/get_state (other functions than the ones under test)",
    "float clock: for dyadic dt in seconds the clock n*dt is exact; otherwise times are compared to n*dt within 1e-9 relative and the completion step within +-1 as the statement allows",
    "floor(t/interval) in doubles equals the exact floor unless t/interval is within 1e-9 of an integer without being one (such cases are counted as ambiguous and skipped)",
]
TRUSTED = ["life_child.py, c09_child.py (sandboxed drivers of the real engine)"]


# t / sampling_interval beyond the range of the integer types a floored quotient could be kept in: 2^53 (integers no longer
# all representable in a double), 2^63 (long long), 2^64 (unsigned long long) — reached within the first steps of 1 s
EXTREME_INTERVALS = [1e-16, 2.0 ** -54, 1e-19, 2.0 ** -63, 2.0 ** -64, 1e-20, 2.0 ** -70, 1e-30]


def make_job(rng, jid, option=None, extreme_ratio=False, **kw):
    option = option or rng.choice(lc.OPTIONS)
    S, info = lc.gen_script(rng, option, **kw)
    if extreme_ratio:
        # the huge-ratio script (dt = 1 s, on_interval, times in seconds) with a still smaller interval
        iv = rng.choice(EXTREME_INTERVALS)
        S["kw"]["sampling_interval"] = iv
        info["expect"]["interval"] = iv
        info["extreme_ratio"] = True
    size = info["nsp"] * info["n"]
    max_it = 400
    samples = []
    pre_sample = False
    if rng.random() < 0.25:
        samples = sorted(set(rng.randint(1, 60) for _ in range(rng.randint(1, 4))))
        pre_sample = rng.random() < 0.5
    calls = []
    # a quarter of the jobs re-use the engine OBJECT (and the RDScript object): an earlier simulation of the same script
    # through the package's own driver ran to completion on it
    reuse = rng.random() < 0.25
    # Gillespie on NON-INTEGER amounts without processing ("none") is outside what the stochastic method is defined for (the
    # documentation of init_state_processing: stochastic methods require integer values): amounts and propensities go
    # negative, the clock can run backwards and the run has no end.  Such scripts are still driven step by step (capped), but
    # not through simulate_script, which drives to completion.
    fractional_none = (option == "gillespie" and info["mode"] == "none"
                       and any(float(v) != int(v) for v in S["system"]["state"]))
    info["fractional_none"] = fractional_none
    if fractional_none:
        reuse = False
    if reuse:
        calls.append({"obj": 0, "call": "simulate", "script": 0, "full": True})
    calls += [{"obj": 0, "call": "setup", "script": 0, "peek": True, "peek_state": size}, {"obj": 0, "call": "is_complete"}]
    if pre_sample:
        calls.append({"obj": 0, "call": "sample"})
        if rng.random() < 0.5:
            calls.append({"obj": 0, "call": "sample"})
    via = "iterate_n" if rng.random() < 0.3 else "iterate"
    calls.append({"obj": 0, "call": "drive", "max": max_it, "state": True, "size": size, "samples": samples, "past_end": 2, "via": via})
    calls.append({"obj": 0, "call": "get_output"})
    calls.append({"obj": 0, "call": "finalize"})
    info["samples"] = samples
    info["pre_sample"] = sum(1 for c in calls if c["call"] == "sample")
    info["reuse"] = reuse
    info["via"] = via
    info["poll_k"] = None
    if rng.random() < 0.35 and not fractional_none:
        # the same script once more, driven ONLY by iterate_n(k) with is_complete() polled before each call
        k = rng.choice([1, 3, 7])
        info["poll_k"] = k
        calls += [{"obj": 0, "call": "setup", "script": 0}, {"obj": 0, "call": "poll", "how": "is_complete", "step": ["iterate_n", k], "max": 1000, "peek": True},
                  {"obj": 0, "call": "is_complete"}, {"obj": 0, "call": "get_output", "full": False}, {"obj": 0, "call": "finalize"}]
    if not samples and not info["pre_sample"] and rng.random() < 0.6 and not fractional_none:
        # the same script through simulate_script on the (now used) engine object: the same records
        calls.append({"obj": 0, "call": "simulate", "script": 0, "full": True})
    return {"id": jid, "engines": [option], "scripts": [S], "calls": calls, "info": info, "timeout": 20}


def unpack(job, r):
    """observed history -> dict, or None if the run did not get through (raised / crashed)"""
    res = r["results"]
    if r["status"] != "ok" or any("raised" in x for x in res):
        return None
    byc = {}
    for c, x in zip(job["calls"], res):
        byc.setdefault(c["call"], []).append(x)
    setup = byc["setup"][0]
    drive = byc["drive"][0]["ret"]
    out = byc["get_output"][0]["ret"]
    sims = []
    seen_setup = False
    for c, x in zip(job["calls"], res):
        if c["call"] == "setup":
            seen_setup = True
        if c["call"] == "simulate":
            sims.append(("after" if seen_setup else "before", x["ret"]))
    inits = []
    for x in res:
        inits += lc.init_failures(x)
        inits += lc.edit_failures(x)
    poll = None
    if "poll" in byc:
        i0 = [i for i, c in enumerate(job["calls"]) if c["call"] == "poll"][0]
        poll = {"ret": res[i0]["ret"], "complete_after": res[i0 + 1]["ret"], "hash": res[i0 + 2]["ret"]["hash"]}
    return {"poll": poll, "inits": inits, "meta": setup["meta"], "T0": setup["T"], "X0": setup["X"], "T": drive["T"], "U": drive["U"], "X": drive["X"],
            "C": drive["C"], "progress": drive["progress"], "out": out, "C0": byc["is_complete"][0]["ret"], "sims": sims,
            "script_changed": setup.get("script_changed", [])}


def oracle(job, ob):
    """the contract evaluated on the real observations; returns a list of (key, what, impl, expected)"""
    info, meta = job["info"], ob["meta"]
    bad = []
    T = [ob["T0"]] + ob["T"]            # clock after 0, 1, 2 … iterate() calls
    X = [ob["X0"]] + ob["X"]
    U = ob["U"]
    out = ob["out"]
    ns, nc = meta["ns"], meta["n"]
    policy = info["policy"]
    tmax, dt, iv, ts = meta["tmax"], meta["dt"], meta["interval"], meta["tsamples"]
    fixed = info["option"] != "gillespie"
    manual = bool(info["samples"]) or info["pre_sample"] > 0
    bad += ob.get("inits", [])
    # ---- shape
    if out["nt"] != out["nsamples"] or out["nd"] != out["nsamples"] * ns * nc or out["nspecies"] != ns or out["ncells"] != nc:
        bad.append(("shape", "data does not hold nsamples*nspecies*ncells values / one time per sample",
                    {"nt": out["nt"], "nd": out["nd"]}, {"nsamples": out["nsamples"], "ns": ns, "nc": nc}))
        return bad
    if T[0] != 0.0:
        bad.append(("clock0", "clock is not 0 after setup", T[0], 0.0))
    # ---- the time quantities the engine was given, against the values computed here from seconds (own conversion)
    ex = info.get("expect")
    if ex:
        def same(a, b):
            return a == b or close(a, frac(b), rel=1e-9, abs_floor=1e-300)
        what = "stated in %s (t_sample as %s), script time unit %s" % (ex["stated_in"], info.get("ts_form"), ex["time_unit"])
        if len(ts) != len(ex["tsamples"]) or not all(same(a, b) for a, b in zip(ts, ex["tsamples"])):
            bad.append(("time-units:t_sample", "requested times handed to the engine differ from the requested times (%s)" % what, ts[:8], ex["tsamples"][:8]))
        if not same(dt, ex["dt"]):
            bad.append(("time-units:time_step", "time step handed to the engine differs from the script's (%s)" % what, dt, ex["dt"]))
        if ex["tmax"] is not None and not same(tmax, ex["tmax"]):
            bad.append(("time-units:t_max", "t_max handed to the engine differs from the script's / the last requested time (%s)" % what, tmax, ex["tmax"]))
        if not same(iv, ex["interval"]):
            bad.append(("time-units:sampling_interval", "sampling interval handed to the engine differs from the script's (%s)" % what, iv, ex["interval"]))
    if ob.get("C0") is not False:
        bad.append(("is-complete-after-setup", "is_complete() is %r right after setup()%s" % (ob.get("C0"), " on an engine object that ran a simulation before" if info.get("reuse") else ""),
                    ob.get("C0"), False))
    if ob.get("script_changed"):
        bad.append(("setup-modifies-script", "setup() changed the caller's script: %s" % ob["script_changed"][0]["field"], ob["script_changed"][:3], []))
    for when, so in ob.get("sims", []):
        if manual or all(U):
            break          # explicit sample() calls add records; a drive that hit its iteration cap did not finish the run
        if so["hash"] != out["hash"]:
            bad.append(("simulate-records:%s" % when, "simulate_script() on the same engine object (%s the step-by-step run) does not record what the step-by-step run of the "
                        "same script records" % when, {"t": so["t"][:10], "n": so["nsamples"]}, {"t": out["t"][:10], "n": out["nsamples"]}))
            break
    # ---- completion: the first False; later calls change nothing
    first_false = next((i for i, u in enumerate(U) if not u), None)
    n_steps = first_false + 1 if first_false is not None else len(U)   # iterate() calls that may have advanced the clock
    if first_false is not None:
        for i in range(first_false + 1, len(U)):
            if U[i] or T[i + 1] != T[first_false + 1] or X[i + 1] != X[first_false + 1]:
                bad.append(("after-complete", "an iteration after completion changed time / state / status",
                            {"i": i, "U": U[i], "T": T[i + 1]}, {"T": T[first_false + 1]}))
                break
    for i, (u, c) in enumerate(zip(U, ob["C"])):
        if c != (not u):
            bad.append(("is-complete", "is_complete() differs from the value returned by iterate()", {"i": i, "iterate": u, "is_complete": c}, None))
            break
    # ---- fixed-step clock and completion step
    if fixed:
        fdt = frac(dt)
        for n in range(1, n_steps + 1):
            want = fdt * n
            ok = (frac(T[n]) == want) if info["dyadic"] else close(T[n], want, rel=1e-9)
            if not ok:
                bad.append(("clock", "step %d is not at n*dt" % n, T[n], float(want)))
                break
        if tmax >= 0:
            n_exact = int(frac(tmax) / fdt) + 1          # first n with n*dt > t_max
            if first_false is None:
                if len(U) >= n_exact + 2:
                    bad.append(("no-completion", "no completion reported after %d steps, t_max/dt = %s" % (len(U), float(frac(tmax) / fdt)), len(U), n_exact))
            else:
                got = first_false + 1
                okn = (got == n_exact) if info["dyadic"] else abs(got - n_exact) <= 1
                if not okn:
                    bad.append(("completion-step", "completion reported after %d steps, the first step beyond t_max is %d" % (got, n_exact), got, n_exact))
                if not (T[got] > tmax) or (got >= 2 and T[got - 1] > tmax and info["dyadic"]):
                    bad.append(("completion-time", "completion not at the first step time beyond t_max", [T[got - 1], T[got]], tmax))
    # ---- the run driven only by iterate_n(k) + is_complete(): completion is reported after the expected number of steps
    pl = ob.get("poll")
    if pl and info.get("poll_k"):
        k = info["poll_k"]
        ncl = pl["ret"]["ncalls"]
        if ncl >= 1000 and not fixed and not (tmax >= 0 and pl["ret"]["T"] > tmax):
            notes_cap = True       # a Gillespie run with more events than the cap of this driver: nothing to judge
        elif ncl >= 1000 or pl["complete_after"] is not True:
            bad.append(("is-complete-after-iterate_n", "driven by `while not is_complete(): iterate_n(%d)`: is_complete() is still %r after %d calls (clock %r, t_max %r)"
                        % (k, pl["complete_after"], ncl, pl["ret"]["T"], tmax), {"calls": ncl, "is_complete": pl["complete_after"]}, {"is_complete": True}))
        elif fixed and tmax >= 0:
            n_exact = int(frac(tmax) / frac(dt)) + 1
            want = -(-n_exact // k)
            okc = (ncl == want) if info["dyadic"] else abs(ncl - want) <= 1
            if not okc:
                bad.append(("completion-step:iterate_n", "driven by `while not is_complete(): iterate_n(%d)`: %d calls were made, the first step beyond t_max is step %d (%d calls)"
                            % (k, ncl, n_exact, want), ncl, want))
        if first_false is not None and not manual and ncl < 1000 and pl["complete_after"] is True and pl["hash"] != out["hash"]:
            bad.append(("records:iterate_n", "the run driven by iterate_n(%d) + is_complete() does not record what the step-by-step run records" % k, pl["hash"], out["hash"]))
    if tmax > 0 and not close(ob["progress"], frac(100) * frac(T[-1]) / frac(tmax), rel=1e-9):
        bad.append(("progress", "get_progress() is not 100*t/t_max", ob["progress"], float(100 * T[-1] / tmax)))
    if tmax <= 0 and ob["progress"] != 0.0:
        bad.append(("progress-no-tmax", "get_progress() is not 0 for t_max <= 0", ob["progress"], 0.0))
    # ---- default t_max
    if not info["explicit_tmax"] and ts and tmax != ts[-1]:
        bad.append(("default-tmax", "default t_max is not the last requested time", tmax, ts[-1]))
    # ---- records: each one is a step's (time, state)
    tf, qf = meta["tfactor"], meta["qfactor"]
    rt = out["t"]
    data = out["data"]
    rec_steps = []
    pos = 0
    for k, t in enumerate(rt):
        # the step with that time, searching forward (times never decrease)
        n = pos
        while n < len(T) and not (T[n] * tf == t or close(t, frac(T[n]) * frac(tf), rel=1e-12)):
            n += 1
        if n == len(T):
            bad.append(("record-time", "record %d has time %r which is no step time at or after the previous record" % (k, t), t, None))
            return bad
        rec_steps.append(n)
        pos = n
        xs = data[k * ns * nc:(k + 1) * ns * nc]
        want = X[n]
        okx = all(lc.fmatch(a, b, qf) for a, b in zip(xs, want))
        if not okx:
            bad.append(("record-state", "record %d (t=%r) does not hold the state of its step in [species][cell] order" % (k, t), xs[:8], [b * qf for b in want][:8]))
            return bad
    for a, b in zip(rt, rt[1:]):
        if b < a or (b == a and not manual):
            bad.append(("times-order", "recorded times are not %s" % ("non-decreasing" if manual else "strictly increasing"), [a, b], None))
            break
    # ---- order against RDSystem.state for unprocessed initial states / static systems
    unprocessed = info["mode"] == "none" or (info["mode"] == "auto" and info["option"] == "euler")
    if unprocessed and X[0] != meta["x0"]:
        bad.append(("initial-state", "state after setup with processing 'none' is not the script's state", X[0][:8], meta["x0"][:8]))
    for k, n in enumerate(rec_steps):
        if (n == 0 and unprocessed) or (info["static"] and unprocessed):
            xs = data[k * ns * nc:(k + 1) * ns * nc]
            if not all(lc.fmatch(a, b) for a, b in zip(xs, meta["x0_out"])):
                bad.append(("t0-record" if n == 0 else "static-order", "record at step %d differs from RDSystem.state (species-major)" % n, xs[:8], meta["x0_out"][:8]))
                break
    # ---- which steps are recorded (policy records only)
    last = n_steps                      # sampling happens on steps 0..n_steps (the completing step still samples)
    if first_false is not None and T[first_false + 1] == T[first_false] and not fixed:
        last = first_false              # Gillespie a0 == 0: the completing call made no step
    exhausted = last != n_steps
    notes = job["info"].setdefault("notes", [])
    expected = None
    ambiguous = False
    fT = [frac(t) for t in T]
    if policy == "on_t_sample":
        fts = [frac(t) for t in ts]
        expected = [n for n in range(0, last + 1) if any((n == 0 or fT[n - 1] < q) and q <= fT[n] for q in fts)]
        # each requested time not beyond t_max is covered by the record of the first step at or after it
        for q in fts:
            if tmax >= 0 and q <= frac(tmax) and first_false is not None:
                cover = next((n for n in range(0, last + 1) if fT[n] >= q), None)
                if cover is None and exhausted:
                    # Gillespie ran out of events (a0 == 0) before this request: there is no event time at or after it
                    notes.append("gillespie_exhausted_before_request")
                    continue
                if cover is None or cover not in rec_steps:
                    bad.append(("cover", "requested time %s <= t_max is not covered by the record of the first step at or after it" % float(q),
                                {"recorded": rt[:10]}, {"step": cover, "time": T[cover] if cover is not None else None}))
                    break
    elif policy == "on_iteration":
        expected = list(range(0, last + 1))
    elif policy == "on_interval":
        if iv > 0:
            fiv = frac(iv)
            fl, cand = [], []
            for n in range(0, last + 1):
                q = fT[n] / fiv
                r = round(q)
                f0 = math.floor(q)
                # the double quotient may land on the other side of a nearby integer: both floors are possible
                near = q != r and abs(q - r) < Fraction(1, 10 ** 9) * max(1, abs(r))
                cand.append((min(f0, r - 1) if near else f0, max(f0, r) if near else f0))
                fl.append(f0)
            for n in range(1, last + 1):
                certain_yes = cand[n][0] > cand[n - 1][1]
                certain_no = cand[n][1] <= cand[n - 1][0]
                if not (certain_yes or certain_no):
                    ambiguous = True      # only when the rounding can change whether the step is recorded
            expected = [0] + [n for n in range(1, last + 1) if fl[n] > fl[n - 1]]
            # every multiple is covered by the first step at or after it
    else:
        expected = []
    if ambiguous:
        return bad + [("ambiguous", None, None, None)]
    if expected is not None:
        if not manual:
            if rec_steps != expected:
                bad.append(("records:%s" % policy, "recorded steps differ from the contract of %s" % policy,
                            {"steps": rec_steps[:20], "times": rt[:20]}, {"steps": expected[:20], "times": [T[n] for n in expected[:20]]}))
        else:
            if not set(expected) <= set(rec_steps):
                bad.append(("records-manual:%s" % policy, "a policy record is missing when explicit sample() calls are mixed in",
                            {"steps": rec_steps[:20]}, {"steps": expected[:20]}))
            allowed = set(expected) | set(s for s in info["samples"]) | ({0} if info["pre_sample"] else set())
            allowed |= set(range(last, len(T)))      # iterations past completion do not move: their samples sit at the last time
            if not set(rec_steps) <= allowed:
                bad.append(("records-extra:%s" % policy, "a record exists that neither the policy nor an explicit sample() explains",
                            {"steps": rec_steps[:20]}, {"allowed": sorted(allowed)[:30]}))
    return bad


# ---------------------------------------------------------------------------------------------
# DERIVED scripts: the object that is run was obtained from another script object through the package's own routes
# (copy(), deepcopy, the script kept in a trajectory), then edited through its setters.  Ground truth (requested times,
# time step, t_max explicit or "default" = last requested time) is what the CALLER asked for, computed here.
# ---------------------------------------------------------------------------------------------
DERIVATIONS = [["copy"], ["traj"], ["setup_traj"], ["deepcopy"], ["copy", "copy"], ["traj", "copy"], ["copy", "traj"], ["copy"], ["traj"]]


def make_derived_job(rng, jid, option, policy):
    kw = dict(units=False, max_steps=40, policy=policy, zero_tmax=False)
    if option == "gillespie":
        kw["mode"] = "auto"
    if rng.random() < 0.7:
        kw["default_tmax"] = True
    S, info = lc.gen_script(rng, option, **kw)
    bkw = {k: v for k, v in S["kw"].items() if not k.startswith("__")}
    ts0, dt0 = list(bkw["t_sample"]), bkw["time_step"]
    tm0 = bkw.get("t_max")                       # None: "default"
    hint = (tm0 if tm0 is not None else ts0[-1]) or dt0 * 8
    edits = []
    dt1 = dt0
    if rng.random() < 0.25:
        dt1 = dt0 * rng.choice([2.0, 0.5])
        edits.append(["time_step", dt1])
    # t_max of the derived script: stays as it is (mostly), or explicit <-> "default"
    r = rng.random()
    if tm0 is None:
        tm1 = None if r < 0.8 else dt1 * (rng.randint(1, 60) + rng.choice([0.0, 0.5]))
    else:
        tm1 = None if r < 0.5 else tm0
    if tm1 != tm0:
        edits.append(["t_max", "default" if tm1 is None else tm1])
    # another request list (shorter, longer, same horizon); kept as it is now and then
    ts1 = ts0
    if rng.random() < 0.85 or (tm1 is None and not ts0):
        for _ in range(50):
            cand, style = lc.gen_tsamples(rng, dt1, max(hint, dt1) * rng.choice([0.5, 1.0, 2.0, 3.0]))
            horizon = tm1 if tm1 is not None else (cand[-1] if cand else None)
            if horizon is not None and horizon / dt1 <= 380 and (cand or tm1 is not None):
                ts1 = cand
                info["style"] = style
                break
        if ts1 is not ts0:
            edits.append(["t_sample", ts1])
    if tm1 is None and (not ts1 or ts1[-1] / dt1 > 380):
        tm1 = dt1 * 20.5
        edits = [e for e in edits if e[0] != "t_max"] + [["t_max", tm1]]
    rng.shuffle(edits)
    tmax = tm1 if tm1 is not None else ts1[-1]
    derive = rng.choice(DERIVATIONS)
    info.update(explicit_tmax=tm1 is not None, expect=None, samples=[], pre_sample=0, reuse=False, via="iterate", poll_k=None,
                derived=derive, edited=[e[0] for e in edits], fractional_none=False,
                truth={"tsamples": [float(t) for t in ts1], "tmax": float(tmax), "dt": float(dt1), "interval": float(bkw.get("sampling_interval", 1.0)),
                       "source_tsamples": [float(t) for t in ts0], "source_tmax": float(tm0 if tm0 is not None else ts0[-1]) if (tm0 is not None or ts0) else None})
    return {"id": jid, "kind": "derived", "option": option, "system": S["system"], "kw": bkw, "derive": derive, "edits": edits,
            "max": 400, "past_end": 2, "size": info["nsp"] * info["n"], "info": info}


def run_derived(jobs, parallel=4, chunk=8):
    """{job id: {"status": "ok" | "crash:<rc>" | "timeout", "res": observations}} — each chunk of jobs in one sandboxed child"""
    import json, os, tempfile, shutil
    from concurrent.futures import ThreadPoolExecutor
    so = common.build_engine("plain")
    queue = [jobs[i:i + chunk] for i in range(0, len(jobs), chunk)]

    def work(ch):
        out = {}
        pending = list(ch)
        while pending:
            d = tempfile.mkdtemp(prefix="c09_jobs_")
            try:
                spec = os.path.join(d, "jobs.json")
                with open(spec, "w") as f:
                    json.dump({"so": so, "jobs": [{k: v for k, v in j.items() if k != "info"} for j in pending]}, f)
                status, stdout = common.run_child("import sys; sys.argv = ['c09_child', %r]; import c09_child; c09_child.main()" % spec,
                                                  timeout=30 + 15 * len(pending), kind_env={"TMPDIR": d})
            finally:
                shutil.rmtree(d, ignore_errors=True)
            got = {}
            for ln in (stdout or "").splitlines():
                if ln.startswith("R "):
                    try:
                        r = json.loads(ln[2:])
                        got[r["job"]] = r
                    except ValueError:
                        pass
            nxt, failed = [], False
            for j in pending:
                if j["id"] in got:
                    out[j["id"]] = {"status": "ok", "res": got[j["id"]]}
                elif not failed:
                    if status == "ok":
                        raise common.CheckBroken("c09_child finished without reporting job %s" % j["id"])
                    out[j["id"]] = {"status": status, "res": None, "stderr": (stdout or "")[-600:]}
                    failed = True
                else:
                    nxt.append(j)
            pending = nxt
        return out

    final = {}
    if parallel > 1 and len(queue) > 1:
        with ThreadPoolExecutor(max_workers=parallel) as ex:
            for out in ex.map(work, queue):
                final.update(out)
    else:
        for ch in queue:
            final.update(work(ch))
    return final


def derived_ob(job, r):
    """observations of a derived-script job in the form the oracle reads; the time quantities of `meta` are the CALLER's"""
    tr = job["info"]["truth"]
    meta = dict(r["meta"], tsamples=tr["tsamples"], tmax=tr["tmax"], dt=tr["dt"], interval=tr["interval"])
    return {"poll": None, "inits": [], "meta": meta, "T0": r["T0"], "X0": r["X0"], "T": r["T"], "U": r["U"], "X": r["X"], "C": r["C"],
            "progress": r["progress"], "out": r["out"], "C0": r["C0"], "sims": [], "script_changed": []}


def derived_oracle(job, r):
    """what the caller reads back from the script objects: the requested times, and t_max = the explicit value or, left at its
    default, the last requested time — on the derived script after its edits and on the source script after that"""
    info = job["info"]
    tr = info["truth"]
    how = "script obtained by %s, then %s assigned" % (" + ".join(info["derived"]), ", ".join(info["edited"]) or "nothing")
    bad = []
    g = r["derived"]
    if g["t_sample"] != tr["tsamples"]:
        bad.append(("requests:derived", "requested times of the %s are not the ones assigned" % how, g["t_sample"][:8], tr["tsamples"][:8]))
    if g["t_max"] != tr["tmax"]:
        bad.append(("default-tmax:derived" if not info["explicit_tmax"] else "explicit-tmax:derived",
                    "t_max of the %s is %r; %s" % (how, g["t_max"], "left at its default it is the last requested time" if not info["explicit_tmax"] else "it was assigned"),
                    g["t_max"], tr["tmax"]))
    s = r["source"]
    if s["t_sample"] != tr["source_tsamples"] or (tr["source_tmax"] is not None and s["t_max"] != tr["source_tmax"]):
        bad.append(("source-after-derived-edit", "requested times / t_max of the SOURCE script changed when the %s" % how,
                    {"t_sample": s["t_sample"][:8], "t_max": s["t_max"]}, {"t_sample": tr["source_tsamples"][:8], "t_max": tr["source_tmax"]}))
    return bad


def derived_stream(ctx, n, ops, metas, tag="d"):
    rng = ctx.rng
    jobs = []
    for i in range(n):
        option = ["euler", "tauleap", "euler", "tauleap", "gillespie"][i % 5]
        jobs.append(make_derived_job(rng, "%s%d" % (tag, i), option, lc.POLICIES[(i // 2) % 4]))
    res = run_derived(jobs, parallel=ctx.n(6, 8))
    for job in jobs:
        judge_derived(ctx, job, res[job["id"]], ops, metas)


def judge_derived(ctx, job, rr, ops=None, metas=None):
    """-> list of failures (also reported to ctx when given)"""
    info = job["info"]
    case = {"job": job}
    if ctx is not None:
        ctx.count("derived_script_runs")
        ctx.count("derived_by_%s" % "+".join(info["derived"]))
        for e in info["edited"]:
            ctx.count("derived_then_%s_assigned" % e)
        ctx.count("derived_tmax_%s" % ("explicit" if info["explicit_tmax"] else "default"))
    if rr["status"] != "ok":
        bad = [("lifecycle:%s" % rr["status"].split(":")[0], "the run of a derived script %s" % rr["status"], {"status": rr["status"], "stderr": rr.get("stderr", "")[-400:]}, "every call returns")]
    elif "raised" in rr["res"]:
        bad = [("raised", "a call raised on a valid derived script: %s" % rr["res"]["raised"], rr["res"]["raised"], "no exception")]
    else:
        r = rr["res"]
        ob = derived_ob(job, r)
        bad = derived_oracle(job, r) + oracle(job, ob)
        amb = any(b[0] == "ambiguous" for b in bad)
        bad = [b for b in bad if b[0] != "ambiguous"]
        if ctx is not None:
            ctx.case(json_fp_derived(job), nontrivial=len(ob["T"]) >= 2,
                     sample={"op": "lifecycle(derived)", "derived": info["derived"], "edited": info["edited"], "policy": info["policy"], "option": info["option"],
                             "tsamples": ob["meta"]["tsamples"][:6], "dt": ob["meta"]["dt"], "tmax": ob["meta"]["tmax"], "recorded_t": ob["out"]["t"][:8]})
            ctx.count("steps_total", len(ob["T"]))
            ctx.count("records_total", ob["out"]["nsamples"])
            if amb:
                ctx.count("ambiguous")
            elif ops is not None:
                ops.append(model_op(job, ob))
                metas.append((job, ob, case))
    if ctx is not None:
        if rr["status"] != "ok" or "raised" in (rr["res"] or {}):
            ctx.case(("derived-crash", job["id"]), nontrivial=True)
        for key, what, impl, exp in bad:
            ctx.violation(key, what, case, impl=impl, expected=exp)
    return bad


def json_fp_derived(job):
    import json
    return json.dumps([job["system"], job["kw"], job["derive"], job["edits"], job["option"]], sort_keys=True, default=str)


def model_op(job, ob):
    info, meta = job["info"], ob["meta"]
    T = [ob["T0"]] + ob["T"]
    U = ob["U"]
    stop = None
    first_false = next((i for i, u in enumerate(U) if not u), None)
    if info["option"] == "gillespie" and first_false is not None and T[first_false + 1] == T[first_false]:
        stop = first_false
    # the clock given to the model: times of the steps actually made
    n_made = (first_false + 1 if first_false is not None else len(U)) if stop is None else stop
    clock = T[:n_made + 1]
    sc = lc.script_model_json(meta, info["policy"], info["space"], clock=clock, stop=stop)
    calls = [{"obj": 0, "call": "setup", "script": 0}]
    for _ in range(info["pre_sample"]):
        calls.append({"obj": 0, "call": "sample"})
    for i in range(len(U)):
        calls.append({"obj": 0, "call": "iterate"})
        calls.append({"obj": 0, "call": "is_complete"})
        if (i + 1) in info["samples"]:
            calls.append({"obj": 0, "call": "sample"})
    calls.append({"obj": 0, "call": "get_progress"})
    calls.append({"obj": 0, "call": "get_output"})
    return {"op": "lifecycle", "scripts": [sc], "calls": calls}


def compare_model(job, ob, ans):
    """None if the model's answer matches the observation, else (impl, model)"""
    info, meta = job["info"], ob["meta"]
    obs = ans["ok"]
    k = 1 + info["pre_sample"]
    mU, mC = [], []
    for i in range(len(ob["U"])):
        mU.append(obs[k]); mC.append(obs[k + 1]); k += 2
        if (i + 1) in info["samples"]:
            k += 1
    mprog, mout = obs[k], obs[k + 1]
    if mU != ob["U"] or mC != ob["C"]:
        return ({"U": ob["U"][-6:], "C": ob["C"][-6:], "n": len(ob["U"])}, {"U": mU[-6:], "C": mC[-6:]})
    if not close(ob["progress"], rparse(mprog), rel=1e-9, abs_floor=1e-300):
        return ({"progress": ob["progress"]}, {"progress": mprog})
    if not isinstance(mout, dict):
        return ({"out": "trajectory"}, {"out": mout})
    T = [ob["T0"]] + ob["T"]
    X = [ob["X0"]] + ob["X"]
    tf, qf = meta["tfactor"], meta["qfactor"]
    mt = [rparse(v) for v in mout["t"]]
    rt = ob["out"]["t"]
    if len(mt) != len(rt) or any(not (frac(a) == b * frac(tf) or close(a, b * frac(tf), rel=1e-12)) for a, b in zip(rt, mt)):
        return ({"t": rt[:12], "n": len(rt)}, {"t": [float(v) for v in mt[:12]], "n": len(mt)})
    ns, nc = meta["ns"], meta["n"]
    for kk, n in enumerate(mout["steps"]):
        xs = ob["out"]["data"][kk * ns * nc:(kk + 1) * ns * nc]
        if n >= len(X) or not all(lc.fmatch(a, b, qf) for a, b in zip(xs, X[n])):
            return ({"record": kk, "data": xs[:6]}, {"step": n, "state": (X[n][:6] if n < len(X) else None)})
    return None


def judge_main(ctx, jobs, res, ops, metas):
    """oracle on every step-by-step job of the main stream; the non-ambiguous ones are queued for the model"""
    for job in jobs:
        r = res[job["id"]]
        info = job["info"]
        for key in ("option", "policy", "style", "space"):
            ctx.count("%s_%s" % (key, info[key]))
        ctx.count("dyadic" if info["dyadic"] else "nondyadic")
        ctx.count("units_varied" if info["units"] else "units_default")
        ctx.count("tmax_explicit" if info["explicit_tmax"] else "tmax_default")
        if info["samples"] or info["pre_sample"]:
            ctx.count("with_explicit_samples")
        if info.get("refused_edits"):
            ctx.count("run_after_refused_assignment")
        if info.get("tsample_after"):
            ctx.count("t_sample_assigned_after_construction")
        if info.get("extreme_ratio"):
            ctx.count("interval_ratio_beyond_2^53_%s" % info["space"])
        elif info.get("huge_ratio"):
            ctx.count("interval_ratio_beyond_2^31_%s" % info["space"])
        if info.get("poll_k"):
            ctx.count("driven_by_iterate_n_and_is_complete")
        if info.get("via") == "iterate_n":
            ctx.count("step_by_step_via_iterate_n")
        if info.get("fractional_none"):
            ctx.count("gillespie_none_on_fractional_amounts_not_simulated_to_completion")
        case = {"job": {k: job[k] for k in ("id", "engines", "scripts", "calls", "info")}}
        if r["status"] != "ok":
            ctx.case(("crash", job["id"]), nontrivial=True)
            ctx.violation("lifecycle:%s" % r["status"].split(":")[0], "the run %s at call %s (%s)" % (r["status"], r["at"], job["calls"][r["at"]]["call"] if r["at"] is not None and r["at"] < len(job["calls"]) else "?"),
                          case, impl={"status": r["status"], "stderr": r.get("stderr", "")[-400:]}, expected="every call returns")
            continue
        raised = [x for x in r["results"] if "raised" in x]
        if raised:
            # a valid script must be accepted; default t_max of an empty request list is the one documented exception
            if not (info["style"] == "empty" and not info["explicit_tmax"]):
                ctx.violation("raised", "a lifecycle call raised on a valid script: %s" % raised[0]["raised"], case, impl=raised[0]["raised"], expected="no exception")
            ctx.count("setup_raised_default_tmax_of_empty")
            ctx.case(("raised", job["id"]), nontrivial=False)
            continue
        ob = unpack(job, r)
        steps = len(ob["T"])
        ctx.case(json_fp(job), nontrivial=steps >= 2,
                 sample={"op": "lifecycle", "policy": info["policy"], "option": info["option"], "tsamples": ob["meta"]["tsamples"][:6],
                         "dt": ob["meta"]["dt"], "tmax": ob["meta"]["tmax"], "recorded_t": ob["out"]["t"][:8], "steps": steps})
        ctx.count("steps_total", steps)
        ctx.count("records_total", ob["out"]["nsamples"])
        bad = oracle(job, ob)
        for nt in set(info.get("notes", [])):
            ctx.count(nt)
        if any(b[0] == "ambiguous" for b in bad):
            ctx.count("ambiguous")
            ctx.count("ambiguous_%s_%s" % ("dyadic" if info["dyadic"] else "nondyadic", "units" if info["units"] else "plain"))
            ctx.extra.setdefault("ambiguous_examples", []).append({"dt": ob["meta"]["dt"], "interval": ob["meta"]["interval"], "kw": job["scripts"][0]["kw"].get("sampling_interval")})
            bad = [b for b in bad if b[0] != "ambiguous"]
            amb = True
        else:
            amb = False
        for key, what, impl, exp in bad:
            ctx.violation(key, what, case, impl=impl, expected=exp)
        if not amb:
            ops.append(model_op(job, ob))
            metas.append((job, ob, case))


def compare_all(ctx, ops, metas):
    answers = ctx.model.run(ops) if ops else []
    for (job, ob, case), ans in zip(metas, answers):
        if ans is None:
            continue
        if "ok" not in ans:
            ctx.disagree("lifecycle", case, "trajectory", ans)
            continue
        d = compare_model(job, ob, ans)
        if d is not None:
            ctx.disagree("lifecycle", case, d[0], d[1])


def search(ctx):
    """called when an obligation broke and no input failed yet: the special streams at a larger size — interval ratios beyond
    2^31 / 2^53 / 2^63 on every engine and both space types, and scripts derived from other script objects then edited"""
    rng = ctx.rng
    jobs = []
    for i in range(ctx.n(48, 240)):
        option = lc.OPTIONS[i % 3]
        kw = {"huge_ratio": True, "space_kind": ["grid", "graph"][(i // 3) % 2]}
        jobs.append(make_job(rng, "x%d" % i, option, policy="on_interval", max_steps=40, extreme_ratio=(i % 4 != 3), **kw))
    res = lc.run_jobs(jobs, kind="plain", chunk=ctx.n(10, 60), parallel=ctx.n(6, 8), stall=ctx.n(15, 40))
    ops, metas = [], []
    judge_main(ctx, jobs, res, ops, metas)
    derived_stream(ctx, ctx.n(200, 1500), ops, metas, tag="xd")
    compare_all(ctx, ops, metas)


def run(ctx):
    rng = ctx.rng
    ctx.notes.append("tsample_cover is stated for requests that have a step at or after them: a Gillespie run that exhausts its events "
                     "(a0 == 0) before a requested time <= t_max leaves it uncovered (counted as gillespie_exhausted_before_request)")
    n = ctx.n(150, 5000)
    jobs = []
    for i in range(n):
        option = lc.OPTIONS[i % 3]
        kw = {}
        r = rng.random()
        if r < 0.2:
            kw["static"] = True
            kw["mode"] = "none"
        policy = lc.POLICIES[(i // 3) % 4]
        max_steps = 120 if option != "gillespie" else 40
        if i % 25 == 7 or i % 25 == 20:
            # t / sampling_interval beyond 2^31 (interval around 1 ns, a few steps of 1 s), grid and graph
            kw = {"huge_ratio": True, "space_kind": ["grid", "graph"][(i // 25) % 2] if i % 25 == 7 else ["graph", "grid"][(i // 25) % 2]}
            option = ["euler", "tauleap", "euler", "gillespie"][(i // 25) % 4] if i % 25 == 7 else "tauleap"
        extreme = False
        if i % 25 == 14:
            # t / sampling_interval beyond 2^53 / 2^63 / 2^64, grid and graph, the three engines
            kw = {"huge_ratio": True, "space_kind": ["grid", "graph"][(i // 25) % 2]}
            option = ["euler", "tauleap", "gillespie", "tauleap", "euler", "gillespie"][(i // 25) % 6]
            extreme = True
        if i % 25 == 12:
            kw = {"nearmiss": True}
            option = ["euler", "tauleap"][(i // 25) % 2]
        if i % 25 in (3, 16, 22):
            kw = dict(kw, refused_edits=True)          # a refused assignment (caught) precedes the run
        if i % 25 in (5, 18):
            kw = dict(kw, tsample_after=True)          # default t_max, request list assigned after construction
            option = ["euler", "tauleap"][(i // 25) % 2]
        jobs.append(make_job(rng, "s%d" % i, option, policy=policy, max_steps=max_steps, extreme_ratio=extreme, **kw))
    res = lc.run_jobs(jobs, kind="plain", chunk=ctx.n(10, 60), parallel=ctx.n(6, 8), stall=ctx.n(15, 40))
    ops, metas = [], []
    judge_main(ctx, jobs, res, ops, metas)
    # ---- scripts derived from other script objects (copy / trajectory.script), edited, then run
    derived_stream(ctx, ctx.n(40, 600), ops, metas)
    compare_all(ctx, ops, metas)
    # ---- t_max default (model of the RDScript getter) and export layout
    import strengths as st
    from strengths.units import UnitArray
    sysd = st.rdsystem_from_dict({"network": {"species": [{"label": "A"}]}, "space": {"type": "grid", "w": 1, "h": 1, "d": 1}})
    ops, metas = [], []
    for i in range(ctx.n(40, 400)):
        ts = sorted(rng.choice([0.0, 0.5, 1.0, 2.5, 7.0]) for _ in range(rng.randint(0, 4)))
        tm = rng.choice([None, None, 3.0, 0.0, -1.0])
        ops.append({"op": "script_tmax", "tmax": None if tm is None else rstr(tm), "tsample": [rstr(t) for t in ts]})
        metas.append((ts, tm))
    answers = ctx.model.run(ops)
    for (ts, tm), ans in zip(metas, answers):
        try:
            sc = st.RDScript(sysd, t_sample=ts, t_max="default" if tm is None else tm)
            got = float(sc.t_max.value)
        except Exception as ex:  # noqa
            got = "error"
        case = {"t_sample": ts, "t_max": tm}
        ctx.case(("tmax", tuple(ts), tm), nontrivial=tm is None)
        ctx.count("tmax_default_cases")
        want = "error" if (tm is None and not ts) else (ts[-1] if tm is None else tm)
        if got != want:
            ctx.violation("default-tmax", "RDScript.t_max is %r, the contract gives %r" % (got, want), case, impl=got, expected=want)
        if ans is not None:
            m = "error" if "error" in ans else float(rparse(ans["ok"]))
            if m != got:
                ctx.disagree("script_tmax", case, got, ans)


def json_fp(job):
    import json
    return json.dumps([job["scripts"], job["calls"]], sort_keys=True, default=str)


def replay(ctx, rec):
    case = rec.get("case", rec)
    if "job" not in case:
        if "t_sample" in case:
            import strengths as st
            sysd = st.rdsystem_from_dict({"network": {"species": [{"label": "A"}]}, "space": {"type": "grid", "w": 1, "h": 1, "d": 1}})
            try:
                got = float(st.RDScript(sysd, t_sample=case["t_sample"], t_max="default" if case["t_max"] is None else case["t_max"]).t_max.value)
            except Exception:  # noqa
                got = "error"
            want = "error" if (case["t_max"] is None and not case["t_sample"]) else (case["t_sample"][-1] if case["t_max"] is None else case["t_max"])
            return got == want, {"impl": got, "expected": want}
        return False, {"note": "unreadable replay record"}
    job = dict(case["job"])
    if job.get("kind") == "derived":
        rr = run_derived([job], parallel=1)[job["id"]]
        bad = judge_derived(None, job, rr)
        return (not bad), {"failures": [{"key": b[0], "what": b[1], "impl": b[2], "expected": b[3]} for b in bad],
                           "derived": (rr["res"] or {}).get("derived"), "clock": ((rr["res"] or {}).get("T") or [])[:20],
                           "recorded_t": (((rr["res"] or {}).get("out") or {}).get("t") or [])[:20], "truth": job["info"]["truth"]}
    res = lc.run_jobs([job], kind="plain", parallel=1)
    r = res[str(job["id"])]
    if r["status"] != "ok":
        return False, {"status": r["status"], "at": r["at"], "stderr": r.get("stderr", "")[-600:]}
    raised = [x for x in r["results"] if "raised" in x]
    if raised:
        return False, {"raised": raised[0]["raised"]}
    ob = unpack(job, r)
    bad = [b for b in oracle(job, ob) if b[0] != "ambiguous"]
    return (not bad), {"failures": [{"key": b[0], "what": b[1], "impl": b[2], "expected": b[3]} for b in bad],
                       "recorded_t": ob["out"]["t"][:20], "clock": ([ob["T0"]] + ob["T"])[:20], "meta": {k: ob["meta"][k] for k in ("tsamples", "tmax", "dt", "interval")}}
