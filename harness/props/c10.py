"""C10 — Simulations terminate, and the engine lifecycle is crash-free and isolated.

Theorems: lean/Strengths/Props/C10.lean over Model/Lifecycle.lean (native globals with null/live/dangling
pointers + LibRDEngine wrapper attributes, one or two engine objects on one library), entry points and wrapper
methods tied to the regenerated source text.
Harness: call histories over one or two engine objects are executed on the REAL engine in sandboxed children
(crash and hang detection per call).  Each script is first run alone, step by step, in a fresh process
(reference: clock, completion step, trajectory).
Correspondence: op `lifecycle` — the model must predict every return value of every history (including the
histories with two live engines, where the model shares the native simulation like the code does).
Oracle (reference state machine written from the property, independent of the model): every call returns in
time; iterate/iterate_n/run report "unfinished" exactly until the reference completion step; is_complete is
False after setup and True from completion on; outputs are prefixes of / equal to the fresh-process trajectory;
get_output is repeatable; finalize any number of times; a new set-up behaves like a fresh process; each engine
object behaves as if it were alone (also through a shared RDScript object: set-up never changes the caller's script);
simulate_script() drives a simulation that needs several run(1000) slices (about 2 s of wall time, calibrated) to completion.
"""
import json
from fractions import Fraction
import common
from common import frac, rstr, rparse, close
import life_common as lc

ID = "C10"
LEAN_TARGETS = ["Strengths.Props.C10"]
PROP_FILES = ["Strengths/Props/C10.lean"]
GEN_GROUPS = ["EngineCpp", "ScriptPy", "EngineLife"]
RULE = ("histories of lifecycle calls (setup / iterate / iterate_n(k) / run(0|1 ms) / sample / get_progress / is_complete / get_output / "
        "finalize) starting with setup: one engine object respecting the documented lifecycle (quick: sampled, length <= 6; thorough: "
        "also random up to length 40), two objects with non-overlapping live intervals, two objects with overlapping ones, calls on "
        "a released engine, iterate_n(k<=0) after completion, one RDScript object (quantity unit mol / µmol) set up on two engine objects "
        "and again on the first, another engine object (never set up / finalized / temporary) garbage-collected while one is mid-run, "
        "output fetched, the returned object modified by the caller, output fetched again; scripts with large molecule numbers (odd cell amounts in "
        "2^24..2^31, 2^31..2^32, 2^32..2^36, or cells below 2^30 whose species total passes 2^31; every initial-state policy; rate constants scaled "
        "so that Poisson means stay small) in fresh processes and mixed with ordinary ones in one process; three runs mixing grid and graph with the middle one abandoned; "
        "fixed-step runs landing exactly on t_max polled with is_complete(); "
        "simulate_script on a run of ~2 s, run(ms) slices timed on a simulation with 10^9 steps left, "
        "iterate_n(k) with k around and at multiples of 1024; scripts: 3 engines x grid/graph x 4 policies incl. species totals "
        "below one molecule; non-trivial when the history has >= 3 calls; distinct by (scripts, calls)")
ASSUMPTIONS = [
    "a call that prints nothing for 6 s (quick) on these tiny systems is a hang (reference runs take milliseconds)",
    "calls on a released engine (between finalize() and the next setup()) are part of the histories: they must return at once",
    "run(ms): the number of iterations it performed is read off the native clock after the call (wall-clock dependent)",
    "large molecule numbers (cell amounts / species totals up to 2^36 and beyond 2^31): rate constants and diffusion coefficients are scaled so "
    "that the run stays short; Poisson means beyond the range of int (tau-leap channel with propensity x time_step >= 2^31, "
    "init_state_processing='Poisson' on a cell >= 2^31) ARE generated: std::poisson_distribution<int> never returned there (genuine defect, "
    "repaired by f4d954c / fix30: the draws use <long long>)",
]
TRUSTED = ["life_child.py (sandboxed driver of the real engine)", "reference state machine in this file (written from the property)"]

KEY_SHARED = "two-engines-share-native"
KEY_UAF = "use-after-finalize"
KEY_ITN0 = "iterate_n-nonpositive-resets-completion"
KEY_SLICE = "run-slice-overrun"
KEY_GC = "gc-of-another-engine-object-disturbs-the-run"
SLICE_MARGIN = 1.0      # seconds beyond the requested slice (one iteration of these systems takes microseconds)

# ---------------------------------------------------------------------------------------------
# large molecule numbers: amounts per cell and species totals beyond 2^24 (float mantissa), 2^31 (C int), 2^32 (unsigned)
# ---------------------------------------------------------------------------------------------
# (name, lowest exponent, highest exponent): a cell amount is an ODD whole number in [2^lo, 2^hi)
BIG_BANDS = [("2^24..2^31", 24, 30), ("2^31..2^32", 31, 32), ("2^32..2^36", 32, 36)]
BIG_CHANNEL_MEAN = 20.0      # propensity (per unit of time) every reaction / diffusion channel is scaled down to: the Poisson
                             # means of a tau-leap step (propensity * dt, dt <= 1) stay far below 2^31 (size assumption of
                             # std::poisson_distribution<int>, a known defect repaired separately; DESIGN §4)


def _side_order(side):
    n = 0
    for term in side.split("+"):
        tok = term.split()
        if not tok:
            continue
        n += int(tok[0]) if len(tok) == 2 else 1
    return n


def _scale(v, f):
    return {k: x * f for k, x in v.items()} if isinstance(v, dict) else v * f


def magnify(rng, S, info, band, sum_only=False, channel_mean=None):
    """turn a generated (valid) script into one of the class "large molecule numbers": the amounts of ONE species (sometimes
    of every species) become odd whole numbers of the band; with `sum_only` every single cell stays below 2^30 and only the
    species TOTAL passes 2^31 (needs >= 3 cells, otherwise falls back to the band).  Rate constants and diffusion
    coefficients are scaled down by the amount to the power of the reaction order, so that every channel's propensity is
    about BIG_CHANNEL_MEAN at most."""
    sysd = S["system"]
    nsp, n = info["nsp"], info["n"]
    name, lo, hi = band
    channel_mean = BIG_CHANNEL_MEAN if channel_mean is None else channel_mean
    M = 1.0
    state = list(sysd["state"])
    which = [rng.randrange(nsp)] if rng.random() < 0.7 else list(range(nsp))
    mode = S["kw"].get("init_state_processing")
    for s in which:
        if sum_only and n >= 3:
            vals = [float(rng.randrange(2 ** 29, 2 ** 30) | 1) for _ in range(n)]     # n >= 3 cells of >= 2^29: total >= 2^31
            name = "cells<2^30,total>=2^31"
        else:
            # (Poisson mode: one draw per cell with the amount as mean, also beyond the range of int — repaired by fix30)
            vals = [float(rng.randrange(2 ** lo, 2 ** hi) | 1) for _ in range(n)]
            if n > 1 and rng.random() < 0.4:
                vals[rng.randrange(n)] = float(rng.choice([0, 1, 7]))      # an (almost) empty cell next to the full ones
        state[s * n:(s + 1) * n] = vals
        M = max(M, max(vals))
    sysd["state"] = state
    for r in sysd["network"]["reactions"]:
        lhs, _, rhs = r["eq"].partition("->")
        r["k+"] = _scale(r["k+"], channel_mean / M ** _side_order(lhs))
        if "k-" in r:
            r["k-"] = _scale(r["k-"], channel_mean / M ** _side_order(rhs))
        else:
            r["k-"] = 0          # (the default reverse rate constant is not scaled by anyone: state it)
    for sp in sysd["network"]["species"]:
        if "D" in sp:
            sp["D"] = _scale(sp["D"], BIG_CHANNEL_MEAN / M)
    totals = [sum(state[s * n:(s + 1) * n]) for s in range(nsp)]
    info.update(big=name, big_total=max(totals), big_cell=M)
    return S, info


# ---------------------------------------------------------------------------------------------
# script pool with fresh-process references
# ---------------------------------------------------------------------------------------------
def make_pool(ctx, n, kind="plain", degenerate=False, n_big=0):
    rng = ctx.rng
    pool = []
    for i in range(n):
        option = lc.OPTIONS[i % 3]
        # amounts below one molecule: at random, and always on four fixed positions of the pool (both stochastic engines)
        sub = (option != "euler") and (rng.random() < 0.35 or i % 12 in (1, 2, 7, 8))
        forced0 = (i % 9 == 4)            # t_max exactly 0 ("just the initial state"), both space types
        forced_q = (i % 5 == 3)
        S, info = lc.gen_script(rng, option, max_steps=24 if option != "gillespie" else 8, sub_molecule=sub,
                                mode=("auto" if sub else None), units=("force" if forced_q else rng.random() < 0.3),
                                quantity=(rng.choice(["mol", "µmol"]) if forced_q else None), refused_edits=(i % 7 == 2),
                                exact_tie=(i % 6 == 5 and option != "gillespie") or (i % 12 == 3 and option == "euler"),
                                zero_tmax=(True if forced0 else None), space_kind=(["grid", "graph"][(i // 9) % 2] if forced0 else None),
                                degenerate=(degenerate and rng.random() < 0.7))
        info["sub_molecule"] = sub
        pool.append({"S": S, "info": info, "option": option, "idx": i})
    # large molecule numbers (see magnify): the stochastic engines under every initial-state policy (redistribution "auto" /
    # "redist" first: its loop counts whole molecules), Euler too ("redist" / "Poisson" process its state as well); the three
    # bands by turns, and species whose TOTAL only passes 2^31
    for b in range(n_big):
        option = ["tauleap", "gillespie", "tauleap", "gillespie", "euler"][b % 5]
        mode = ["auto", "redist", "redist", "auto", "redist", "none", "Poisson", "none", "auto", "Poisson"][b % 10]
        if option == "euler" and rng.random() < 0.5:
            mode = rng.choice(["none", "auto"])
        beyond = (b % 10 == 5)      # tau-leap, "none": reaction channels whose Poisson mean (propensity x time_step) passes 2^31
        S, info = lc.gen_script(rng, option, max_steps=12 if option != "gillespie" else 6, mode=mode, units=(rng.random() < 0.3 and not beyond),
                                zero_tmax=False, degenerate=(degenerate and rng.random() < 0.5),
                                space_kind=("grid" if b % 4 == 3 else None))
        band = BIG_BANDS[(1, 2, 1, 0)[b % 4]] if not (mode == "none" and rng.random() < 0.5) else BIG_BANDS[0]
        if beyond and isinstance(S["kw"].get("time_step"), (int, float)) and S["kw"]["time_step"] > 0:
            S, info = magnify(rng, S, info, BIG_BANDS[2], channel_mean=2.0 ** 33 / float(S["kw"]["time_step"]))
            info["big"] = "tauleap-mean>=2^31"
        else:
            S, info = magnify(rng, S, info, band, sum_only=(b % 4 == 3))
        info["sub_molecule"] = False
        pool.append({"S": S, "info": info, "option": option, "idx": n + b})
    jobs = []
    for p in pool:
        size = p["info"]["nsp"] * p["info"]["n"]
        jobs.append({"id": "ref%d" % p["idx"], "engines": [p["option"]], "scripts": [p["S"]], "timeout": 10,
                     "calls": [{"obj": 0, "call": "setup", "script": 0, "peek": True},
                               {"obj": 0, "call": "drive", "max": 500, "state": False, "size": size, "samples": [], "past_end": 1},
                               {"obj": 0, "call": "get_output"}, {"obj": 0, "call": "get_output"}, {"obj": 0, "call": "finalize"},
                               {"obj": 0, "call": "finalize"}]})
    res = lc.run_jobs(jobs, kind=kind, chunk=ctx.n(8, 40), parallel=ctx.n(6, 8), stall=ctx.n(6, 20))
    good = []
    for p, j in zip(pool, jobs):
        r = res[j["id"]]
        case = {"job": {k: j[k] for k in ("id", "engines", "scripts", "calls")}, "info": p["info"]}
        ctx.count("ref_runs")
        if p["info"]["sub_molecule"]:
            ctx.count("ref_sub_molecule")
        big = p["info"].get("big")
        if big:
            ctx.count("ref_big_" + big)
            ctx.count("ref_big_total%s2^31_%s" % (">=" if p["info"]["big_total"] >= 2 ** 31 else "<", p["info"]["mode"]))
        if r["status"] != "ok":
            at = r["at"]
            call = j["calls"][at]["call"] if at is not None and at < len(j["calls"]) else "?"
            what = "hang" if r["status"] == "timeout" else "crash"
            ctx.case(("ref", p["idx"]), nontrivial=True)
            ctx.violation("%s:%s%s" % (what, call, ":sub-molecule" if p["info"]["sub_molecule"] else (":large-amounts" if big else "")),
                          "%s of %s() on a valid script in a fresh process (%s)%s" % (what, call, r["status"],
                          "; molecule numbers per cell up to %.17g, largest species total %.17g, init_state_processing %s"
                          % (p["info"]["big_cell"], p["info"]["big_total"], p["info"]["mode"]) if big else ""), case,
                          impl={"status": r["status"], "at": at, "stderr": r.get("stderr", "")[-300:]}, expected="every call returns")
            continue
        rr = r["results"]
        if any("raised" in x for x in rr):
            if not (p["info"]["style"] == "empty" and not p["info"]["explicit_tmax"]):
                ctx.violation("raised", "a lifecycle call raised on a valid script: %s" % [x["raised"] for x in rr if "raised" in x][0], case)
            ctx.count("ref_raised_default_tmax_of_empty")
            continue
        drive = rr[1]["ret"]
        U = drive["U"]
        first_false = next((i for i, u in enumerate(U) if not u), None)
        if first_false is None:
            m = rr[0]["meta"]
            if p["option"] != "gillespie" and m.get("tmax", -1) >= 0 and m.get("dt", 0) > 0 and len(U) > frac(m["tmax"]) / frac(m["dt"]) + 3:
                ctx.violation("no-completion", "a fixed-step run did not complete after %d steps, ceil(t_max/dt) = %s" % (len(U), common.fstr(frac(m["tmax"]) / frac(m["dt"]))),
                              case, impl=len(U), expected="completion after ceil(t_max/dt) steps, give or take one")
            ctx.count("ref_too_long")
            continue
        T = [rr[0]["T"]] + drive["T"]
        stop = first_false if (p["option"] == "gillespie" and T[first_false + 1] == T[first_false]) else None
        p["ref"] = {"meta": rr[0]["meta"], "T": T[:first_false + 2] if stop is None else T[:first_false + 1], "N": first_false + 1,
                    "stop": stop, "out": rr[2]["ret"]}
        if rr[2]["ret"]["hash"] != rr[3]["ret"]["hash"]:
            ctx.violation("output-repeat", "two consecutive get_output() differ", case)
        if U[first_false + 1:] and any(U[first_false + 1:]):
            ctx.violation("complete-sticky", "iterate() returned True after completion", case, impl=U[-4:])
        # fixed-step: completes after ceil(t_max/dt) steps, give or take one
        m = rr[0]["meta"]
        if p["option"] != "gillespie" and m["tmax"] >= 0 and m["dt"] > 0:
            import math
            want = math.ceil(frac(m["tmax"]) / frac(m["dt"]))
            if abs((first_false + 1) - want) > 1:
                ctx.violation("fixed-step-count", "completed after %d steps, ceil(t_max/dt) = %d" % (first_false + 1, want), case,
                              impl=first_false + 1, expected=want)
        good.append(p)
    return good


# ---------------------------------------------------------------------------------------------
# histories
# ---------------------------------------------------------------------------------------------
LIVE_CALLS = ["iterate", "iterate", "iterate_n", "iterate_n", "run0", "run1", "sample", "get_progress", "is_complete", "get_output",
              "get_output", "finalize", "setup"]
DEAD_CALLS = ["finalize", "is_complete", "setup", "setup"]


def rand_call(rng, obj, live, pool_opt, scripts, allow_zero_n=False):
    name = rng.choice(LIVE_CALLS if (live or rng.random() < 0.25) else DEAD_CALLS)
    if name == "setup":
        p = rng.choice(pool_opt)
        if p["idx"] not in scripts:
            scripts[p["idx"]] = len(scripts)
        return {"obj": obj, "call": "setup", "script": scripts[p["idx"]], "pool": p["idx"], "peek": True}
    if name == "iterate_n":
        return {"obj": obj, "call": "iterate_n", "n": rng.choice([1, 2, 3, 7, 50, 1000, 1023, 1024, 1025, 2048, 4096]), "peek": live}
    if name in ("run0", "run1"):
        return {"obj": obj, "call": "run", "ms": 0 if name == "run0" else 1, "peek": live}
    c = {"obj": obj, "call": name}
    if live and name != "finalize":
        c["peek"] = True
    return c


def gen_history(rng, hid, cls, pool_by_opt, length):
    """cls: one | blocks | overlap | uaf | itn0 | shared | gc | refetch | abandon | tie | big"""
    opts = [o for o in lc.OPTIONS if pool_by_opt.get(o)]
    nobj = 2 if cls in ("blocks", "overlap", "shared", "gc") else 1
    engines = [rng.choice(opts) for _ in range(nobj)]
    scripts = {}
    calls = []
    live = [False] * nobj
    if cls == "one":
        c = rand_call(rng, 0, False, pool_by_opt[engines[0]], scripts)
        while c["call"] != "setup":
            c = rand_call(rng, 0, False, pool_by_opt[engines[0]], scripts)
        calls.append(c); live[0] = True
        for _ in range(length - 1):
            c = rand_call(rng, 0, live[0], pool_by_opt[engines[0]], scripts)
            calls.append(c)
            if c["call"] == "setup":
                live[0] = True
            elif c["call"] == "finalize":
                live[0] = False
    elif cls == "blocks":
        obj = 0
        while len(calls) < length:
            c = {"obj": obj, "call": "setup"}
            p = rng.choice(pool_by_opt[engines[obj]])
            scripts.setdefault(p["idx"], len(scripts))
            calls.append({"obj": obj, "call": "setup", "script": scripts[p["idx"]], "pool": p["idx"], "peek": True})
            for _ in range(rng.randint(0, 3)):
                c = rand_call(rng, obj, True, pool_by_opt[engines[obj]], scripts)
                if c["call"] in ("setup", "finalize"):
                    continue
                calls.append(c)
            calls.append({"obj": obj, "call": "finalize"})
            if rng.random() < 0.3:
                calls.append({"obj": obj, "call": "is_complete"})
            obj = 1 - obj
    elif cls == "overlap":
        engines = [engines[0], engines[0]] if rng.random() < 0.5 else engines
        pa = rng.choice(pool_by_opt[engines[0]])
        pb = rng.choice(pool_by_opt[engines[1]])
        scripts[pa["idx"]] = 0
        scripts.setdefault(pb["idx"], len(scripts))
        calls = [{"obj": 0, "call": "setup", "script": scripts[pa["idx"]], "pool": pa["idx"], "peek": True},
                 {"obj": 0, "call": "iterate", "peek": True},
                 {"obj": 1, "call": "setup", "script": scripts[pb["idx"]], "pool": pb["idx"], "peek": True},
                 {"obj": 0, "call": "get_output"}]
        for _ in range(max(0, length - 4)):
            c = rand_call(rng, rng.randrange(2), True, pool_by_opt[engines[0]], scripts)
            if c["call"] in ("setup", "finalize"):
                continue
            calls.append(c)
    elif cls == "shared":
        # ONE RDScript object (the child builds one object per script index) set up on two engine objects one after the
        # other, and again on the first: each must return what it returns when it is the only user of the script
        withq = [o for o in opts if o != "euler" and any(p["info"]["quantity"] != "molecule" for p in pool_by_opt[o])]
        opt = rng.choice(withq or opts)
        engines = [opt, opt]
        cand = [p for p in pool_by_opt[opt] if p["info"]["quantity"] != "molecule"] or pool_by_opt[opt]
        p = rng.choice(cand)
        scripts[p["idx"]] = 0
        for obj in rng.choice([[0, 1, 0], [0, 1], [0, 0], [1, 0, 1]]):
            calls += [{"obj": obj, "call": "setup", "script": 0, "pool": p["idx"], "peek": True},
                      {"obj": obj, "call": "iterate_n", "n": rng.choice([1000, 1024, 2048]), "peek": True}, {"obj": obj, "call": "get_output"},
                      {"obj": obj, "call": "finalize"}]
    elif cls == "refetch":
        # the output is fetched, the caller MODIFIES the object it was given (its .script / its .system), the output is
        # fetched again: same script, system, units, shape and (at the same step) data as the first fetch
        p = rng.choice(pool_by_opt[engines[0]])
        scripts[p["idx"]] = 0
        calls = [{"obj": 0, "call": "setup", "script": 0, "pool": p["idx"], "peek": True}]
        for _ in range(rng.randint(0, 3)):
            calls.append({"obj": 0, "call": "iterate", "peek": True})
        calls += [{"obj": 0, "call": "get_output"},
                  {"obj": 0, "call": "mutate_out", "what": rng.choice(["script_units", "script_units", "script_tsample", "system_state", "script_system"])},
                  {"obj": 0, "call": "get_output"}]
        if rng.random() < 0.6:
            calls += [{"obj": 0, "call": "iterate_n", "n": rng.choice([1, 2, 1000]), "peek": True}, {"obj": 0, "call": "get_output"}]
        calls.append({"obj": 0, "call": "finalize"})
    elif cls == "abandon":
        # three simulations on one engine object mixing the space types: run + finalize, a run that is ABANDONED (the next
        # set-up follows directly), a third run — the mirror orders too
        by_space = {}
        for o in opts:
            for p in pool_by_opt[o]:
                by_space.setdefault(p["info"]["space"], []).append(p)
        kinds = [k for k in ("grid", "graph") if by_space.get(k)]
        a = rng.choice(kinds)
        b = [k for k in kinds if k != a][0] if len(kinds) > 1 else a
        order = rng.choice([[a, b, a], [a, b, b], [a, a, b], [b, a, b]])
        fin = rng.choice([[True, False, True], [False, False, True], [True, False, False]])
        engines = [rng.choice(opts)]
        for sp, f in zip(order, fin):
            cand = [p for p in by_space[sp] if p["option"] == engines[0]] or None
            if cand is None:
                continue
            p = rng.choice(cand)
            scripts.setdefault(p["idx"], len(scripts))
            calls.append({"obj": 0, "call": "setup", "script": scripts[p["idx"]], "pool": p["idx"], "peek": True})
            for _ in range(rng.randint(1, 3)):
                calls.append({"obj": 0, "call": rng.choice(["iterate", "iterate", "sample"]), "peek": True})
            if rng.random() < 0.5:
                calls.append({"obj": 0, "call": "get_output"})
            if f:
                calls.append({"obj": 0, "call": "finalize"})
        calls += [{"obj": 0, "call": "iterate_n", "n": 1000, "peek": True}, {"obj": 0, "call": "get_output"}, {"obj": 0, "call": "finalize"}, {"obj": 0, "call": "finalize"}]
    elif cls == "big":
        # simulations in ONE process that differ in the magnitude of the molecule numbers (2^31 and more / ordinary), on one
        # engine object: large, ordinary, large again (or the mirror), the middle one sometimes abandoned — every set-up
        # returns and behaves like the fresh-process run of its script
        bigs = [p for o in opts for p in pool_by_opt[o] if p["info"].get("big")]
        p0 = rng.choice(bigs) if bigs else rng.choice(pool_by_opt[engines[0]])
        engines = [p0["option"]]
        small = [p for p in pool_by_opt[engines[0]] if not p["info"].get("big")] or [p0]
        same = [p for p in bigs if p["option"] == engines[0]] or [p0]
        order = rng.choice([[p0, rng.choice(small), rng.choice(same)], [rng.choice(small), p0, rng.choice(small)], [p0, rng.choice(same)]])
        for j, p in enumerate(order):
            scripts.setdefault(p["idx"], len(scripts))
            calls.append({"obj": 0, "call": "setup", "script": scripts[p["idx"]], "pool": p["idx"], "peek": True})
            calls.append({"obj": 0, "call": "is_complete"})
            for _ in range(rng.randint(0, 2)):
                calls.append({"obj": 0, "call": rng.choice(["iterate", "iterate", "get_progress"]), "peek": True})
            calls.append(rng.choice([{"obj": 0, "call": "iterate_n", "n": rng.choice([2, 1000, 1024]), "peek": True}, {"obj": 0, "call": "run", "ms": 1, "peek": True}]))
            calls += [{"obj": 0, "call": "get_output"}, {"obj": 0, "call": "get_output"}]
            if j != 1 or rng.random() < 0.5:
                calls.append({"obj": 0, "call": "finalize"})
        calls += [{"obj": 0, "call": "finalize"}, {"obj": 0, "call": "finalize"}]
    elif cls == "tie":
        # a fixed-step run whose clock lands exactly on t_max, polled with is_complete() between the iterations: the status is
        # the one the loop calls returned (not complete at t == t_max; one more step follows)
        ties = [p for o in opts for p in pool_by_opt[o] if p["ref"]["stop"] is None and p["ref"]["N"] >= 2
                and p["ref"]["T"][p["ref"]["N"] - 1] == p["ref"]["meta"]["tmax"] and p["option"] != "gillespie"]
        p = rng.choice(ties) if ties else rng.choice(pool_by_opt[engines[0]])
        engines = [p["option"]]
        scripts[p["idx"]] = 0
        N = p["ref"]["N"]
        calls = [{"obj": 0, "call": "setup", "script": 0, "pool": p["idx"], "peek": True}, {"obj": 0, "call": "is_complete"}]
        if rng.random() < 0.5:
            for _ in range(N + 1):
                calls += [{"obj": 0, "call": "iterate", "peek": True}, {"obj": 0, "call": "is_complete"}]
        else:
            calls += [{"obj": 0, "call": "iterate_n", "n": max(N - 1, 1), "peek": True}, {"obj": 0, "call": "is_complete"}, {"obj": 0, "call": "get_progress"},
                      {"obj": 0, "call": "is_complete"}, {"obj": 0, "call": "iterate", "peek": True}, {"obj": 0, "call": "is_complete"}]
        calls += [{"obj": 0, "call": "get_output"}, {"obj": 0, "call": "finalize"}]
    elif cls == "gc":
        # while object 0 is mid-run, ANOTHER engine object on the same library that is not set up (never was / finalized long
        # ago / a throw-away temporary) loses its last reference and is garbage-collected: object 0 must not notice
        engines = [engines[0], rng.choice(opts)]
        p = rng.choice(pool_by_opt[engines[0]])
        scripts[p["idx"]] = 0
        how = rng.choice(["temp", "never_setup", "finalized_old"])
        if how == "finalized_old":
            q = rng.choice(pool_by_opt[engines[1]])
            scripts.setdefault(q["idx"], len(scripts))
            calls += [{"obj": 1, "call": "setup", "script": scripts[q["idx"]], "pool": q["idx"], "peek": True}, {"obj": 1, "call": "iterate", "peek": True},
                      {"obj": 1, "call": "get_output"}, {"obj": 1, "call": "finalize"}]
        calls.append({"obj": 0, "call": "setup", "script": 0, "pool": p["idx"], "peek": True})
        for _ in range(rng.randint(0, 3)):
            calls.append({"obj": 0, "call": "iterate", "peek": True})
        calls.append({"obj": 0, "call": "temp"} if how == "temp" else {"obj": 1, "call": "drop"})
        if rng.random() < 0.5:
            calls.append({"obj": 0, "call": "is_complete"})
        calls.append(rng.choice([{"obj": 0, "call": "iterate", "peek": True}, {"obj": 0, "call": "iterate_n", "n": 2, "peek": True}]))
        if rng.random() < 0.4:
            calls.append({"obj": 0, "call": "temp"})
        calls += [{"obj": 0, "call": "iterate_n", "n": 1000, "peek": True}, {"obj": 0, "call": "is_complete"}, {"obj": 0, "call": "get_output"},
                  {"obj": 0, "call": "finalize"}]
    elif cls == "uaf":
        p = rng.choice(pool_by_opt[engines[0]])
        scripts[p["idx"]] = 0
        calls = [{"obj": 0, "call": "setup", "script": 0, "pool": p["idx"], "peek": True}, {"obj": 0, "call": "finalize"},
                 {"obj": 0, "call": rng.choice(["iterate", "iterate", "iterate", "sample", "get_output", "get_progress"])}]
        if hid == "h1":
            calls[-1] = {"obj": 0, "call": "iterate"}        # the witness of the recorded finding
        elif calls[-1]["call"] == "iterate" and rng.random() < 0.5:
            calls[-1] = {"obj": 0, "call": rng.choice([{"call": "run", "ms": 0}, {"call": "iterate_n", "n": 2}])}
            calls[-1] = dict(calls[-1]["call"], obj=0)
    elif cls == "itn0":
        p = rng.choice(pool_by_opt[engines[0]])
        scripts[p["idx"]] = 0
        calls = [{"obj": 0, "call": "setup", "script": 0, "pool": p["idx"], "peek": True},
                 {"obj": 0, "call": "iterate_n", "n": rng.choice([100000, 1024, 2048, 4096, 1025]), "peek": True}, {"obj": 0, "call": "is_complete"},
                 {"obj": 0, "call": "iterate_n", "n": rng.choice([0, -1]), "peek": True}, {"obj": 0, "call": "is_complete"},
                 {"obj": 0, "call": "iterate", "peek": True}, {"obj": 0, "call": "is_complete"}]
    inv = {v: k for k, v in scripts.items()}
    return {"id": hid, "engines": engines, "cls": cls, "calls": calls, "pool_ids": [inv[i] for i in range(len(inv))], "timeout": 10}


def reference_machine(job, pool_by_idx, results):
    """the property's own state machine: per engine object as if it were alone.  Returns a list of
    (call index, key, what, impl, expected)"""
    bad = []
    nobj = len(job["engines"])
    st = [None] * nobj      # per object: dict(ref, n, complete_reported, manual, live) or None
    for i, (c, r) in enumerate(zip(job["calls"], results)):
        o = c["obj"]
        k = c["call"]
        if "raised" in r:
            bad.append((i, "raised", "%s() raised %s" % (k, r["raised"]), r["raised"], "no exception"))
            return bad
        ret = r.get("ret")
        if k in ("temp", "mutate_out"):
            continue            # another object came and went / the caller modified ITS copy of an output: nothing changes for anyone
        if k == "drop":
            st[o] = None
            continue
        s = st[o]
        if k == "setup":
            ref = pool_by_idx[c["pool"]]["ref"]
            st[o] = {"ref": ref, "n": 0, "unfinished": True, "manual": False, "live": True}
            if r.get("T") != 0.0:
                bad.append((i, "setup-clock", "clock after setup is %r" % r.get("T"), r.get("T"), 0.0))
            for key, what, impl, exp in lc.init_failures(r) + lc.edit_failures(r):
                bad.append((i, key, what, impl, exp))
            if r.get("script_changed"):
                ch = r["script_changed"][0]
                bad.append((i, "setup-modifies-script", "setup() changed the caller's script (%s: %r -> %r): every later user of that script object is affected"
                            % (ch["field"], ch["before"], ch["after"]), r["script_changed"][:3], []))
            continue
        if k == "is_complete":
            want = (not s["unfinished"]) if s is not None else False
            if ret != want:
                bad.append((i, "is-complete", "is_complete() = %r, the status of the current set-up is %r" % (ret, want), ret, want))
            continue
        if k == "finalize":
            if s is not None:
                s["live"] = False
            continue
        if s is None or not s["live"]:
            # released engine: every call returns at once — drive calls report "finished", nothing is sampled
            if k in ("iterate", "run") or (k == "iterate_n" and c["n"] >= 1):
                if ret is not False:
                    bad.append((i, KEY_UAF, "%s() on a released engine returned %r" % (k, ret), ret, False))
                if s is not None:
                    s["unfinished"] = False
            elif k == "get_progress" and ret != 0.0:
                bad.append((i, KEY_UAF, "get_progress() on a released engine returned %r" % ret, ret, 0.0))
            elif k == "get_output" and (not isinstance(ret, dict) or ret["nsamples"] != 0):
                bad.append((i, KEY_UAF, "get_output() on a released engine is not an empty trajectory", ret if not isinstance(ret, dict) else ret["nsamples"], 0))
            continue
        ref = s["ref"]
        N = ref["N"]
        T = ref["T"]
        if k in ("iterate", "iterate_n", "run"):
            before = s["n"]
            if k == "iterate":
                s["n"] = min(before + 1, N)
            elif k == "iterate_n":
                if c["n"] >= 1:
                    s["n"] = min(before + c["n"], N)
            else:
                if r.get("wall", 0.0) > c["ms"] / 1000.0 + SLICE_MARGIN:
                    bad.append((i, KEY_SLICE, "run(%d) kept control for %.2f s (slice of %d ms + one iteration + margin %.1f s)" % (c["ms"], r["wall"], c["ms"], SLICE_MARGIN),
                                r["wall"], c["ms"] / 1000.0))
                # run: the number of iterations is whatever the clock allowed; read it off the native clock
                t = r.get("T")
                cand = [jj for jj, v in enumerate(T) if v == t and jj >= min(before, len(T) - 1)]
                if not cand:
                    bad.append((i, "run-clock", "clock after run() is no step time of the fresh run at or after the previous step", t, T[:5]))
                    return bad
                if ret is False:
                    s["n"] = N
                    if t != T[-1]:
                        bad.append((i, "run-complete", "run() reported completion but the clock is not at the completing step", t, T[-1]))
                else:
                    s["n"] = cand[0]
                    if s["n"] <= before and before < N:
                        bad.append((i, "run-progress", "run() made no iteration", t, None))
            want = s["n"] < N
            if k == "iterate_n" and c["n"] <= 0:
                want = s["unfinished"]        # no iteration: the status must not change
            if ret != want:
                key = KEY_ITN0 if (k == "iterate_n" and c["n"] <= 0) else "drive-return"
                bad.append((i, key, "%s returned %r after %d of %d steps" % (k, ret, s["n"], N), ret, want))
            s["unfinished"] = want if not (k == "iterate_n" and c["n"] <= 0) else bool(ret)   # (reported once; no cascade)
            if "T" in r and ref["stop"] is None:
                tw = T[min(s["n"], len(T) - 1)]
                if r["T"] != tw:
                    bad.append((i, "drive-clock", "clock after %s is %r, step %d of the fresh run is at %r" % (k, r["T"], s["n"], tw), r["T"], tw))
        elif k == "sample":
            s["manual"] = True
        elif k == "get_progress":
            tmax = ref["meta"]["tmax"]
            t = T[min(s["n"], len(T) - 1)]
            want = 100.0 * t / tmax if tmax > 0 else 0.0
            if not (ret == want or close(ret, frac(want), rel=1e-9, abs_floor=1e-300)):
                bad.append((i, "progress", "get_progress() = %r, expected %r" % (ret, want), ret, want))
        elif k == "get_output":
            ro = ref["out"]
            if not s["manual"]:
                tn = T[min(s["n"], len(T) - 1)]
                tf = ref["meta"]["tfactor"]
                want_t = [v for v in ro["t"] if v <= tn * tf * (1 + 1e-12)]
                kk = len(want_t)
                size = ro["nspecies"] * ro["ncells"]
                if ret["t"] != want_t or ret["data"] != ro["data"][:kk * size]:
                    bad.append((i, "output", "get_output() after %d steps is not the fresh-process trajectory up to that step" % s["n"],
                                {"t": ret["t"][:8], "n": ret["nsamples"]}, {"t": want_t[:8], "n": kk}))
            # repeatability
            if i + 1 < len(job["calls"]) and job["calls"][i + 1]["call"] == "get_output" and job["calls"][i + 1]["obj"] == o:
                nxt = results[i + 1].get("ret") if i + 1 < len(results) else None
                if isinstance(nxt, dict) and nxt["hash"] != ret["hash"]:
                    bad.append((i + 1, "output-repeat", "two consecutive get_output() differ", nxt["hash"], ret["hash"]))
    return bad


def model_op(job, pool_by_idx, results):
    scripts = []
    for pid in job["pool_ids"]:
        p = pool_by_idx[pid]
        ref = p["ref"]
        scripts.append(lc.script_model_json(ref["meta"], p["info"]["policy"], p["info"]["space"], clock=ref["T"], stop=ref["stop"]))
    calls = []
    cur_ref = {}
    last_T = {}
    for c, r in zip(job["calls"], results):
        k = c["call"]
        mc = {"obj": c["obj"], "call": k}
        if k == "setup":
            mc["script"] = c["script"]
        elif k == "iterate_n":
            mc["n"] = c["n"]
        elif k == "run":
            # iterations performed = position of the clock after the call minus the position before (native, shared)
            mc["k"] = c.get("_k", 0)
        calls.append(mc)
    return {"op": "lifecycle", "scripts": scripts, "calls": calls}


def annotate_run_counts(job, pool_by_idx, results):
    """for run(ms) calls: how many iterations the wall clock allowed, from the native clock (harness-only peek)"""
    native_ref = None      # reference of the script the NATIVE simulation was last set up with
    pos = 0
    for c, r in zip(job["calls"], results):
        k = c["call"]
        if k == "setup" and "raised" not in r:
            native_ref = pool_by_idx[c["pool"]]["ref"]
            pos = 0
        if native_ref is None:
            continue
        T = native_ref["T"]
        N = native_ref["N"]
        if k == "iterate":
            pos = min(pos + 1, N)
        elif k == "iterate_n" and c["n"] >= 1:
            pos = min(pos + c["n"], N)
        elif k == "run":
            t = r.get("T")
            idx = [j for j, v in enumerate(T) if v == t]
            newpos = pos
            if idx:
                newpos = max(idx[0], pos)
                if r.get("ret") is False:
                    newpos = N
            c["_k"] = max(newpos - pos - 1, 0)
            pos = newpos


def _limit_per_key(ctx, per_key=3):
    """report each violation key at most `per_key` times, so that a recurring (e.g. known) finding cannot crowd other
    failures out of the runner's bounded list"""
    seen = {}
    orig = ctx.violation

    def violation(key, what, case, impl=None, expected=None, replay_cmd=None):
        seen[key] = seen.get(key, 0) + 1
        if seen[key] <= per_key:
            orig(key, what, case, impl=impl, expected=expected, replay_cmd=replay_cmd)
        else:
            ctx.count("oracle_failures_not_listed")
    ctx.violation = violation


def run(ctx):
    _limit_per_key(ctx)
    ctx.notes.append("every_call_returns: total except for two explicit hypotheses (Setup.initReturns = C14 redistribution loop terminates; Setup.stepReturns = every Poisson draw of the run returns — running the real code at the excluded point (mean >= 2^31) showed that it did not: fix30); "
                     "both are observed with time-outs here, also for species totals / cell amounts beyond 2^31 (the redistribution loop counts whole molecules)")
    ctx.notes.append("independent_partial: holds for non-overlapping live intervals; the full statement is proved false (not_independent, "
                     "independent_is_false) = known finding two-engines-share-native")
    explore(ctx, ctx.n(45, 900), ctx.n(300, 20000), n_big=ctx.n(10, 120))
    long_simulate(ctx, ctx.n(1, 4), 1.9 if ctx.tier == "quick" else 2.6)
    # the runner starts the failing-input search only when NO violation was reported; this check always reports the listed
    # known finding, so it starts the search itself when something is broken and nothing unlisted was found
    if ctx.broken and not _unlisted(ctx):
        search(ctx)


def long_job(rng, jid, option, wall):
    nA = 200 if option != "euler" else 7.5
    sysd = {"network": {"species": [{"label": "A", "density": 0, "D": 1.0}, {"label": "B", "density": 0, "D": 0.5}],
                        "reactions": [{"eq": "A -> B", "k+": 0.3, "k-": 0.1}], "environments": ["a"]},
            "space": {"type": "grid", "w": 4, "h": 4, "d": rng.choice([2, 4]), "cell_volume": 1.0, "boundary_conditions": {"x": "periodical"}},
            "state": None}
    ncell = 16 * sysd["space"]["d"]
    sysd["space"]["cell_env"] = [0] * ncell
    sysd["state"] = [float(nA)] * ncell + [float(rng.choice([0, 3]))] * ncell
    S = {"system": sysd, "kw": {"t_sample": [0.0], "time_step": 1e-3, "t_max": 1.0, "sampling_policy": "on_t_sample", "rng_seed": rng.randint(0, 2 ** 31 - 1)}}
    return {"id": jid, "engines": [option], "scripts": [S], "timeout": 40, "long": True,
            "calls": [{"obj": 0, "call": "simulate_long", "script": 0, "wall": wall}]}


def long_oracle(r):
    """simulate_script must drive the simulation to completion however many run(1000) slices that takes"""
    if r["status"] != "ok":
        return ("hang:simulate" if r["status"] == "timeout" else "crash:simulate"), "simulate_script did not return: %s" % r["status"], r["status"], "returns"
    x = r["results"][0]
    if "raised" in x:
        return "raised", "simulate_script raised %s" % x["raised"], x["raised"], "no exception"
    ret = x["ret"]
    if ret["nsamples"] != 3 or not (ret["t"] and ret["t"][-1] >= ret["tmax"] * (1 - 1e-9)) or not ret["is_complete_after"]:
        return ("simulate-truncated", "simulate_script() returned %d of the 3 requested samples (last record at t=%r, t_max=%r = %d steps, %.2f s of wall time): the "
                "simulation was not run to completion" % (ret["nsamples"], ret["t"][-1] if ret["t"] else None, ret["tmax"], ret["nsteps"], ret["wall"]),
                {"t": ret["t"], "is_complete": ret["is_complete_after"]}, {"t": [0.0, ret["tmax"] / 2, ret["tmax"]], "is_complete": True})
    return None


def slice_job(rng, jid, option):
    """a simulation with far more work than any slice: run(ms) must hand control back after about ms milliseconds"""
    j = long_job(rng, jid, option, 0)
    j["scripts"][0]["kw"]["t_max"] = 1.0e6          # 10^9 steps
    j["slice"] = True
    j["long"] = False
    calls = [{"obj": 0, "call": "setup", "script": 0, "peek": True}]
    for ms in [5, rng.choice([1, 2, 10]), rng.choice([20, 50]), 0, 5]:
        calls.append({"obj": 0, "call": "run", "ms": ms, "peek": True})
    calls += [{"obj": 0, "call": "is_complete"}, {"obj": 0, "call": "get_progress"}, {"obj": 0, "call": "finalize"}]
    j["calls"] = calls
    return j


def slice_oracle(job, r):
    bad = []
    if r["status"] != "ok":
        at = r["at"] if r["at"] is not None else len(r["results"])
        c = job["calls"][at] if at < len(job["calls"]) else {"call": "end"}
        if c["call"] == "run":
            bad.append((KEY_SLICE, "run(%d) did not return within the stall limit on a simulation with 10^9 steps left (%s)" % (c["ms"], r["status"]), r["status"], "returns after about %d ms" % c["ms"]))
        else:
            bad.append(("hang:%s" % c["call"], "%s() did not return (%s)" % (c["call"], r["status"]), r["status"], "returns"))
    tprev = 0.0
    for c, x in zip(job["calls"], r["results"]):
        if "raised" in x:
            bad.append(("raised", "%s() raised %s" % (c["call"], x["raised"]), x["raised"], "no exception"))
            break
        if c["call"] == "run":
            if x["wall"] > c["ms"] / 1000.0 + SLICE_MARGIN:
                bad.append((KEY_SLICE, "run(%d) kept control for %.2f s on a simulation with plenty of work left (slice of %d ms + one iteration + margin %.1f s)"
                            % (c["ms"], x["wall"], c["ms"], SLICE_MARGIN), x["wall"], c["ms"] / 1000.0))
            if x.get("ret") is not True:
                bad.append(("drive-return", "run(%d) reported completion with 10^9 steps left" % c["ms"], x.get("ret"), True))
            if not (x.get("T", 0.0) > tprev):
                bad.append(("run-progress", "run(%d) made no iteration" % c["ms"], x.get("T"), None))
            tprev = x.get("T", tprev)
        if c["call"] == "is_complete" and x.get("ret") is not False:
            bad.append(("is-complete", "is_complete() is True with 10^9 steps left", x.get("ret"), False))
    return bad


def long_simulate(ctx, n, wall):
    rng = ctx.rng
    jobs = [long_job(rng, "long%d" % i, ["euler", "tauleap"][i % 2], wall) for i in range(n)]
    sjobs = [slice_job(rng, "slice%d" % i, ["tauleap", "euler", "gillespie"][i % 3]) for i in range(n)]
    res = lc.run_jobs(jobs + sjobs, kind="plain", chunk=1, parallel=min(2 * n, 6), stall=30)
    for j in sjobs:
        r = res[j["id"]]
        case = {"job": {k: j[k] for k in ("id", "engines", "scripts", "calls", "slice")}}
        ctx.case(("slice", j["id"], json.dumps(j["calls"])), nontrivial=True,
                 sample={"op": "run-slices", "engine": j["engines"][0], "walls": [x.get("wall") for c, x in zip(j["calls"], r["results"]) if c["call"] == "run"]})
        ctx.count("slice_jobs")
        for key, what, impl, exp in slice_oracle(j, r):
            ctx.violation(key, what, case, impl=impl, expected=exp)
    for j in jobs:
        r = res[j["id"]]
        case = {"job": {k: j[k] for k in ("id", "engines", "scripts", "calls", "long")}}
        ret = r["results"][0].get("ret") if r["results"] else None
        ctx.case(("long", j["id"], json.dumps(j["scripts"], sort_keys=True)), nontrivial=True,
                 sample={"op": "simulate_long", "engine": j["engines"][0], "steps": ret and ret["nsteps"], "wall": ret and ret["wall"]})
        ctx.count("long_simulations")
        if ret:
            ctx.count("long_simulations_over_1s" if ret["wall"] > 1.0 else "long_simulations_under_1s")
        bad = long_oracle(r)
        if bad:
            ctx.violation(bad[0], bad[1], case, impl=bad[2], expected=bad[3])


def _unlisted(ctx):
    known, _ = common.known_findings(ID)
    return [v for v in ctx.violations if v["key"] not in known]


def search(ctx):
    """failing-input search (called when an anchor / theorem / the correspondence is broken and no failing input is known
    yet): more and longer histories than the quick tier, degenerate shapes, on the plain and on the assertion-hardened
    build, until the time budget is used"""
    if ctx.extra.get("searched"):
        return
    ctx.extra["searched"] = True
    rounds = 0
    while ctx.time_left() > 25 and not _unlisted(ctx) and rounds < 20:
        kind = "hard" if rounds % 2 == 0 else "plain"
        ctx.count("search_rounds")
        explore(ctx, 40, 500, kind=kind, degenerate=True, long_histories=True, with_model=False, n_big=20)
        rounds += 1
    ctx.notes.append("search(): %d extra rounds of 500 histories (hard / plain builds, degenerate shapes, lengths up to 40)" % rounds)


def explore(ctx, n_pool, n_hist, kind="plain", degenerate=False, long_histories=False, with_model=True, n_big=0):
    rng = ctx.rng
    pool = make_pool(ctx, n_pool, kind=kind, degenerate=degenerate, n_big=n_big)
    pool_by_idx = {p["idx"]: p for p in pool}
    pool_by_opt = {}
    for p in pool:
        pool_by_opt.setdefault(p["option"], []).append(p)
    if not pool_by_opt:
        return
    n = n_hist
    jobs = []
    for i in range(n):
        r = rng.random()
        if i == 0:
            cls = "overlap"
        elif i == 1:
            cls = "uaf"
        elif i == 2:
            cls = "itn0"
        elif i in (3, 4):
            cls = "shared"
        elif i in (5, 6, 7):
            cls = "gc"
        elif i in (8, 9, 10, 11):
            cls = "refetch"
        elif i in (12, 13, 14, 15):
            cls = "abandon"
        elif i in (16, 17, 18):
            cls = "tie"
        elif n_big and i in (19, 20, 21, 22):
            cls = "big"
        elif n_big and 0.2 <= r < 0.23:
            cls = "big"
        elif r >= 0.1 and r < 0.2:
            cls = ["refetch", "abandon", "tie"][i % 3]
        elif r < 0.1 and r >= 0.05:
            cls = "gc"
        elif r < 0.05:
            cls = "shared"
        elif r < 0.72:
            cls = "one"
        elif r < 0.86:
            cls = "blocks"
        elif r < 0.93:
            cls = "overlap"
        elif r < 0.97:
            cls = "itn0"
        else:
            cls = "uaf"
        if ctx.tier == "quick" and not long_histories:
            length = rng.randint(2, 6) if cls == "one" else rng.randint(4, 8)
        else:
            length = rng.randint(2, 6) if rng.random() < 0.5 else rng.randint(7, 40)
        jobs.append(gen_history(rng, "h%d" % i, cls, pool_by_opt, length))
    for j in jobs:
        j["scripts"] = [pool_by_idx[pid]["S"] for pid in j["pool_ids"]]
    # histories that may corrupt the process (two live engines of different sizes, calls on a released engine)
    # run one per child, so that they cannot disturb other histories
    risky = [j for j in jobs if j["cls"] in ("overlap", "uaf")]
    safe = [j for j in jobs if j["cls"] not in ("overlap", "uaf")]
    res = lc.run_jobs(safe, kind=kind, chunk=ctx.n(12, 60), parallel=ctx.n(6, 8), stall=ctx.n(6, 20))
    res.update(lc.run_jobs(risky, kind=kind, chunk=1, parallel=ctx.n(6, 8), stall=ctx.n(6, 20)))
    ops, metas = [], []
    for job in jobs:
        r = res[job["id"]]
        cls = job["cls"]
        ctx.count("class_" + cls)
        ctx.count("calls_total", len(job["calls"]))
        for c in job["calls"]:
            ctx.count("call_" + c["call"])
        case = {"job": {k: job[k] for k in ("id", "engines", "cls", "calls", "pool_ids", "scripts")}}
        ctx.case(json.dumps([job["engines"], job["pool_ids"], [{k: v for k, v in c.items() if k not in ("peek", "_k")} for c in job["calls"]]], sort_keys=True),
                 nontrivial=len(job["calls"]) >= 3,
                 sample={"op": "lifecycle", "class": cls, "engines": job["engines"], "calls": [c["call"] for c in job["calls"]],
                         "returns": [x.get("ret") if not isinstance(x.get("ret"), dict) else "trajectory(%d)" % x["ret"]["nsamples"] for x in r["results"]]})
        results = r["results"]
        if r["status"] != "ok":
            at = r["at"] if r["at"] is not None else len(results)
            call = job["calls"][at]["call"] if at < len(job["calls"]) else "end-of-job"
            what = "hang" if r["status"] == "timeout" else "crash"
            if cls == "gc":
                key = KEY_GC
            elif cls == "uaf" and at >= 2:
                key = KEY_UAF
            elif cls == "overlap":
                key = KEY_SHARED
            else:
                key = "%s:%s" % (what, call)
                prev = [c["call"] for c in job["calls"][:at]]
                if call == "finalize" and "finalize" in prev:
                    key = "%s:repeated-finalize" % what
            ctx.violation(key, "%s of %s() (call %d of the history, class %s): %s" % (what, call, at, cls, r["status"]), case,
                          impl={"status": r["status"], "at": at, "returns_before": [x.get("ret") if not isinstance(x.get("ret"), dict) else "trajectory" for x in results][-6:],
                                "stderr": r.get("stderr", "")[-300:]}, expected="every call returns")
        bad = reference_machine(job, pool_by_idx, results) + lc.refetch_failures(job["calls"], results)
        for (i, key, what, impl, exp) in bad:
            if cls == "overlap":
                key = KEY_SHARED
            if cls == "gc" and key not in ("raised",) and not key.startswith(("buffer-length", "native-init-rc", "setup-modifies")):
                key = KEY_GC
                what = what + " — after another engine object (not set up) on the same library was garbage-collected"
            ctx.violation(key, "call %d (%s, object %d): %s" % (i, job["calls"][i]["call"], job["calls"][i]["obj"], what), case, impl=impl, expected=exp)
        if results and cls not in ("gc", "refetch"):
            annotate_run_counts(job, pool_by_idx, results)
            ops.append(model_op(job, pool_by_idx, results))
            metas.append((job, results, case, r["status"]))
    answers = ctx.model.run(ops) if (ops and with_model) else []
    for (job, results, case, status), ans in zip(metas, answers):
        if ans is None:
            continue
        obs = ans["ok"]
        for i, (c, r, m) in enumerate(zip(job["calls"], results, obs)):
            if m == "fault":
                break          # undefined behaviour of the real code from here on: nothing to compare
            impl = r.get("ret") if "raised" not in r else "raised"
            if m == "garbled" and isinstance(impl, dict):
                continue       # a trajectory of another simulation in the wrapper's shape: content unspecified
            if isinstance(impl, dict):
                ref_tf = 1.0
                ok = isinstance(m, dict) and len(m["t"]) == len(impl["t"])
                if ok:
                    # times through the time-unit factor of the script the WRAPPER holds
                    ok = all(lc.fmatch(a, float(rparse(b))) or close(a, rparse(b) * frac(impl_tf(job, c, pool_by_idx)), rel=1e-12, abs_floor=0.0)
                             for a, b in zip(impl["t"], m["t"]))
                if not ok:
                    ctx.disagree("lifecycle", case, {"call": i, "t": impl["t"][:8]}, {"call": i, "model": m if not isinstance(m, dict) else m["t"][:8]})
                    break
            elif isinstance(impl, float) and isinstance(m, str) and m not in ("raised", "garbled"):
                if not (close(impl, rparse(m), rel=1e-9, abs_floor=1e-300)):
                    ctx.disagree("lifecycle", case, {"call": i, "ret": impl}, {"call": i, "model": m})
                    break
            else:
                if impl != m:
                    ctx.disagree("lifecycle", case, {"call": i, "name": c["call"], "ret": impl}, {"call": i, "model": m})
                    break
        else:
            if status != "ok" and len(results) < len(obs) and obs[len(results)] != "fault":
                ctx.disagree("lifecycle", case, {"call": len(results), "status": status}, {"call": len(results), "model": obs[len(results)]})


def impl_tf(job, c, pool_by_idx):
    """time-unit factor (engine -> script units) of the script the wrapper of this object was last set up with"""
    tf = 1.0
    for cc in job["calls"]:
        if cc is c:
            break
        if cc["call"] == "setup" and cc["obj"] == c["obj"]:
            tf = pool_by_idx[cc["pool"]]["ref"]["meta"]["tfactor"]
    return tf


def replay(ctx, rec):
    case = rec.get("case", rec)
    job = dict(case["job"])
    if job.get("slice"):
        job.setdefault("timeout", 40)
        r = lc.run_jobs([job], kind="plain", parallel=1, stall=30)[str(job["id"])]
        bad = slice_oracle(job, r)
        return (not bad), {"walls": [x.get("wall") for c, x in zip(job["calls"], r["results"]) if c["call"] == "run"], "failures": [b[1] for b in bad]}
    if job.get("long"):
        job.setdefault("timeout", 40)
        r = lc.run_jobs([job], kind="plain", parallel=1, stall=30)[str(job["id"])]
        bad = long_oracle(r)
        return (bad is None), {"result": r["results"][0].get("ret") if r["results"] else r["status"], "failure": bad and bad[1]}
    job.setdefault("timeout", 10)
    res = lc.run_jobs([job], kind="plain", parallel=1, stall=8)
    r = res[str(job["id"])]
    detail = {"status": r["status"], "at": r["at"], "calls": [c["call"] for c in job["calls"]],
              "returns": [x.get("ret") if not isinstance(x.get("ret"), dict) else {"t": x["ret"]["t"][:10], "nsamples": x["ret"]["nsamples"]} for x in r["results"]],
              "stderr": r.get("stderr", "")[-500:], "recorded_failure": rec.get("what")}
    if r["status"] != "ok":
        return False, detail
    inits = [f for x in r["results"] for f in lc.init_failures(x)]
    if inits or str(rec.get("key", "")).split(":")[0] in ("buffer-length", "native-init-rc", "init-arguments"):
        detail["marshalling"] = [{"key": f[0], "what": f[1]} for f in inits[:3]]
        return (not inits), detail
    changed = [x["script_changed"] for x in r["results"] if x.get("script_changed")]
    if changed or rec.get("key") == "setup-modifies-script":
        detail["script_changed"] = changed[:2]
        return (not changed), detail
    # re-evaluate the recorded expectation when it concerns one call's return value
    exp, impl = rec.get("expected"), rec.get("impl")
    what = rec.get("what", "")
    if what.startswith("call "):
        i = int(what.split()[1])
        got = r["results"][i].get("ret") if i < len(r["results"]) else None
        if isinstance(got, dict):
            got = {"t": got["t"][:8], "n": got["nsamples"]}
        detail.update(call=i, impl=got, expected=exp)
        return (got == exp), detail
    return True, detail
