"""C05 — Arithmetic on quantities is arithmetic on their SI values, or an error.

Theorems: lean/Strengths/Props/C05.lean (model lean/Strengths/Model/UnitsArith.lean; operator wiring
regenerated from units.py: group UnitsOps).
Correspondence: op `expr` — the same expression tree is evaluated by applying the real Python
operators to real UnitValue / UnitArray / number objects (so that Python's own forward / reflected
dispatch is what is tested) and by the Lean model; raise-or-not, result kind, stored unit system and
dimension are compared exactly, values with the cancellation-aware tolerance of DESIGN §4.
Oracle (independent of the code and of the model's algorithm): at EVERY node of every tree the real
operands are converted to SI with the table written below (not with the package's convert), the
operation is done in exact rational arithmetic on SI values and dimension vectors as the property text
says, and compared with the real result converted to SI by the same table; dimensionally meaningless
operations must raise.
PURITY clause (a consequence of the statement: the result depends only on the operands' SI values and dimensions): an
operator must not modify its operands or earlier results, and equal inputs give equal outputs whatever happened before in
the process.  Tested by bit-exact operand snapshots around EVERY operation, by a sequence stream (a pool of live operand
objects re-used over 5-15 consecutive operations, results compared with exact SI arithmetic on the operands' CREATION
data) and by a collision stream (unit systems whose concatenated labels coincide, e.g. "m"+"ms" = "mm"+"s", used one after
the other with the same other system and dimension vector).
"""
import math, numbers, operator, struct, warnings
from fractions import Fraction
from common import frac, rstr, rparse, fstr
from common import close as _close0

ID = "C05"
LEAN_TARGETS = ["Strengths.Props.C05"]
PROP_FILES = ["Strengths/Props/C05.lean"]
GEN_GROUPS = ["Units", "UnitsOps"]
RULE = ("random expression trees (depth <= 3 quick / <= 4 thorough) over UnitValue / UnitArray / int / float / bool / "
        "numpy.float64 leaves, every quantity leaf in an independently drawn unit system (1100 systems), leaf dimension "
        "exponents in [-3,3]^3 (about 3/4 of the + - % and comparison nodes dimensionally valid), array lengths 0..4 with "
        "deliberate mismatches, non-zero magnitudes over +-12 decades, ** with integer exponents -3..3 and 1/2, 1/3, 2/3; "
        "plus an exhaustive table operator x operand-type pairing x same/other system x same/other dimension; "
        "plus, in the same process, a collision stream (all 30 pairs of unit systems whose concatenated labels coincide x other "
        "system x dimension vectors with different space/time exponents x 6 operators both ways, first one member then the other) "
        "and a sequence stream (pools of 4-7 live operands, many in the same system, re-used over 5-15 operations incl. %, each "
        "result checked against the operands' creation data, every operand and the whole pool checked bit-unchanged); "
        "plus an exact-number stream: every comparison operator, both operand orders, between a scalar quantity (magnitudes with "
        "53-bit mantissas up to 2**173, powers of two, decimal 1e16..1e45, counts 2**53..2**63, any) and a Python int / Fraction "
        "that is not a double and lies within one ulp of (or exactly on) the stored magnitude, or beyond the double range; "
        "a case is non-trivial when at least one quantity takes part; distinct by the whole tree / block / sequence")
ASSUMPTIONS = [
    "IEEE-754 double arithmetic of CPython/numpy is within 1e-9 relative (to the magnitude of the added terms) of exact arithmetic for these short computations",
    "fractional exponents are the doubles nearest to +-1/2, +-1/3, +-2/3; oracle and model read them as those rationals (the code's float test int(dim*e) is exact for them, probed for |dim| <= 60)",
    "trees whose intermediate doubles leave [1e-280, 1e280] or hit an exact zero divisor are skipped and counted; a node within float error of a discontinuity (comparison: 1e-6 relative; floor in %: quotient within 1e-12 relative of an integer) makes its tree 'ambiguous': values are then not compared, raise-or-not / kind / stored system / dimension / length still are",
]
TRUSTED = ["Python-side SI oracle (prefix table in this file) duplicates the Lean Spec `Strengths.C06.si*`",
           "real power of a positive number (float ** fractional exponent): parameter `pyPow` of the model, contract `PowContract`"]

# ------------------------------------------------------------------------------------------------
# SI table (written from the SI brochure, independent of the package's tables)
# ------------------------------------------------------------------------------------------------
PREFIX = {"k": Fraction(1000), "": Fraction(1), "d": Fraction(1, 10), "c": Fraction(1, 100), "m": Fraction(1, 1000),
          "dm": Fraction(1, 10 ** 4), "cm": Fraction(1, 10 ** 5), "µ": Fraction(1, 10 ** 6), "n": Fraction(1, 10 ** 9),
          "p": Fraction(1, 10 ** 12), "f": Fraction(1, 10 ** 15)}
NA = Fraction(602214076 * 10 ** 15)
SPACE = ["km", "m", "dm", "cm", "mm", "dmm", "cmm", "µm", "nm", "pm", "fm"]
TIME = ["h", "min", "s", "ds", "cs", "ms", "µs", "ns", "ps", "fs"]
QTY = ["kmol", "mol", "dmol", "cmol", "mmol", "µmol", "nmol", "pmol", "fmol", "molecule"]


def si_space(s):
    return PREFIX[s[:-1]]


def si_time(s):
    return {"h": Fraction(3600), "min": Fraction(60)}.get(s) or PREFIX[s[:-1]]


def si_qty(s):
    return Fraction(1) if s == "molecule" else PREFIX[s[:-3]] * NA


def si_parts(sys, dim):
    return [si_space(sys[0]) ** dim[0], si_time(sys[1]) ** dim[1], si_qty(sys[2]) ** dim[2]]


def si_factor(sys, dim):
    a, b, c = si_parts(sys, dim)
    return a * b * c


def sysj(s):
    return {"space": s[0], "time": s[1], "quantity": s[2]}


def unitsj(s, d):
    return {"sys": sysj(s), "dim": list(d)}


LO, HI = Fraction(10) ** -280, Fraction(10) ** 280
BINOPS = {"add": operator.add, "sub": operator.sub, "mul": operator.mul, "div": operator.truediv, "mod": operator.mod}
CMPOPS = {"eq": operator.eq, "ne": operator.ne, "lt": operator.lt, "le": operator.le, "gt": operator.gt, "ge": operator.ge}
ADDITIVE = ("add", "sub", "mod")
RNAMES = {"add": "__radd__", "sub": "__rsub__", "mul": "__rmul__", "div": "__rtruediv__", "mod": "__rmod__"}
FRACS = [Fraction(1, 2), Fraction(1, 3), Fraction(2, 3), Fraction(-1, 2), Fraction(-1, 3), Fraction(3, 2)]


class Raised:
    def __init__(self, exc):
        self.exc = exc

    def __repr__(self):
        return "Raised(%s)" % type(self.exc).__name__


class Env:
    """the real package + bookkeeping of one tree evaluation"""

    def __init__(self):
        import numpy as np
        import strengths.units as U
        self.np, self.U = np, U
        self.findings = []     # (key, what, path, impl, expected)
        self.skips = []        # reasons
        self.nodes = []        # (op, pairing) evaluated
        self.experr = []
        self.exactcmp = []     # quantity-number comparisons judged without float allowance: "tie" / "sub-ulp" / "far"

    def fresh(self):
        self.findings, self.skips, self.nodes, self.experr, self.exactcmp = [], [], [], [], []

    # ---- real objects
    def units(self, sys, dim):
        U = self.U
        return U.Units(U.UnitsSystem(space=sys[0], time=sys[1], quantity=sys[2]),
                       U.UnitsDimensions(space=dim[0], time=dim[1], quantity=dim[2]))

    def leaf(self, node):
        t = node["t"]
        if t == "num":
            q = Fraction(node["v"])
            py = node.get("py", "float")
            if py == "int":
                return int(q)
            if py == "bool":
                return bool(q)
            if py == "npf":
                return self.np.float64(float(q))
            if py == "frac":
                return q            # a fractions.Fraction: a number (numbers.Rational) that need not be a double
            return float(q)
        if t == "val":
            u = node["x"]["u"]
            s = u["sys"]
            return self.U.UnitValue(float(Fraction(node["x"]["v"])), self.units((s["space"], s["time"], s["quantity"]), u["dim"]))
        u = node["xs"]["u"]
        s = u["sys"]
        vals = [float(Fraction(v)) for v in node["xs"]["vs"]]
        if node["xs"].get("dtype"):
            # operand built from an ndarray of another dtype (values exactly representable in it): the quantity is the same
            dt = node["xs"]["dtype"]
            vals = self.np.array([int(Fraction(v)) for v in node["xs"]["vs"]] if dt[0] in "iu" else vals, dtype=dt)
        return self.U.UnitArray(vals, self.units((s["space"], s["time"], s["quantity"]), u["dim"]))

    def kind(self, x):
        if type(x) is self.U.UnitValue:
            return "val"
        if type(x) is self.U.UnitArray:
            return "arr"
        if isinstance(x, (bool, self.np.bool_)):
            return "num"   # as an operand a bool is a number; as a comparison result see canon()
        if isinstance(x, numbers.Number):
            return "num"
        return "other"

    def pay(self, x):
        """SI payload of a real quantity by OUR table: (values, dim, sys, stored values) or None when non-finite"""
        un = x.units
        sys = (un.sys.space, un.sys.time, un.sys.quantity)
        dim = (un.dim.space, un.dim.time, un.dim.quantity)
        raw = [x.value] if type(x) is self.U.UnitValue else list(x.value.tolist())
        try:
            st = [frac(float(v)) for v in raw]
        except (ValueError, TypeError, OverflowError):
            return None
        f = si_factor(sys, dim)
        return ([v * f for v in st], dim, sys, st)

    def canon(self, r):
        """canonical form of a result of the real code"""
        if isinstance(r, Raised):
            return {"error": type(r.exc).__name__}
        k = self.kind(r)
        if isinstance(r, (bool, self.np.bool_)):
            return {"t": "bool", "b": bool(r)}
        if k == "num" and not isinstance(r, complex):
            try:
                return {"t": "num", "v": float(r)}
            except Exception:  # noqa
                return {"t": "other", "repr": repr(r)[:80]}
        if isinstance(r, complex):
            return {"t": "complex"}
        if k in ("val", "arr"):
            un = r.units
            out = {"t": k, "sys": [un.sys.space, un.sys.time, un.sys.quantity],
                   "dim": [un.dim.space, un.dim.time, un.dim.quantity]}
            out["vs"] = [float(r.value)] if k == "val" else [float(v) for v in r.value.tolist()]
            return out
        if isinstance(r, BaseException):
            return {"t": "exc", "type": type(r).__name__}
        return {"t": "other", "repr": repr(r)[:80]}

    def find(self, key, what, path, impl=None, expected=None):
        self.findings.append((key, what, path, impl, expected))


def in_range(vals):
    return all(v == 0 or LO <= abs(v) <= HI for v in vals)


def usys(x):
    un = x.units
    return (un.sys.space, un.sys.time, un.sys.quantity)


def udim(x):
    un = x.units
    return (un.dim.space, un.dim.time, un.dim.quantity)


def snap(E, x):
    """bit-exact snapshot of an operand: value bits, unit system, dimension"""
    k = E.kind(x)
    try:
        if k == "val":
            return ("val", struct.pack("<d", float(x.value)), usys(x), udim(x))
        if k == "arr":
            return ("arr", x.value.tobytes(), tuple(x.value.shape), str(x.value.dtype), usys(x), udim(x))
        if k == "num":
            return ("num", repr(x))
    except Exception as ex:  # noqa
        return ("broken", repr(ex)[:80])
    return ("other", repr(x)[:40])


def snap_s(sn):
    if sn[0] == "val":
        return "%r %s %s" % (struct.unpack("<d", sn[1])[0], list(sn[2]), list(sn[3]))
    if sn[0] == "arr":
        import numpy as np
        return "%s %s %s" % (np.frombuffer(sn[1], dtype=sn[3]).tolist(), list(sn[4]), list(sn[5]))
    return repr(sn[1:])


def purity(E, op, operands, snaps, r, path, prefix="purity"):
    """PURITY clause (a consequence of the statement: the result depends only on the operands' SI values and dimensions):
    an operator must not modify its operands, and its result must not be (or share mutable parts with) an operand"""
    pairing = "-".join(E.kind(o) for o in operands)
    for i, (o, s0) in enumerate(zip(operands, snaps)):
        s1 = snap(E, o)
        if s1 != s0:
            E.find("%s:operand-modified:%s:%s" % (prefix, op, pairing),
                   "%s modified its %s operand: was %s, is %s" % (op, "first" if i == 0 else "second", snap_s(s0), snap_s(s1)),
                   path, impl=snap_s(s1), expected=snap_s(s0))
    if isinstance(r, Raised) or E.kind(r) not in ("val", "arr"):
        return
    for o in operands:
        if E.kind(o) not in ("val", "arr"):
            continue
        shared = None
        if r is o:
            shared = "is the operand object itself"
        elif r.units is o.units or r.units.sys is o.units.sys or r.units.dim is o.units.dim:
            shared = "shares its Units object with an operand"
        elif E.kind(r) == "arr" and E.kind(o) == "arr" and E.np.shares_memory(r.value, o.value):
            shared = "shares its value array with an operand"
        if shared:
            E.find("%s:result-aliases-operand:%s" % (prefix, op), "the result of %s (%s) %s" % (op, pairing, shared), path,
                   impl=shared, expected="a new object")
            return


def ev(E, node, path="r"):
    """evaluate `node` on the real code, bottom-up, checking the oracle at every node"""
    k = node["k"]
    if k == "leaf":
        return E.leaf(node)
    a = ev(E, node["a"], path + ".a")
    if isinstance(a, Raised):
        return a
    if k == "rbin":
        # `b.__rop__(a)` called directly (a public method that claims to compute `a op b`)
        b = ev(E, node["b"], path + ".b")
        if isinstance(b, Raised):
            return b
        sn = (snap(E, a), snap(E, b))
        try:
            r = getattr(b, RNAMES[node["op"]])(a)
        except Exception as ex:  # noqa
            r = Raised(ex)
        purity(E, "r" + node["op"], (a, b), sn, r, path)
        oracle_bin(E, node["op"], a, b, r, path)
        return r
    if k in ("bin", "pow"):
        b = ev(E, node["b"], path + ".b")
        if isinstance(b, Raised):
            return b
        f = BINOPS[node["op"]] if k == "bin" else operator.pow
        sn = (snap(E, a), snap(E, b))
        try:
            r = f(a, b)
        except Exception as ex:  # noqa
            r = Raised(ex)
        purity(E, node["op"] if k == "bin" else "pow", (a, b), sn, r, path)
        if k == "bin":
            oracle_bin(E, node["op"], a, b, r, path)
        else:
            oracle_pow(E, node["b"], a, b, r, path)
        return r
    f = {"neg": operator.neg, "abs": abs, "inv": E.U._inv}[k]
    sn = (snap(E, a),)
    try:
        r = f(a)
    except Exception as ex:  # noqa
        r = Raised(ex)
    purity(E, k, (a,), sn, r, path)
    oracle_un(E, k, a, r, path)
    return r


def _bc(l, i):
    return l[0] if len(l) == 1 else l[i]


def oracle_bin(E, op, a, b, r, path):
    ka, kb = E.kind(a), E.kind(b)
    E.nodes.append((op, ka + "-" + kb))
    if ka == "num" and kb == "num":
        return
    key0 = "%s:%s-%s" % (op, ka, kb)
    pa = E.pay(a) if ka != "num" else None
    pb = E.pay(b) if kb != "num" else None
    if (ka != "num" and pa is None) or (kb != "num" and pb is None):
        E.skips.append("nonfinite")
        return
    try:
        na = frac(a) if ka == "num" else None
        nb = frac(b) if kb == "num" else None
    except (ValueError, TypeError):
        E.skips.append("nonfinite")
        return
    additive = op in ADDITIVE
    # the system the result should be readable in does not matter to the oracle; numbers take the other operand's units
    if ka == "num":
        unit = si_factor(pb[2], pb[1]) if additive else 1
        A, adim, ast = [na * unit], (pb[1] if additive else (0, 0, 0)), [na]
    else:
        A, adim, ast = pa[0], pa[1], pa[3]
    if kb == "num":
        unit = si_factor(pa[2], pa[1]) if additive else 1
        B, bdim, bst = [nb * unit], (pa[1] if additive else (0, 0, 0)), [nb]
    else:
        B, bdim, bst = pb[0], pb[1], pb[3]
    must = None
    if additive and ka != "num" and kb != "num" and tuple(adim) != tuple(bdim):
        must = "dim"
    elif ka == "arr" and kb == "arr" and len(A) != len(B):
        must = "len"
    if must:
        E.experr.append(must)
        if not isinstance(r, Raised):
            E.find(key0 + ":not-raised:" + must,
                   "%s of %s and %s with different %s did not raise" % (op, ka, kb, "dimensions" if must == "dim" else "lengths"),
                   path, impl=E.canon(r), expected="exception")
        return
    if op in ("div", "mod") and any(v == 0 for v in B):
        E.skips.append("zero-divisor")
        return
    # double range guard: stored operands, the conversion factor and the converted operand
    selfsys = pa[2] if ka != "num" else pb[2]
    guard = list(ast) + list(bst)
    for (kk, p) in ((ka, pa), (kb, pb)):
        if kk != "num":
            tf = si_factor(selfsys, p[1])
            guard += [v / tf for v in p[0]]
            guard += [x / y for x, y in zip(si_parts(p[2], p[1]), si_parts(selfsys, p[1]))]
            guard += [si_factor(p[2], p[1]) / tf]
    if not in_range(guard):
        E.skips.append("range")
        return
    if op == "mul":
        edim = tuple(x + y for x, y in zip(adim, bdim))
    elif op == "div":
        edim = tuple(x - y for x, y in zip(adim, bdim))
    else:
        edim = tuple(adim if ka != "num" else bdim)
    n = len(A) if ka == "arr" else (len(B) if kb == "arr" else 1)
    ekind = "arr" if "arr" in (ka, kb) else "val"
    exp, mags = [], []
    modtol = []
    # `%`: Python's float % (fmod) and numpy's remainder are exact on doubles, so the only rounding is that of converting one
    # operand to the other's unit system (none when both are stored in the same system or one is a plain number): the result
    # is off by at most floor(a/m) * |m| * (a few ulp); the tolerance is therefore relative to the MODULUS
    conv_err = Fraction(0) if (ka == "num" or kb == "num" or tuple(pa[2]) == tuple(pb[2])) else Fraction(16, 2 ** 52)
    for i in range(n):
        x, y = _bc(A, i), _bc(B, i)
        if op == "add":
            exp.append(x + y); mags.append(abs(x) + abs(y))
        elif op == "sub":
            exp.append(x - y); mags.append(abs(x) + abs(y))
        elif op == "mul":
            exp.append(x * y); mags.append(abs(x * y))
        elif op == "div":
            exp.append(x / y); mags.append(abs(x / y))
        else:
            q = x / y
            fl = math.floor(q)
            dist = min(q - fl, fl + 1 - q)
            if (q != 0 and dist <= conv_err * abs(q) * 4) or abs(q) > 10 ** 14:
                exp.append(None); mags.append(None); modtol.append(None)
            else:
                exp.append(x - y * fl); mags.append(abs(x) + abs(y * fl))
                modtol.append(Fraction(1, 10 ** 9) * abs(y) + conv_err * abs(fl) * abs(y))
    if isinstance(r, Raised):
        E.find(key0 + ":raised", "%s of %s and %s (dimensionally valid) raised %s" % (op, ka, kb, type(r.exc).__name__),
               path, impl=E.canon(r), expected={"dim": edim, "si": [rstr(v) if v is not None else None for v in exp]})
        return
    kr = E.kind(r)
    if kr != ekind:
        E.find(key0 + ":kind", "%s of %s and %s returned a %s" % (op, ka, kb, type(r).__name__), path, impl=E.canon(r), expected=ekind)
        return
    pr = E.pay(r)
    if pr is None:
        E.find(key0 + ":value", "%s of %s and %s returned a non-finite value" % (op, ka, kb), path, impl=E.canon(r),
               expected={"dim": edim, "si": [rstr(v) if v is not None else None for v in exp]})
        return
    if not in_range(pr[3]) or not in_range([si_factor(pr[2], pr[1])]):
        E.skips.append("range")
        return
    if tuple(pr[1]) != tuple(edim):
        E.find(key0 + ":dim", "%s of %s and %s has dimension %s, expected %s" % (op, ka, kb, list(pr[1]), list(edim)), path,
               impl=E.canon(r), expected={"dim": edim})
        return
    if len(pr[0]) != n:
        E.find(key0 + ":len", "%s of %s and %s has %d elements, expected %d" % (op, ka, kb, len(pr[0]), n), path,
               impl=E.canon(r), expected={"len": n})
        return
    for i in range(n):
        if exp[i] is None:
            E.skips.append("ambiguous")
            continue
        okv = (abs(pr[0][i] - exp[i]) <= modtol[i]) if op == "mod" else qclose(pr[0][i], exp[i], mags[i])
        if not okv:
            E.find(key0 + ":value", "%s of %s and %s: SI value %s, exact SI arithmetic gives %s%s" % (
                op, ka, kb, fstr(pr[0][i]), fstr(exp[i]),
                " (off by %s, modulus %s, quotient %s)" % (fstr(abs(pr[0][i] - exp[i])), fstr(_bc(B, i)), fstr(_bc(A, i) / _bc(B, i))) if op == "mod" else ""),
                path, impl=E.canon(r),
                expected={"dim": edim, "si": [rstr(v) if v is not None else None for v in exp]})
            return


def qclose(v, q, mag=None, rel=1e-9):
    """exact rationals on both sides: |v - q| <= rel * max(|q|, mag)"""
    m = abs(q)
    if mag is not None:
        m = max(m, abs(mag))
    return abs(v - q) <= Fraction(rel) * m


def exponent_of(node):
    """the rational an exponent leaf stands for"""
    if node.get("k") == "leaf" and node.get("t") == "num":
        return Fraction(node["v"])
    return None


def oracle_pow(E, bnode, a, b, r, path):
    ka, kb = E.kind(a), E.kind(b)
    E.nodes.append(("pow", ka + "-" + kb))
    if ka == "num" and kb == "num":
        return
    key0 = "pow:%s-%s" % (ka, kb)
    if kb != "num":
        E.experr.append("pow-quantity-exponent")
        if not isinstance(r, Raised):
            E.find(key0 + ":not-raised", "raising to the power of a quantity did not raise", path, impl=E.canon(r), expected="exception")
        return
    if ka == "arr":
        # `**` is for scalar quantities; UnitArray ** n raises (documented NotImplementedError); nothing else is claimed
        E.experr.append("pow-array")
        if not isinstance(r, Raised):
            E.skips.append("pow-array-returned")
        return
    e = exponent_of(bnode)
    if e is None:
        try:
            e = frac(b)
        except (ValueError, TypeError):
            E.skips.append("nonfinite")
            return
    pa = E.pay(a)
    if pa is None:
        E.skips.append("nonfinite")
        return
    edim = [Fraction(d) * e for d in pa[1]]
    frac_e = e.denominator != 1
    if any(x.denominator != 1 for x in edim):
        E.experr.append("pow-nonint")
        if not isinstance(r, Raised):
            E.find("pow:frac:not-raised", "%s ** %s gives a non-integer dimension exponent but did not raise" % (list(pa[1]), e),
                   path, impl=E.canon(r), expected="exception")
        return
    edim = tuple(int(x) for x in edim)
    x = pa[0][0]
    if x == 0 or (x < 0 and frac_e):
        E.skips.append("pow-base-sign")
        return
    # expected magnitude in log space (exact for integer exponents below)
    lx = math.log(abs(x.numerator)) - math.log(x.denominator)
    if abs(lx * float(e)) > 600 or not in_range(pa[3]) or not in_range([abs(pa[3][0]) ** int(math.ceil(abs(e)))] if pa[3][0] != 0 else []):
        E.skips.append("range")
        return
    if isinstance(r, Raised):
        E.find("pow:%s:raised" % ("frac" if frac_e else "int"), "%s ** %s (valid) raised %s" % (list(pa[1]), e, type(r.exc).__name__),
               path, impl=E.canon(r), expected={"dim": edim})
        return
    if E.kind(r) != "val":
        E.find(key0 + ":kind", "** returned a %s" % type(r).__name__, path, impl=E.canon(r), expected="val")
        return
    pr = E.pay(r)
    if pr is None or pr[0][0] == 0 or not in_range(pr[3]):
        E.skips.append("range")
        return
    if tuple(pr[1]) != edim:
        E.find("pow:%s:dim" % ("frac" if frac_e else "int"), "(%s) ** %s has dimension %s, expected %s" % (list(pa[1]), e, list(pr[1]), list(edim)),
               path, impl=E.canon(r), expected={"dim": edim})
        return
    if not frac_e:
        expv = x ** int(e)
        ok = qclose(pr[0][0], expv)
    else:
        lr = math.log(abs(pr[0][0].numerator)) - math.log(pr[0][0].denominator)
        ok = pr[0][0] > 0 and abs(lr - lx * float(e)) <= 1e-9 * max(1.0, abs(lx))
        expv = None
    if not ok:
        E.find("pow:%s:value" % ("frac" if frac_e else "int"), "SI value of x ** %s differs from (SI value of x) ** %s" % (e, e), path,
               impl=E.canon(r), expected={"dim": edim, "si": rstr(expv) if expv is not None else "exp(%r)" % (lx * float(e))})


def oracle_un(E, k, a, r, path):
    ka = E.kind(a)
    E.nodes.append((k, ka))
    if ka == "num":
        return
    key0 = "%s:%s" % (k, ka)
    pa = E.pay(a)
    if pa is None:
        E.skips.append("nonfinite")
        return
    if k == "inv" and any(v == 0 for v in pa[0]):
        E.skips.append("zero-divisor")
        return
    if not in_range(pa[3]):
        E.skips.append("range")
        return
    if isinstance(r, Raised):
        E.find(key0 + ":raised", "%s of a %s raised %s" % (k, ka, type(r.exc).__name__), path, impl=E.canon(r))
        return
    if E.kind(r) != ka:
        E.find(key0 + ":kind", "%s of a %s returned a %s" % (k, ka, type(r).__name__), path, impl=E.canon(r), expected=ka)
        return
    pr = E.pay(r)
    if pr is None:
        E.find(key0 + ":value", "%s of a %s returned a non-finite value" % (k, ka), path, impl=E.canon(r))
        return
    edim = tuple(-d for d in pa[1]) if k == "inv" else tuple(pa[1])
    if tuple(pr[1]) != edim:
        E.find(key0 + ":dim", "%s of a %s has dimension %s, expected %s" % (k, ka, list(pr[1]), list(edim)), path, impl=E.canon(r),
               expected={"dim": edim})
        return
    f = {"neg": lambda v: -v, "abs": abs, "inv": lambda v: 1 / v}[k]
    exp = [f(v) for v in pa[0]]
    if len(exp) != len(pr[0]) or not all(qclose(v, q) for v, q in zip(pr[0], exp)):
        E.find(key0 + ":value", "%s of a %s: SI value differs from exact SI arithmetic" % (k, ka), path, impl=E.canon(r),
               expected={"dim": edim, "si": [rstr(v) for v in exp]})


def oracle_cmp(E, op, a, b, r, path, exact_ok):
    ka, kb = E.kind(a), E.kind(b)
    E.nodes.append((op, ka + "-" + kb))
    if ka == "num" and kb == "num":
        return
    key0 = "%s:%s-%s" % (op, ka, kb)
    ordering = op not in ("eq", "ne")
    isbool = isinstance(r, (bool, E.np.bool_))
    if "arr" in (ka, kb):
        if not ordering:
            # UnitArray documents that it exposes no array interface: only "does not raise, returns a bool" is demanded
            if isinstance(r, Raised) or not isbool:
                E.find(key0 + ":nonbool", "%s with a UnitArray operand did not return a bool" % op, path, impl=E.canon(r), expected="bool")
            return
        E.experr.append("cmp-array")
        if isinstance(r, Raised):
            return
        if isinstance(r, BaseException):
            E.find("cmp-array-returns-exception-object",
                   "%s between %s and %s returned (did not raise) a %s instance, which is truthy" % (op, ka, kb, type(r).__name__),
                   path, impl=E.canon(r), expected="exception raised, or element-wise booleans")
            return
        if not (isbool or (isinstance(r, (list, tuple, E.np.ndarray)) and all(isinstance(x, (bool, E.np.bool_)) for x in r))):
            E.find(key0 + ":nonbool", "ordering comparison with a UnitArray returned a %s" % type(r).__name__, path, impl=E.canon(r),
                   expected="exception raised, or element-wise booleans")
        return
    pa = E.pay(a) if ka != "num" else None
    pb = E.pay(b) if kb != "num" else None
    if (ka != "num" and pa is None) or (kb != "num" and pb is None):
        E.skips.append("nonfinite")
        return
    if ka != "num" and kb != "num" and tuple(pa[1]) != tuple(pb[1]):
        E.experr.append("cmp-dim")
        if ordering:
            if not isinstance(r, Raised):
                E.find(key0 + ":not-raised:dim", "ordering comparison of different dimensions did not raise", path, impl=E.canon(r), expected="exception")
        else:
            want = (op == "ne")
            if isinstance(r, Raised) or not isbool or bool(r) != want:
                E.find(key0 + ":dim", "%s across dimensions is not %s" % (op, want), path, impl=E.canon(r), expected=want)
        return
    try:
        x = pa[0][0] if ka != "num" else frac(a) * si_factor(pb[2], pb[1])
        y = pb[0][0] if kb != "num" else frac(b) * si_factor(pa[2], pa[1])
    except (ValueError, TypeError):
        E.skips.append("nonfinite")
        return
    selfsys = pa[2] if ka != "num" else pb[2]
    guard = []
    for kk, p in ((ka, pa), (kb, pb)):
        if kk != "num":
            guard += list(p[3]) + [v / si_factor(selfsys, p[1]) for v in p[0]]
            guard += [x_ / y_ for x_, y_ in zip(si_parts(p[2], p[1]), si_parts(selfsys, p[1]))] + [si_factor(p[2], p[1]) / si_factor(selfsys, p[1])]
    if not in_range(guard):
        E.skips.append("range")
        return
    # a plain number takes the quantity's units: no conversion, no float operation is needed to compare it with the stored
    # magnitude, and the number (Python int of any size, Fraction, float, bool, numpy.float64) denotes exactly one rational;
    # so there is no float-error allowance here: the answer is the exact comparison, also within one ulp and on ties
    num = a if ka == "num" else (b if kb == "num" else None)
    exact_cmp = num is not None and isinstance(num, (bool, int, float, Fraction, E.np.float64))
    if exact_cmp:
        E.exactcmp.append("tie" if x == y else ("sub-ulp" if abs(x - y) <= Fraction(1, 10 ** 15) * (abs(x) + abs(y)) else "far"))
    if not exact_cmp and x != y and abs(x - y) <= Fraction(1, 10 ** 6) * (abs(x) + abs(y)):
        E.skips.append("ambiguous")
        return
    if not exact_cmp and x == y and not exact_ok:
        E.skips.append("ambiguous")
        return
    want = {"eq": x == y, "ne": x != y, "lt": x < y, "le": x <= y, "gt": x > y, "ge": x >= y}[op]
    if isinstance(r, Raised):
        E.find(key0 + ":raised", "comparison of equal dimensions raised %s" % type(r.exc).__name__, path, impl=E.canon(r), expected=want)
    elif not isbool:
        E.find(key0 + ":nonbool", "comparison returned a %s" % type(r).__name__, path, impl=E.canon(r), expected=want)
    elif bool(r) != want:
        E.find(key0 + ":value", "%s is %s, comparing the SI values (%s, %s) gives %s" % (op, bool(r), fstr(x), fstr(y), want), path,
               impl=E.canon(r), expected=want)


def run_case(E, case):
    """evaluate one case {"e": tree[, "cmp": op, "b": tree, "exact_ok": bool]} on the real code; returns the canonical result"""
    if "multi" in case:
        return run_multi(E, case)
    if "seq" in case:
        return run_seq(E, case)
    E.fresh()
    with warnings.catch_warnings():
        warnings.simplefilter("ignore")
        with E.np.errstate(all="ignore"):
            a = ev(E, case["e"], "e")
            if "cmp" not in case:
                if isinstance(a, (bool, E.np.bool_)):
                    a = int(a)   # a bool leaf is a number here
                return E.canon(a)
            if isinstance(a, Raised):
                return E.canon(a)
            b = ev(E, case["b"], "b")
            if isinstance(b, Raised):
                return E.canon(b)
            sn = (snap(E, a), snap(E, b))
            try:
                r = CMPOPS[case["cmp"]](a, b)
            except Exception as ex:  # noqa
                r = Raised(ex)
            purity(E, case["cmp"], (a, b), sn, r, "root")
            oracle_cmp(E, case["cmp"], a, b, r, "root", bool(case.get("exact_ok")))
            return E.canon(r)


# ------------------------------------------------------------------------------------------------
# generators
# ------------------------------------------------------------------------------------------------
DIMW = [0] * 8 + [1, -1] * 4 + [2, -2] * 2 + [3, -3]


def rand_sys(rng):
    return (rng.choice(SPACE), rng.choice(TIME), rng.choice(QTY))


def rand_dim(rng):
    return (rng.choice(DIMW), rng.choice(DIMW), rng.choice(DIMW))


def other_dim(rng, d):
    while True:
        d2 = rand_dim(rng)
        if d2 != tuple(d):
            return d2


def rand_mag(rng):
    return Fraction(rng.randint(1, 999999)) * Fraction(10) ** rng.randint(-15, 9)


def rand_float(rng, positive=False, target=None, exact=False):
    if target is not None and target != 0:
        q = abs(Fraction(target))
        if not exact:
            q *= Fraction(rng.randint(10 ** 5, 10 ** 8), 999983)   # never a round multiple
        try:
            v = float(q)
        except OverflowError:
            v = 0.0
        if v == 0.0 or math.isinf(v):
            v = float(rand_mag(rng))
    else:
        v = float(rand_mag(rng))
    return v if (positive or rng.random() < 0.5) else -v


def num_leaf(rng, target=None, positive=False, exact=False):
    r = rng.random()
    if target is not None:
        v = rand_float(rng, positive, target, exact)
        if not exact and r < 0.3 and abs(v) >= 1 and abs(v) < 1e15:
            return {"k": "leaf", "t": "num", "v": rstr(int(v)), "py": "int"}
        return {"k": "leaf", "t": "num", "v": rstr(v), "py": "npf" if r > 0.9 else "float"}
    if r < 0.4:
        v = rng.choice([1, 2, 3, 5, 7, 10, 12, 1000, rng.randint(1, 10 ** 6), 10 ** rng.randint(0, 12)])
        return {"k": "leaf", "t": "num", "v": rstr(v if (positive or rng.random() < 0.6) else -v), "py": "int"}
    if r < 0.45:
        return {"k": "leaf", "t": "num", "v": "1", "py": "bool"}
    v = rand_float(rng, positive)
    return {"k": "leaf", "t": "num", "v": rstr(v), "py": "npf" if r > 0.9 else "float"}


def qty_leaf(rng, kind, dim, n, si_target=None, positive=False, sys=None, exact=False):
    sys = sys or rand_sys(rng)
    tgt = None
    if si_target is not None:
        tgt = Fraction(si_target) / si_factor(sys, dim)
    if kind == "val":
        return {"k": "leaf", "t": "val", "x": {"v": rstr(rand_float(rng, positive, tgt, exact)), "u": unitsj(sys, dim)}}
    if tgt is None:
        tgt = rand_mag(rng)   # the elements of one array share their order of magnitude (two decades)
    return {"k": "leaf", "t": "arr", "xs": {"vs": [rstr(rand_float(rng, positive, tgt, exact and i == 0)) for i in range(n)],
                                            "u": unitsj(sys, dim)}}


class Gen:
    """bottom-up aware generator: the left operand is evaluated on the real code before the right one is drawn, so that
    magnitudes of + - % and comparison operands can be made comparable (otherwise one operand is usually negligible)"""

    def __init__(self, rng, E, maxdepth):
        self.rng, self.E, self.maxdepth = rng, E, maxdepth
        self.n = 0

    def arrlen(self):
        return self.n if self.rng.random() > 0.05 else self.rng.randint(0, 4)

    def hint_of(self, node):
        """(SI magnitude, stored magnitude, dim) of a sub-tree's real value, or None"""
        E = self.E
        with warnings.catch_warnings():
            warnings.simplefilter("ignore")
            with E.np.errstate(all="ignore"):
                keep = (E.findings, E.skips, E.nodes, E.experr)
                E.fresh()
                try:
                    r = ev(E, node)
                finally:
                    E.findings, E.skips, E.nodes, E.experr = keep
        k = E.kind(r) if not isinstance(r, Raised) else None
        if k in ("val", "arr"):
            p = E.pay(r)
            if p is None or not p[0]:
                return None
            i = self.rng.randrange(len(p[0]))
            if p[0][i] == 0:
                return None
            return (abs(p[0][i]), abs(p[3][i]), p[1])
        if k == "num":
            try:
                v = abs(frac(r))
            except (ValueError, TypeError):
                return None
            return (v, v, None) if v != 0 else None
        return None

    def leaf(self, kind, dim, hint=None, positive=False):
        rng = self.rng
        if kind == "num":
            return num_leaf(rng, hint[1] if hint else None, positive, exact=bool(hint and len(hint) > 3 and hint[3]))
        return qty_leaf(rng, kind, dim, self.arrlen(), hint[0] if hint else None, positive,
                        exact=bool(hint and len(hint) > 3 and hint[3]))

    def tree(self, depth, dim=None, kind=None, hint=None, positive=False):
        rng = self.rng
        if dim is None:
            dim = rand_dim(rng)
        if kind is None:
            kind = rng.choice(["val"] * 5 + ["arr"] * 4 + ["num"])
        if depth <= 0 or rng.random() < 0.12:
            return self.leaf(kind, dim, hint, positive)
        choices = ["add"] * 14 + ["sub"] * 12 + ["mul"] * 14 + ["div"] * 12 + ["mod"] * 10 + ["neg"] * 4 + ["abs"] * 4 + ["inv"] * 4
        if kind == "val":
            choices += ["pow"] * 14
        elif rng.random() < 0.03:
            choices += ["pow"] * 14
        op = rng.choice(choices)
        if op in ("neg", "abs"):
            return {"k": op, "a": self.tree(depth - 1, dim, kind, hint, positive and op == "neg" and False)}
        if op == "inv":
            h = (1 / hint[0], 1 / hint[1], None, len(hint) > 3 and hint[3]) if hint else None
            return {"k": "inv", "a": self.tree(depth - 1, tuple(-d for d in dim), kind, h, positive)}
        if op == "pow":
            return self.pow(depth, dim, kind)
        # operand kinds
        if kind == "num":
            kl, kr = "num", "num"
        elif kind == "val":
            kl, kr = rng.choice([("val", "val")] * 6 + [("val", "num")] * 2 + [("num", "val")] * 2)
        else:
            kl, kr = rng.choice([("arr", "arr")] * 4 + [("arr", "val")] * 3 + [("val", "arr")] * 3 + [("arr", "num")] * 2 + [("num", "arr")] * 2)
        if op in ADDITIVE:
            dl = dr = dim
            if rng.random() < 0.12 and kl != "num" and kr != "num":
                dr = other_dim(rng, dim)
            first_right = (kl == "num" and kr != "num")
            # `%` : the quotient must stay moderate, so the second operand drawn is (nearly always) a leaf of comparable size
            p_hint = 1.0 if op == "mod" else 0.75
            d2nd = 0 if (op == "mod" and rng.random() < 0.9) else depth - 1
            if first_right:
                b = self.tree(depth - 1, dr, kr, hint)
                h = self.scaled(self.hint_of(b), op, left=True) if rng.random() < p_hint else None
                a = self.tree(d2nd, dl, kl, h)
            else:
                a = self.tree(depth - 1, dl, kl, hint)
                h = self.scaled(self.hint_of(a), op, left=False) if rng.random() < p_hint else None
                b = self.tree(d2nd, dr, kr, h)
            return {"k": "bin", "op": op, "a": a, "b": b}
        # mul / div: split the dimension
        dl = tuple(rng.randint(max(-3, x - 3), min(3, x + 3)) if rng.random() < 0.6 else max(-3, min(3, x)) for x in dim)
        if kl == "num":
            dl = (0, 0, 0)
        if op == "mul":
            dr = tuple(x - y for x, y in zip(dim, dl))
        else:
            dr = tuple(y - x for x, y in zip(dim, dl))
        if kr == "num":
            dl = dim
        if kl == "num" and op == "div":
            dr = tuple(-x for x in dim)
        elif kl == "num":
            dr = dim
        a = self.tree(depth - 1, dl, kl, None)
        hb = None
        if hint is not None:
            # a target magnitude for the product / quotient: the second factor gets the matching size
            ha = self.hint_of(a)
            if ha is not None:
                hb = (hint[0] / ha[0], hint[1] / ha[1], None) if op == "mul" else (ha[0] / hint[0], ha[1] / hint[1], None)
        return {"k": "bin", "op": op, "a": a, "b": self.tree(depth - 1, dr, kr, hb)}

    def scaled(self, h, op, left):
        """hint for the other operand of + - % : comparable magnitude.  For % the quotient a/b is put, by construction,
        at k + u with u in [0.15, 0.85] (away from the jump of floor), |k| up to ~1e6"""
        if h is None:
            return None
        rng = self.rng
        if op == "mod":
            k = rng.choice([0, 0, 0, 1, 1, 2, 3, 7, 19, 150, 12345, 10 ** rng.randint(3, 6) + rng.randint(0, 9)])
            q0 = k + Fraction(rng.randint(150000, 850000), 1000003)
            if left:     # drawing a for a given b: a = b * q0
                return (h[0] * q0, h[1] * q0, h[2], True)
            return (h[0] / q0, h[1] / q0, h[2], True)
        k = rng.choice([0, 0, 0, 1, -1, 2, -2, 4, -4])
        s = Fraction(10) ** k
        return (h[0] * s, h[1] * s, h[2])

    def pow(self, depth, dim, kind):
        rng = self.rng
        r = rng.random()
        if r < 0.04:   # quantity exponent / number ** quantity: always an error
            a = self.tree(depth - 1, None, rng.choice(["num", "val"]))
            return {"k": "pow", "a": a, "b": self.tree(0, None, rng.choice(["val", "arr"]))}
        ints = [-3, -2, -1, 0, 1, 2, 3]
        cands = []
        for e in [Fraction(i) for i in ints] + FRACS:
            if e == 0:
                if tuple(dim) == (0, 0, 0):
                    cands.append((e, rand_dim(rng)))
                continue
            c = [Fraction(d) / e for d in dim]
            if all(x.denominator == 1 and abs(x) <= 4 for x in c):
                cands.append((e, tuple(int(x) for x in c)))
        if r < 0.16 or not cands:   # deliberately non-integer resulting exponent (most of the time)
            e = rng.choice(FRACS)
            cdim = rand_dim(rng)
        else:
            e, cdim = rng.choice(cands)
        fr = e.denominator != 1
        base = self.tree(depth - 1, cdim, kind, None, positive=fr)
        # a negative base with a fractional exponent: UnitValue raises (TypeError from float(complex)), the model agrees —
        # kept in 20 % of the quantity cases; for plain numbers Python silently continues with complex numbers, which is
        # outside the property (no quantity involved), so number bases are always made non-negative
        if fr and base["k"] != "leaf" and (kind == "num" or rng.random() < 0.8):
            base = {"k": "abs", "a": base}
        py = "float" if fr or rng.random() < 0.2 else "int"
        return {"k": "pow", "a": base, "b": {"k": "leaf", "t": "num", "v": rstr(e), "py": py}}

    def case(self):
        rng = self.rng
        self.n = rng.randint(0, 4)
        depth = rng.randint(1, self.maxdepth)
        if rng.random() < 0.25:
            op = rng.choice(list(CMPOPS))
            dim = rand_dim(rng)
            kl, kr = rng.choice([("val", "val")] * 8 + [("val", "num")] * 3 + [("num", "val")] * 3 + [("val", "arr"), ("arr", "val"), ("arr", "arr"), ("arr", "num"), ("num", "arr")])
            d2 = dim if rng.random() < 0.8 else other_dim(rng, dim)
            if kl == "num":
                b = self.tree(depth - 1, d2, kr)
                h = self.scaled(self.hint_of(b), "add", True) if rng.random() < 0.8 else None
                a = self.tree(min(depth - 1, 1), dim, kl, h)
            else:
                a = self.tree(depth - 1, dim, kl)
                h = self.scaled(self.hint_of(a), "add", False) if rng.random() < 0.8 else None
                b = self.tree(depth - 1 if kr != "num" else min(depth - 1, 1), d2, kr, h)
            case = {"e": a, "cmp": op, "b": b}
            # exactly equal operands: the same leaf twice, in the same unit system (float conversion is then exact)
            if rng.random() < 0.12 and a["k"] == "leaf" and a["t"] == "val":
                case["b"] = {"k": "leaf", "t": "val", "x": dict(a["x"])}
                case["exact_ok"] = True
            elif rng.random() < 0.12 and a["k"] == "leaf" and a["t"] == "val" and kr == "num":
                case["b"] = {"k": "leaf", "t": "num", "v": a["x"]["v"], "py": "float"}
                case["exact_ok"] = True
            elif rng.random() < 0.12 and b["k"] == "leaf" and b["t"] == "val" and kl == "num":
                case["e"] = {"k": "leaf", "t": "num", "v": b["x"]["v"], "py": "float"}
                case["exact_ok"] = True
            return case
        return {"e": self.tree(depth)}


def table_cases(rng, E):
    """exhaustive: operator x operand-type pairing x (same / other system) x (same / other dimension)"""
    out = []
    kinds = ["num", "val", "arr"]
    g = Gen(rng, E, 1)
    for op in list(BINOPS) + ["pow"] + list(CMPOPS):
        for kl in kinds:
            for kr in kinds:
                for same_sys in (True, False):
                    for same_dim in (True, False):
                        for rep in range(2):
                            g.n = rng.randint(1, 3)
                            U = rand_sys(rng)
                            V = U if same_sys else rand_sys(rng)
                            d = rand_dim(rng)
                            if op == "pow":
                                d = tuple(2 * x if abs(x) < 2 else x for x in d) if rep else d
                            d2 = d if same_dim else other_dim(rng, d)
                            a = num_leaf(rng) if kl == "num" else qty_leaf(rng, kl, d, g.n, sys=U)
                            h = g.hint_of(a) if kl != "num" else None
                            if op == "pow":
                                if kr == "num":
                                    e = rng.choice([Fraction(i) for i in (-2, -1, 0, 1, 2, 3)] + FRACS[:3])
                                    if e.denominator != 1 and kl != "num":
                                        a = qty_leaf(rng, kl, d, g.n, sys=U, positive=True)
                                    b = {"k": "leaf", "t": "num", "v": rstr(e), "py": "float" if e.denominator != 1 else "int"}
                                else:
                                    b = qty_leaf(rng, kr, d2, g.n, sys=V)
                                out.append({"e": {"k": "pow", "a": a, "b": b}})
                                continue
                            hs = g.scaled(h, op if op in BINOPS else "add", False) if h else None
                            if kr == "num":
                                b = num_leaf(rng, hs[1] if (hs and op in ADDITIVE + tuple(CMPOPS)) else None)
                            else:
                                tgt = hs[0] if (hs and same_dim and op in ADDITIVE + tuple(CMPOPS)) else None
                                b = qty_leaf(rng, kr, d2, g.n if rep == 0 else rng.randint(1, 3), si_target=tgt, sys=V)
                            if kl == "num" and kr != "num" and op in ADDITIVE + tuple(CMPOPS):
                                hb = g.hint_of(b)
                                if hb:
                                    a = num_leaf(rng, g.scaled(hb, op if op in BINOPS else "add", True)[1])
                            if op in BINOPS:
                                out.append({"e": {"k": "bin", "op": op, "a": a, "b": b}})
                            else:
                                c = {"e": a, "cmp": op, "b": b}
                                if rep and kl == "val" and kr == "val" and same_sys and same_dim:
                                    c["b"] = {"k": "leaf", "t": "val", "x": dict(a["x"])}
                                    c["exact_ok"] = True
                                # a plain number exactly equal to the stored value (it takes the quantity's units)
                                if rep and same_sys and same_dim and (kl, kr) == ("val", "num"):
                                    c["b"] = {"k": "leaf", "t": "num", "v": a["x"]["v"], "py": "float"}
                                    c["exact_ok"] = True
                                if rep and same_sys and same_dim and (kl, kr) == ("num", "val"):
                                    c["e"] = {"k": "leaf", "t": "num", "v": b["x"]["v"], "py": "float"}
                                    c["exact_ok"] = True
                                out.append(c)
    # the reflected methods called directly with a quantity argument (Python's dispatch never does that: the left
    # quantity's forward method runs first); the model applies `rdunder` literally
    for op in BINOPS:
        for kl in ("val", "arr"):
            for kr in ("val", "arr"):
                for same_dim in (True, True, False):
                    g.n = rng.randint(1, 3)
                    d = rand_dim(rng)
                    a = qty_leaf(rng, kl, d, g.n)
                    h = g.hint_of(a)
                    hs = g.scaled(h, op, False) if h else None
                    b = qty_leaf(rng, kr, d if same_dim else other_dim(rng, d), g.n,
                                 si_target=hs[0] if (hs and same_dim and op in ADDITIVE) else None)
                    out.append({"e": {"k": "rbin", "op": op, "a": a, "b": b}})
    for op in ("neg", "abs", "inv"):
        for kl in kinds:
            for rep in range(4):
                g.n = rng.randint(0, 4)
                a = num_leaf(rng) if kl == "num" else qty_leaf(rng, kl, rand_dim(rng), g.n)
                out.append({"e": {"k": op, "a": a}})
    return out


# ------------------------------------------------------------------------------------------------
# operands built from ndarrays of other dtypes (float32 / int32 / int64 / uint8), values exactly representable in the
# dtype: the quantity is the same, so exact SI arithmetic is still the expected result
# ------------------------------------------------------------------------------------------------
DTYPES = ["float32", "int32", "int64", "uint8"]


def dtype_values(rng, dt, n):
    if dt == "uint8":
        return [Fraction(rng.randint(1, 250)) for _ in range(n)]
    if dt == "int32":
        return [Fraction(rng.choice([1, -1]) * rng.randint(30000, 2 * 10 ** 9)) for _ in range(n)]
    if dt == "int64":
        return [Fraction(rng.choice([1, -1]) * rng.randint(2 ** 31, 2 ** 50)) for _ in range(n)]   # products with small ints stay below 2**53 (exact doubles)
    # float32: 24-bit mantissa times a power of two
    return [Fraction(rng.choice([1, -1]) * rng.randint(2 ** 22, 2 ** 24 - 1)) * Fraction(2) ** rng.randint(-30, 10) for _ in range(n)]


def dtype_leaf(rng, dt, n, sys, dim):
    return {"k": "leaf", "t": "arr", "xs": {"vs": [rstr(v) for v in dtype_values(rng, dt, n)], "u": unitsj(sys, dim), "dtype": dt}}


def dtype_cases(rng, reps):
    out = []
    for dt in DTYPES:
        for rep in range(reps):
            for op in ("mul", "div", "add", "sub", "mod"):
                n = rng.randint(1, 4)
                U = rand_sys(rng)
                V = U if rng.random() < 0.4 else rand_sys(rng)
                d = rand_dim(rng)
                a = dtype_leaf(rng, dt, n, U, d)
                first = abs(Fraction(a["xs"]["vs"][0]))
                si_first = first * si_factor(U, d)
                # plain numbers: Python ints (weak scalars keep a small dtype) and floats, sizes that overflow / round in the dtype
                if op in ("mul", "div"):
                    nums = [("int", Fraction(rng.choice([2, 3, 7, 100000, 1000003, -5]))), ("float", Fraction(rng.choice([0.1, 3.0, 1e5 + 0.5, -2.5])))]
                else:
                    nums = [("int", Fraction(int(first * rng.choice([2, 3, 5])) + rng.choice([1, 3]))),
                            ("float", Fraction(float(first * Fraction(rng.choice([3, 7, 11]), 2) + Fraction(1, 3))))]
                for py, q in nums:
                    b = {"k": "leaf", "t": "num", "v": rstr(q), "py": py}
                    out.append({"e": {"k": "bin", "op": op, "a": a, "b": b}})
                    out.append({"e": {"k": "bin", "op": op, "a": b, "b": a}})
                # a scalar quantity and arrays (same dtype, another dtype, float64) on either side
                d2 = d if op in ADDITIVE else rand_dim(rng)
                tgt = si_first * Fraction(rng.choice([5, 7, 9]), 2) if op in ADDITIVE else None
                v = qty_leaf(rng, "val", d2, 1, si_target=tgt, sys=V)
                out.append({"e": {"k": "bin", "op": op, "a": a, "b": v}})
                out.append({"e": {"k": "bin", "op": op, "a": v, "b": a}})
                for dt2 in (dt, rng.choice(DTYPES), None):
                    if dt2 is None:
                        b = qty_leaf(rng, "arr", d2, n, si_target=tgt, sys=V)
                    else:
                        b = dtype_leaf(rng, dt2, n, U if dt2 == dt else V, d2)
                    if op == "mod" and dt2 is not None:
                        continue        # quotients of unrelated magnitudes: covered by the scalar / float64 forms
                    out.append({"e": {"k": "bin", "op": op, "a": a, "b": b}})
                    out.append({"e": {"k": "bin", "op": op, "a": b, "b": a}})
            for op in ("neg", "abs", "inv"):
                out.append({"e": {"k": op, "a": dtype_leaf(rng, dt, rng.randint(1, 4), rand_sys(rng), rand_dim(rng))}})
            # a conversion in between: (a in U) + (a' in V) forces convert() on the small-dtype array
            U, V, d = rand_sys(rng), rand_sys(rng), rand_dim(rng)
            a = dtype_leaf(rng, dt, 2, U, d)
            si0 = abs(Fraction(a["xs"]["vs"][0])) * si_factor(U, d)
            out.append({"e": {"k": "bin", "op": "add", "a": qty_leaf(rng, "val", d, 1, si_target=si0 * 3, sys=V), "b": a}})
    return out


# ------------------------------------------------------------------------------------------------
# `%` with large non-integer quotients (1e7 … 1e13), all pairings, same and different unit systems
# ------------------------------------------------------------------------------------------------
def bigmod_cases(rng, reps):
    out = []
    pairings = [("val", "val"), ("val", "arr"), ("arr", "val"), ("arr", "arr"), ("val", "num"), ("num", "val"), ("arr", "num"), ("num", "arr")]
    for rep in range(reps):
        for (kl, kr) in pairings:
            for same in (True, False):
                d = rand_dim(rng)
                U = rand_sys(rng)
                V = U if same else rand_sys(rng)
                n = rng.randint(1, 3)
                m_si = rand_mag(rng) * Fraction(rng.randint(10 ** 5, 10 ** 8), 999983) * rng.choice([1, -1])
                qs = [(rng.randint(1, 9) * 10 ** rng.randint(7, 12) + rng.randint(0, 10 ** 6)) * rng.choice([1, 1, -1])
                      + Fraction(rng.randint(150, 850), 1000) for _ in range(n)]

                def leaf(kind, sys, sis, other_sys):
                    if kind == "num":     # a plain number takes the quantity's units
                        return {"k": "leaf", "t": "num", "v": rstr(float(sis[0] / si_factor(other_sys, d))), "py": "float"}
                    vals = [rstr(float(s / si_factor(sys, d))) for s in sis]
                    if kind == "val":
                        return {"k": "leaf", "t": "val", "x": {"v": vals[0], "u": unitsj(sys, d)}}
                    return {"k": "leaf", "t": "arr", "xs": {"vs": vals, "u": unitsj(sys, d)}}
                a = leaf(kl, U, [q * m_si for q in qs], V)
                b = leaf(kr, V, [m_si * (1 + Fraction(i, 7)) for i in range(n)] if kr == "arr" else [m_si], U)
                if kl == "arr" and kr == "arr":
                    a = leaf(kl, U, [q * m_si * (1 + Fraction(i, 7)) for i, q in enumerate(qs)], V)
                out.append({"e": {"k": "bin", "op": "mod", "a": a, "b": b}})
    return out


# ------------------------------------------------------------------------------------------------
# `**` with exponents NEAR one that gives integer dimensions (p/q +- 1e-10 … 2e-12): dim*e is non-integral in exact
# arithmetic (by more than 1e-12) -> must raise
# ------------------------------------------------------------------------------------------------
def nearpow_cases(rng, reps):
    out = []
    fixed = [0.3333333334, 0.50000000001, 1.9999999999, 2.0000000001, 0.66666666667, -0.49999999999, 0.99999999999, 3.00000000002]
    targets = [Fraction(1, 2), Fraction(1, 3), Fraction(2, 3), Fraction(-1, 2), Fraction(3, 2), Fraction(1), Fraction(2), Fraction(-1), Fraction(3)]
    for rep in range(reps):
        exps = list(fixed) if rep == 0 else []
        for _ in range(10):
            pq = rng.choice(targets)
            delta = rng.choice([1, -1]) * rng.choice([1e-10, 3e-11, 1e-11, 5e-12, 2e-12])
            exps.append(float(pq) + delta)
        for e in exps:
            fe = Fraction(e)
            near = min(targets, key=lambda x: abs(x - fe))
            q = near.denominator
            d = tuple(q * rng.choice([0, 1, -1, 2, 1]) for _ in range(3))
            if d == (0, 0, 0):
                d = (q, 0, -q)
            # exact arithmetic: some dim_k * e must miss every integer by more than 1e-12
            if not any(abs(x * fe - round(x * fe)) > Fraction(1, 10 ** 12) for x in d):
                continue
            a = qty_leaf(rng, "val", d, 1, si_target=Fraction(rng.randint(2, 9999), rng.choice([1, 10, 1000])) , positive=True)
            # oracle only: the exponent's exact rational has a 2^50-size denominator, which the driver's root approximation
            # cannot take (the model raises on these by `pow_nonint_raises`; nothing to compare but raise-or-not)
            out.append({"e": {"k": "pow", "a": a, "b": {"k": "leaf", "t": "num", "v": rstr(e), "py": "float"}}, "oracle_only": True})
    return out


# ------------------------------------------------------------------------------------------------
# comparisons of a scalar quantity with a plain number that is NOT a double: Python ints above 2**53 and fractions.Fraction
# values that differ from the stored magnitude by less than one ulp (or not at all), and ints / Fractions beyond the double
# range.  The number takes the quantity's units, so the SI comparison is the exact comparison of the number with the stored
# magnitude; nothing needs rounding (Python compares float with int / Fraction exactly), so no float allowance applies.
# ------------------------------------------------------------------------------------------------
def _ulp(v):
    """spacing of the doubles around |v| on the side away from zero, exact"""
    return Fraction(math.ulp(abs(v)))


def exactnum_values(rng):
    """stored magnitudes by class: (class, double)"""
    sg = lambda: rng.choice([1, 1, -1])   # noqa
    out = [("mant53", sg() * float(rng.randint(2 ** 52, 2 ** 53 - 1) * 2 ** rng.randint(1, 120))),     # integer doubles above 2**53
           ("pow2", sg() * 2.0 ** rng.randint(53, 140)),                                                # the ulp halves just below
           ("dec", sg() * float(rng.randint(1, 99999) * 10 ** rng.randint(16, 40))),                    # 1e22, 6.02214e23, ... as written
           ("count", sg() * float(rng.randint(2 ** 53, 2 ** 63))),                                      # molecule counts >= 9e15
           ("int<2^53", sg() * float(rng.randint(1, 2 ** 53))),                                         # only Fractions are sub-ulp here
           ("any", rand_float(rng))]                                                                    # any magnitude (1e-15 .. 1e15)
    return out


def exactnum_numbers(rng, v):
    """plain numbers around the stored double `v`, every one an exact rational that is (mostly) not a double: (class, py, q)"""
    V, u = Fraction(v), _ulp(v)
    out = []
    if V.denominator == 1 and u >= 1:
        half = u / 2
        ds = {1, -1, 3, -3, 0}
        if half >= 1:
            ds |= {int(half), -int(half), int(half) + 1, -int(half) - 1, int(half) - 1, 1 - int(half), int(u) - 1, 1 - int(u)}
        if u >= 4:
            ds |= {int(u / 4), -int(u / 4), rng.randint(1, int(half)), -rng.randint(1, int(half))}
        for d in rng.sample(sorted(ds), min(5, len(ds))):
            out.append(("int:tie" if d == 0 else "int:sub-ulp", "int", V + d))
    # Fractions: a third / a seventh of an ulp off, a relative 1e-17 .. 1e-30 off, and the tie
    for _ in range(2):
        out.append(("frac:sub-ulp", "frac", V + rng.choice([1, -1]) * u * Fraction(rng.choice([1, 2, 3]), rng.choice([3, 7, 2 ** 40 + 1]))))
    out.append(("frac:rel", "frac", V * (1 + rng.choice([1, -1]) * Fraction(1, 10 ** rng.randint(17, 30)))))
    if rng.random() < 0.3:
        out.append(("frac:tie", "frac", V))
    # beyond the double range (either sign): still a number, still comparable exactly
    r = rng.random()
    if r < 0.35:
        out.append(("int:huge", "int", Fraction(rng.choice([1, -1]) * (2 ** rng.randint(1024, 1100) + rng.randint(0, 10 ** 6)))))
    elif r < 0.5:
        out.append(("frac:huge", "frac", Fraction(rng.choice([1, -1]) * 10 ** rng.randint(309, 400), 3)))
    elif r < 0.6:
        out.append(("frac:tiny", "frac", Fraction(rng.choice([1, -1]), 3 * 10 ** rng.randint(330, 400))))
    return out


def exactnum_cases(rng, reps):
    out = []
    for rep in range(reps):
        for cls, v in exactnum_values(rng):
            sys, dim = rand_sys(rng), rand_dim(rng)
            if rng.random() < 0.25:
                sys, dim = (sys[0], sys[1], "molecule"), (0, 0, 1)      # a molecule count
            q = {"k": "leaf", "t": "val", "x": {"v": rstr(v), "u": unitsj(sys, dim)}}
            for ncls, py, n in exactnum_numbers(rng, v):
                num = {"k": "leaf", "t": "num", "v": rstr(n), "py": py}
                for op in CMPOPS:
                    for left in (True, False):
                        out.append({"e": q if left else num, "cmp": op, "b": num if left else q, "exact_ok": True,
                                    "cls": cls + "/" + ncls})
    return out


# ------------------------------------------------------------------------------------------------
# streams in ONE process: blocks of consecutive cases (`multi`) and sequences over a pool of live, re-used operands (`seq`)
# ------------------------------------------------------------------------------------------------
def run_multi(E, case):
    """consecutive ordinary cases evaluated one after the other in this process (what an earlier case left behind in the
    package — caches, shared objects — is part of what is tested); findings carry the index of the sub-case"""
    allf, alln, alls, alle = [], [], [], []
    for i, sub in enumerate(case["multi"]):
        run_case(E, sub)
        allf += [(k, w, "#%d:%s" % (i, p), im, ex) for (k, w, p, im, ex) in E.findings]
        alln += E.nodes
        alls += E.skips
        alle += E.experr
    E.findings, E.nodes, E.skips, E.experr = allf, alln, alls, alle
    return {"t": "multi", "n": len(case["multi"])}


def leaf_spec(node):
    """exact SI reading of a leaf from its CREATION DATA (never from the live object)"""
    if node["t"] == "num":
        q = Fraction(node["v"])
        if node.get("py", "float") == "float" or node.get("py") == "npf":
            q = Fraction(float(q))
        return {"kind": "num", "vals": [q], "mags": [abs(q)], "dim": None, "sys": None}
    x = node["x"] if node["t"] == "val" else node["xs"]
    sy = x["u"]["sys"]
    sys = (sy["space"], sy["time"], sy["quantity"])
    dim = tuple(x["u"]["dim"])
    f = si_factor(sys, dim)
    vs = [Fraction(float(Fraction(v))) * f for v in ([x["v"]] if node["t"] == "val" else x["vs"])]
    return {"kind": node["t"], "vals": vs, "mags": [abs(v) for v in vs], "dim": dim, "sys": sys}


def spec_op(op, A, B=None):
    """exact SI arithmetic on specs: ("ok", spec) | ("bool", b) | ("raise", why) | ("skip", why)"""
    if op in ("neg", "abs"):
        f = (lambda v: -v) if op == "neg" else abs
        return "ok", dict(A, vals=[f(v) for v in A["vals"]], sys=None if A["kind"] != "num" else None)
    qa, qb = A["kind"] != "num", B["kind"] != "num"
    if not qa and not qb:
        return "skip", "numbers"
    additive = op in ADDITIVE or op in CMPOPS
    av, am, bv, bm = A["vals"], A["mags"], B["vals"], B["mags"]
    if additive and qa and qb and tuple(A["dim"]) != tuple(B["dim"]):
        if op == "eq":
            return "bool", False
        if op == "ne":
            return "bool", True
        return "raise", "dim"
    if A["kind"] == "arr" and B["kind"] == "arr" and len(av) != len(bv):
        return "raise", "len"
    if additive and qa != qb:
        other = A if qa else B
        if other["sys"] is None:
            return "skip", "number-next-to-derived"   # the property leaves the units of a derived result open
        u = si_factor(other["sys"], other["dim"])
        if qa:
            bv, bm = [bv[0] * u], [bm[0] * u]
        else:
            av, am = [av[0] * u], [am[0] * u]
    if op in CMPOPS:
        if "arr" in (A["kind"], B["kind"]):
            # == / != with an array is object identity (UnitArray defines no comparison): not claimed
            return ("skip", "array-identity") if op in ("eq", "ne") else ("raise", "cmp-array")
        x, y = av[0], bv[0]
        if x != y and abs(x - y) <= Fraction(1, 10 ** 6) * (am[0] + bm[0]):
            return "skip", "ambiguous"
        if x == y and not ((qa != qb) or (A["sys"] is not None and A["sys"] == B["sys"])):
            return "skip", "ambiguous"      # equal SI values in different systems: the float conversion need not be exact
        return "bool", {"eq": x == y, "ne": x != y, "lt": x < y, "le": x <= y, "gt": x > y, "ge": x >= y}[op]
    if op in ("div", "mod") and any(v == 0 for v in bv):
        return "skip", "zero-divisor"
    n = len(av) if A["kind"] == "arr" else (len(bv) if B["kind"] == "arr" else 1)
    vals, mags = [], []
    for i in range(n):
        x, y, mx, my = _bc(av, i), _bc(bv, i), _bc(am, i), _bc(bm, i)
        if op == "add":
            vals.append(x + y); mags.append(mx + my)
        elif op == "sub":
            vals.append(x - y); mags.append(mx + my)
        elif op == "mul":
            vals.append(x * y); mags.append(mx * my)
        elif op == "div":
            vals.append(x / y); mags.append(mx * my / (y * y))
        else:
            q = x / y
            mq = mx * my / (y * y)
            fl = math.floor(q)
            if abs(q) > 10 ** 8 or (q != 0 and min(q - fl, fl + 1 - q) < Fraction(1, 10 ** 9) * max(mq, abs(q))):
                return "skip", "ambiguous"
            vals.append(x - y * fl); mags.append(mx + my * abs(fl))
    if op == "mul":
        dim = tuple(x + y for x, y in zip(A["dim"] or (0, 0, 0), B["dim"] or (0, 0, 0)))
    elif op == "div":
        dim = tuple(x - y for x, y in zip(A["dim"] or (0, 0, 0), B["dim"] or (0, 0, 0)))
    else:
        dim = tuple(A["dim"] if qa else B["dim"])
    return "ok", {"kind": "arr" if "arr" in (A["kind"], B["kind"]) else "val", "vals": vals, "mags": mags, "dim": dim, "sys": None}


def run_seq(E, case):
    """a sequence of operations over a pool of LIVE operand objects that are re-used; every result is compared with exact SI
    arithmetic on the operands' creation data, every operand must stay bit-unchanged, and so must the whole pool"""
    E.fresh()
    seq = case["seq"]
    with warnings.catch_warnings():
        warnings.simplefilter("ignore")
        with E.np.errstate(all="ignore"):
            objs = [E.leaf(n) for n in seq["pool"]]
            specs = [leaf_spec(n) for n in seq["pool"]]
            born = [snap(E, o) for o in objs]
            for k, o in enumerate(seq["ops"]):
                op, path = o["op"], "op%d" % k
                idx = [o["a"]] + ([o["b"]] if "b" in o else [])
                if any(objs[i] is None for i in idx):
                    objs.append(None); specs.append(None); born.append(None)
                    continue
                operands = tuple(objs[i] for i in idx)
                sp = [specs[i] for i in idx]
                sn = tuple(snap(E, x) for x in operands)
                f = BINOPS.get(op) or CMPOPS.get(op) or {"neg": operator.neg, "abs": abs}[op]
                try:
                    r = f(*operands)
                except Exception as ex:  # noqa
                    r = Raised(ex)
                pairing = "-".join(E.kind(x) for x in operands)
                E.nodes.append((op, pairing))
                purity(E, op, operands, sn, r, path)
                for j, (ob, b0) in enumerate(zip(objs, born)):
                    if ob is not None and snap(E, ob) != b0:
                        E.find("purity:pool-modified:%s" % op, "after %s (%s) pool entry %d reads %s, it was created as %s" % (
                            op, pairing, j, snap_s(snap(E, ob)), snap_s(b0)), path, impl=snap_s(snap(E, ob)), expected=snap_s(b0))
                        born[j] = snap(E, ob)   # report once
                what, exp = spec_op(op, *sp)
                key0 = "sequence:%s:%s" % (op, pairing)
                keep = None
                if what == "skip":
                    E.skips.append("seq-%s-%s" % (exp, op) if exp == "ambiguous" else ("zero-divisor" if exp == "zero-divisor" else "seq-" + exp))
                elif what == "raise":
                    E.experr.append(exp)
                    if not isinstance(r, Raised):
                        E.find(key0 + ":not-raised:" + exp, "%s of %s did not raise" % (op, pairing), path, impl=E.canon(r), expected="exception")
                elif isinstance(r, Raised):
                    E.find(key0 + ":raised", "%s of %s (valid) raised %s" % (op, pairing, type(r.exc).__name__), path, impl=E.canon(r))
                elif what == "bool":
                    if not isinstance(r, (bool, E.np.bool_)) or bool(r) != exp:
                        E.find(key0 + ":value", "%s of %s is %r; exact SI arithmetic on the operands as created gives %s" % (op, pairing, r, exp),
                               path, impl=E.canon(r), expected=exp)
                else:
                    pr = E.pay(r) if E.kind(r) in ("val", "arr") else None
                    if E.kind(r) != exp["kind"]:
                        E.find(key0 + ":kind", "%s of %s returned a %s" % (op, pairing, type(r).__name__), path, impl=E.canon(r), expected=exp["kind"])
                    elif pr is None or not in_range(pr[3]):
                        E.skips.append("range")
                    elif tuple(pr[1]) != tuple(exp["dim"]):
                        E.find(key0 + ":dim", "%s of %s has dimension %s, expected %s" % (op, pairing, list(pr[1]), list(exp["dim"])), path,
                               impl=E.canon(r), expected={"dim": exp["dim"]})
                    elif len(pr[0]) != len(exp["vals"]) or not all(qclose(v, q, m) for v, q, m in zip(pr[0], exp["vals"], exp["mags"])):
                        E.find(key0 + ":value", "%s of %s: SI value %s; exact SI arithmetic on the operands as created gives %s" % (
                            op, pairing, [fstr(v) for v in pr[0]], [fstr(v) for v in exp["vals"]]), path, impl=E.canon(r),
                            expected={"dim": exp["dim"], "si": [rstr(v) for v in exp["vals"]]})
                    else:
                        keep = r
                if o.get("keep") and keep is not None:
                    objs.append(keep); specs.append(exp); born.append(snap(E, keep))
                else:
                    objs.append(None); specs.append(None); born.append(None)
    return {"t": "seq", "n": len(seq["ops"])}


def seq_cases(rng, n):
    out = []
    for _ in range(n):
        dims = [rand_dim(rng)]
        if rng.random() < 0.3:
            dims.append(other_dim(rng, dims[0]))
        systems = [rand_sys(rng) for _ in range(rng.choice([1, 2, 2, 3]))]
        base = rand_mag(rng) * si_factor(systems[0], dims[0])
        L = rng.randint(1, 3)
        pool = []
        for i in range(rng.randint(4, 7)):
            kind = rng.choice(["val"] * 5 + ["arr"] * 2 + ["num"])
            if kind == "num" and i > 0:
                pool.append(num_leaf(rng, None if rng.random() < 0.5 else abs(Fraction(rng.randint(2, 900), 7)), False))
                continue
            kind = "val" if kind == "num" else kind
            d = dims[0] if rng.random() < 0.85 else rng.choice(dims)
            sy = rng.choice(systems)
            tgt = base * Fraction(10) ** rng.randint(-2, 2) * si_factor(sy, d) / si_factor(systems[0], dims[0])
            pool.append(qty_leaf(rng, kind, d, L, si_target=abs(tgt), sys=sy))
        specs = [leaf_spec(nd) for nd in pool]
        ops = []
        for _ in range(rng.randint(5, 15)):
            alive = [i for i, sp in enumerate(specs) if sp is not None]
            op = rng.choice(["add"] * 3 + ["sub"] * 3 + ["mod"] * 6 + ["mul"] * 2 + ["div"] * 2 + ["neg", "abs", "lt", "ge", "eq", "gt"])
            a = rng.choice(alive)
            if op in ("neg", "abs"):
                o = {"op": op, "a": a}
                what, sp = spec_op(op, specs[a])
            else:
                same = [i for i in alive if specs[i]["kind"] != "num" and specs[a]["dim"] is not None and specs[i]["dim"] == specs[a]["dim"]]
                b = rng.choice(same) if (same and rng.random() < 0.85) else rng.choice(alive)
                if op == "mod":
                    # a modulus that gives a well-defined floor (quotient moderate and away from an integer); else fall back to +
                    good = [i for i in same if i != a and spec_op("mod", specs[a], specs[i])[0] == "ok"]
                    if good:
                        b = rng.choice(good)
                    elif rng.random() < 0.9:
                        op = "add"
                o = {"op": op, "a": a, "b": b}
                what, sp = spec_op(op, specs[a], specs[b])
            if what == "skip" and sp in ("numbers", "number-next-to-derived"):
                continue
            o["keep"] = bool(what == "ok" and rng.random() < 0.5)
            ops.append(o)
            specs.append(sp if o["keep"] else None)
        out.append({"seq": {"pool": pool, "ops": ops}})
    return out


def label_collisions():
    """all pairs of the 1100 unit systems whose labels coincide when joined (without a separator, or with a plausible one)"""
    pairs = set()
    for sep in ["", " ", ".", "/", "_", "-", ",", "|"]:
        groups = {}
        for a in SPACE:
            for b in TIME:
                for c in QTY:
                    groups.setdefault(sep.join((a, b, c)), []).append((a, b, c))
        for g in groups.values():
            for i in range(len(g)):
                for j in range(i + 1, len(g)):
                    pairs.add((g[i], g[j]))
    return sorted(pairs)


def collision_cases(rng, npairs, ndims):
    """for unit systems whose labels collide when concatenated ("m"+"ms" = "mm"+"s" ...): the same operations with the same
    other system and the same dimension vector, first with one member of the pair, then with the other — one block, one process"""
    pairs = label_collisions()
    rng.shuffle(pairs)
    dimpool = [(1, -1, 0), (2, -1, 0), (-1, 1, 1), (1, -2, 1), (-3, 1, 1), (1, 0, -1), (0, 1, -1), (3, -1, -2), (-1, 2, 0)]
    out = []
    for (S1, S2) in pairs[:npairs]:
        T = rand_sys(rng)
        while T in (S1, S2):
            T = rand_sys(rng)
        for bi, d in enumerate(rng.sample(dimpool, ndims)):
            order = (S1, S2) if bi % 2 == 0 else (S2, S1)
            subs = []
            base = rand_mag(rng)
            for S in order:
                x = qty_leaf(rng, "val", d, 1, si_target=base, sys=S)
                for op in ["add", "sub", "mul", "div", "mod", "lt"]:
                    xs = leaf_spec(x)["vals"][0]
                    if op == "mod":
                        q0 = rng.choice([0, 1, 3, 17]) + Fraction(rng.randint(150000, 850000), 1000003)
                        y = qty_leaf(rng, "val", d, 1, si_target=abs(xs) / q0, sys=T, exact=True)
                        y2 = qty_leaf(rng, "val", d, 1, si_target=abs(xs) * q0, sys=T, exact=True)
                    else:
                        y = qty_leaf(rng, "val", d, 1, si_target=abs(xs), sys=T)
                        y2 = y
                    if op in CMPOPS:
                        subs.append({"e": x, "cmp": op, "b": y})
                        subs.append({"e": y, "cmp": op, "b": x})
                    else:
                        subs.append({"e": {"k": "bin", "op": op, "a": x, "b": y}})
                        subs.append({"e": {"k": "bin", "op": op, "a": y2, "b": x}})
                arr = qty_leaf(rng, "arr", d, 2, si_target=base, sys=S)
                yv = qty_leaf(rng, "val", d, 1, si_target=base, sys=T)
                subs.append({"e": {"k": "bin", "op": "add", "a": arr, "b": yv}})
                subs.append({"e": {"k": "bin", "op": "sub", "a": yv, "b": arr}})
            out.append({"multi": subs, "stream": "collision"})
    return out


# ------------------------------------------------------------------------------------------------
# correspondence
# ------------------------------------------------------------------------------------------------
def strip(node):
    return node


def model_op(case):
    op = {"op": "expr", "e": case["e"]}
    if "cmp" in case:
        op["cmp"] = case["cmp"]
        op["b"] = case["b"]
    return op


def has_quantity(node):
    if node["k"] == "leaf":
        return node["t"] != "num"
    return any(has_quantity(node[c]) for c in ("a", "b") if c in node)


def compare_model(ctx, case, got, r):
    """returns None when agreeing, 'skip:<why>' when the float policy says so, else a description"""
    if r is None:
        return "skip:no-model"
    if r.get("zerodiv"):
        return "skip:zero-divisor"
    lo, hi = rparse(r["lo"]), rparse(r["hi"])
    if (lo != 0 and lo < LO) or hi > HI:
        return "skip:range"
    ambiguous = rparse(r["margin"]) < Fraction(1, 10 ** 6)
    # a comparison of a quantity LEAF with a number LEAF: model and code hold the very same two rationals and the code needs no
    # float operation to compare them (the number takes the quantity's units) -> the boolean is compared whatever the margin
    leafcmp = ("cmp" in case and case["e"]["k"] == "leaf" and case["b"]["k"] == "leaf"
               and sorted((case["e"]["t"], case["b"]["t"])) == ["num", "val"])
    if "cmp_margin" in r and rparse(r["cmp_margin"]) < Fraction(1, 10 ** 6) and not (r.get("cmp_exact") and case.get("exact_ok")) and not leafcmp:
        ambiguous = True
    if ambiguous:
        # some node sits within float error of a discontinuity (floor of a % quotient, a comparison, a divisor that is zero up
        # to cancellation): either side is acceptable there, so values / the boolean are not compared — everything else is
        if "error" in r and "error" in got:
            return "partial:ambiguous"      # both raise
        if "error" in r or "error" in got:
            return "skip:ambiguous"         # raise-or-not itself may hinge on the discontinuity (zero up to cancellation)
        mo = r["ok"]
        if mo["t"] != got["t"]:
            return "kind"
        if mo["t"] in ("val", "arr"):
            x = mo["x"] if mo["t"] == "val" else mo["xs"]
            if [x["u"]["sys"]["space"], x["u"]["sys"]["time"], x["u"]["sys"]["quantity"]] != list(got["sys"]):
                return "stored-system"
            if list(x["u"]["dim"]) != list(got["dim"]):
                return "dim"
            if len([x["v"]] if mo["t"] == "val" else x["vs"]) != len(got["vs"]):
                return "length"
        return "partial:ambiguous"
    if got.get("t") == "num" and isinstance(got.get("v"), float) and got["v"] != got["v"] and r.get("error") == "typeError":
        return "skip:complex"   # numpy scalar: negative ** fractional is nan instead of a complex number
    if got.get("t") == "complex":
        # number ** number with a negative base and a fractional exponent is a complex number in plain Python: no quantity involved
        return "skip:complex" if r.get("error") == "typeError" else "kind"
    if "error" in r or "error" in got:
        if ("error" in r) != ("error" in got):
            return "raise-or-not"
        return None
    mo = r["ok"]
    if mo["t"] != got["t"]:
        return "kind"
    if mo["t"] == "bool":
        return None if mo["b"] == got["b"] else "bool"
    if mo["t"] == "exc":
        return None
    mags = [rparse(m) for m in r["mag"]]
    if mo["t"] == "num":
        return None if _close0(got["v"], rparse(mo["v"]), mags[0] if mags else None, rel=1e-9) else "value"
    x = mo["x"] if mo["t"] == "val" else mo["xs"]
    ms = [x["u"]["sys"]["space"], x["u"]["sys"]["time"], x["u"]["sys"]["quantity"]]
    if ms != list(got["sys"]):
        return "stored-system"
    if list(x["u"]["dim"]) != list(got["dim"]):
        return "dim"
    mvs = [rparse(v) for v in ([x["v"]] if mo["t"] == "val" else x["vs"])]
    if len(mvs) != len(got["vs"]):
        return "length"
    for i, (g, m) in enumerate(zip(got["vs"], mvs)):
        if not _close0(g, m, mags[i] if i < len(mags) else None, rel=1e-9):
            return "value"
    return None


def process(ctx, E, cases, label):
    gots, finds, skips = [], [], []
    for case in cases:
        got = run_case(E, case)
        gots.append(got)
        finds.append(list(E.findings))
        skips.append(list(E.skips))
        for op, pairing in E.nodes:
            ctx.count("op_" + op)
            ctx.count("pair_" + pairing)
        for s in E.skips:
            ctx.count("oracle_skip_" + s)
        for s in E.experr:
            ctx.count("expected_error_" + s)
        for s in E.exactcmp:
            ctx.count("exact_number_cmp_" + s)
        if case.get("cls"):
            ctx.count("exactnum_" + case["cls"])
        ctx.count("oracle_nodes", len(E.nodes))
    res = [None] * len(cases)
    idx = [i for i, c in enumerate(cases) if "e" in c and not c.get("oracle_only")]      # the streams (multi / seq) are oracle only: the model is pure by construction
    B = 1500
    for i in range(0, len(idx), B):
        part = idx[i:i + B]
        for j, r in zip(part, ctx.model.run([model_op(cases[j]) for j in part])):
            res[j] = r
    for case, got, fs, sk, r in zip(cases, gots, finds, skips, res):
        if "e" not in case:
            process_stream(ctx, case, got, fs, label)
            continue
        nontriv = has_quantity(case["e"]) or ("b" in case and has_quantity(case["b"]))
        ctx.case(rstr(0) + repr(case), nontrivial=nontriv, sample={"op": "expr", "case": case, "impl": got})
        ctx.count(label)
        ctx.count("impl_error_" + got["error"] if "error" in got else "impl_" + got.get("t", "?"))
        for key, what, path, impl, expected in fs:
            # the runner keeps the first 20 violations only: report each key at most twice so that a frequent
            # (e.g. known) finding cannot crowd out a different one
            ctx.count("oracle_fail_" + key)
            if ctx.stats["oracle_fail_" + key] <= 2:
                ctx.violation(key, what + " (node %s)" % path, {"case": case, "node": path}, impl=impl, expected=expected)
        why = compare_model(ctx, case, got, r)
        if why is None:
            ctx.count("model_agree")
        elif why.startswith("skip:") or why.startswith("partial:"):
            ctx.count("model_" + why.replace(":", "_"))
        else:
            ctx.disagree("expr", {"case": case}, got, r, note=why)


def process_stream(ctx, case, got, fs, label):
    ctx.case(repr(case), nontrivial=True, sample=None)
    ctx.count(label)
    ctx.count(label + "_operations", got["n"])
    for key, what, path, impl, expected in fs:
        if "multi" in case:
            i = int(path[1:path.index(":")])
            rec = {"multi": case["multi"][:i + 1], "stream": case.get("stream")}
            if case.get("stream") == "collision" and not key.startswith("purity"):
                parts = key.split(":")
                key = "collision:%s:%s" % (parts[0], parts[-1])
        else:
            k = int(path[2:])
            rec = {"seq": {"pool": case["seq"]["pool"], "ops": case["seq"]["ops"][:k + 1]}}
        ctx.count("oracle_fail_" + key)
        if ctx.stats["oracle_fail_" + key] <= 2:
            ctx.violation(key, what + " (step %s)" % path, {"case": rec, "node": path}, impl=impl, expected=expected)


def run(ctx):
    E = Env()
    rng = ctx.rng
    ctx.notes.append("array == / != : UnitArray defines no comparison; Python falls back to object identity. Not claimed by the "
                     "property check (only: does not raise, returns a bool).")
    ctx.notes.append("cmp_si is proved for all pairings on the tree under test (ordering_else_raises is read from the regenerated source: "
                     "the last branch of UnitValue.__gt__/__ge__/__lt__/__le__ raises since 8d48d0b; on a tree where it returns the "
                     "TypeError instance that theorem breaks and the oracle reports cmp-array-returns-exception-object).")
    ctx.notes.append("eval_homomorphism: hypothesis-free for trees with integer-literal exponents (eval_homomorphism_int); for non-integer "
                     "exponents it assumes PowContract of the trusted float power (root: returns the exact positive rational root when one "
                     "exists; scale: (x*y^q)^e = x^e*y^p), proved satisfiable (powContract_satisfiable). TRUSTED: that CPython's float ** e "
                     "rounds the real power function, which has both properties; the check compares ** values to 1e-9 on every case.")
    ctx.notes.append("the reflected methods are also called directly with a quantity argument (b.__rsub__(a) etc., never done by Python's "
                     "dispatch): model (rdunder applied literally) and oracle.")
    ctx.notes.append("operands built from float32 / int32 / int64 / uint8 ndarrays (values exactly representable in the dtype) denote the "
                     "same quantities: the oracle is exact arithmetic on their SI values as for any other operand (dtype stream).")
    ctx.notes.append("% : the oracle is the exact floored modulo of the SI values; tolerance 1e-9*|modulus| plus floor(a/m)*|m|*16ulp for "
                     "the rounding of the unit conversion (none when both operands are stored in one system or one is a plain number: "
                     "float % is exact); quotients up to 1e13 are generated (bigmod stream).")
    ctx.notes.append("UnitArray ** n raises NotImplementedError always (documented); the statement's ** is on scalar quantities.")
    ctx.notes.append("PURITY clause tested by every stream (a consequence of the statement: the result depends only on the operands' SI "
                     "values and dimensions): an operator must not modify its operands or earlier results, its result is a new object "
                     "sharing no Units / array with an operand, and equal inputs give equal outputs whatever happened before in the "
                     "process. Checked after EVERY operation of every tree (operand snapshots, bit-exact), in the sequence stream (a pool "
                     "of live re-used operands, results compared with exact SI arithmetic on the operands' creation data) and in the "
                     "collision stream (unit systems whose concatenated labels coincide, same other system and dimension vector, one "
                     "after the other). The streams are oracle only: the Lean model is pure by construction (no state to compare).")
    ctx.notes.append("comparison of a quantity with a plain number (int of any size, Fraction, float, bool, numpy.float64): the number takes "
                     "the quantity's units, so the SI comparison is the exact comparison of the number with the stored magnitude and needs no "
                     "float operation; the oracle therefore applies NO closeness allowance to it (ties and sub-ulp differences are judged "
                     "exactly; cmp_si covers every rational number operand). numpy integer scalars are not generated (numpy itself rounds "
                     "them to double when compared with a float).")
    # 0. streams in one process: label collisions, sequences over re-used operands
    process(ctx, E, collision_cases(rng, ctx.n(12, 10 ** 6), ctx.n(2, 4)), "collision_blocks")
    process(ctx, E, seq_cases(rng, ctx.n(400, 8000)), "sequences")
    # 1. exhaustive table
    process(ctx, E, table_cases(rng, E), "table_cases")
    # 1a. % with large non-integer quotients
    process(ctx, E, bigmod_cases(rng, ctx.n(12, 150)), "bigmod_cases")
    # 1a'. ** with exponents within 1e-10 … 2e-12 of one giving integer dimensions (must raise)
    process(ctx, E, nearpow_cases(rng, ctx.n(6, 80)), "nearpow_cases")
    # 1a''. quantity vs plain number that is not a double (ints > 2**53, Fractions) within one ulp of the stored magnitude / beyond the double range
    process(ctx, E, exactnum_cases(rng, ctx.n(4, 60)), "exactnum_cases")
    # 1b. operands built from ndarrays of dtype float32 / int32 / int64 / uint8
    process(ctx, E, dtype_cases(rng, ctx.n(2, 20)), "dtype_cases")
    # 2. random trees
    n = ctx.n(3000, 60000)
    g = Gen(rng, E, 3 if ctx.tier == "quick" else 4)
    done = 0
    while done < n and ctx.time_left() > (15 if ctx.tier == "quick" else 120):
        m = min(1500, n - done)
        process(ctx, E, [g.case() for _ in range(m)], "random_trees")
        done += m
    amb = sum(v for k, v in ctx.stats.items() if k.startswith("oracle_skip_"))
    tot = max(1, ctx.stats.get("oracle_nodes", 1))
    ctx.extra["oracle_skipped_fraction"] = round(amb / tot, 5)
    mskip = sum(v for k, v in ctx.stats.items() if k.startswith("model_skip_"))
    ctx.extra["model_skipped_fraction"] = round(mskip / max(1, ctx.evaluations), 5)


def search(ctx):
    """called when an obligation broke and no input failed yet: the special streams at thorough size (a change in the comparison /
    operator methods shows on operands the quick sizes may not have drawn)"""
    E = Env()
    rng = ctx.rng
    for gen, size, label in ((exactnum_cases, 40, "exactnum_cases"), (bigmod_cases, 60, "bigmod_cases"), (nearpow_cases, 40, "nearpow_cases"),
                             (dtype_cases, 8, "dtype_cases")):
        if ctx.violations or ctx.time_left() < 5:
            break
        process(ctx, E, gen(rng, size), label)


def replay(ctx, rec):
    """re-run one recorded case on the real code and re-evaluate the oracle at every node"""
    E = Env()
    case = rec.get("case", rec)
    if "case" in case:
        case = case["case"]
    got = run_case(E, case)
    out = {"case": case, "impl": got,
           "oracle_failures": [{"key": k, "what": w, "node": p, "impl": i, "expected": e} for k, w, p, i, e in E.findings],
           "oracle_skips": E.skips}
    return (not E.findings), out
