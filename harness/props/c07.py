"""C07 — Stochastic engines take only legal steps, at the rates of the master equation.

Theorems: lean/Strengths/Props/C07.lean.
Correspondence (draw replay, DESIGN §5.3): the real engine is run with `sampling_policy='on_iteration'` on the
draw-logging build; every recorded step is replayed on the model from the recorded state with the engine's own
draws: Gillespie — chosen event (exact next state), `dt·a0` vs `ln(1/u2)`; tau-leap — every logged Poisson mean
vs `propensity·dt` in call order, next state for the logged counts (exact).
Oracle (independent of the model: own CME propensities and Bernstein diffusion constants, `stoch_gen.Rates`):
Gillespie — consecutive samples differ by the (chemostat-masked) effect of exactly one channel with positive
propensity in the state before, states are non-negative integers, time strictly increases,
`(t' − t)·a0 = ln(1/u2)`; tau-leap — the logged Poisson means are exactly the positive `propensity·dt`, one per
channel, and the state changes by `Σ count·effect`.  A Gillespie run that the ENGINE declares complete before `t_max`
must end in a state in which no event is possible (a0 = 0 by the oracle's own rate law): an infinite waiting time is
the master equation's only when every propensity is zero.
Magnitudes: a stream of scripts holds 2^24 .. 2^40 molecules (odd values around 2^31 and 2^32) of one species in some
cells — as a reactant with a constant scaled so that a0 stays O(1..100), or as a bystander next to ordinary low-copy
reactions — on grid and graph, both engines.
"""
import math
from fractions import Fraction

import common
from common import frac, rstr, rparse, close
import stoch_gen


def _fl(q):
    """float of a rational that never raises (overflow -> inf)"""
    try:
        return float(q)
    except OverflowError:
        return float("inf") if q > 0 else float("-inf")


_f = common.fstr
import engine_io

ID = "C07"
LEAN_TARGETS = ["Strengths.Props.C07"]
PROP_FILES = ["Strengths/Props/C07.lean"]
GEN_GROUPS = ["Stoch", "EngineCpp"]
RULE = ("random networks (1..4 species, 0..3 reversible reactions, orders 0..3 with repeated reactants, per-environment "
        "constants with zeros, chemostats) x grids (all 8 boundary settings, periodic axes of length 1 and 2) / graphs "
        "(heterogeneous volumes, parallel edges, isolated nodes) x seeds; every step of every trajectory is one "
        "evaluation; non-trivial = the step changed the state; distinct by (script, step index); plus scripts in which one "
        "species (reactant of order 1..2 with constants ~2^-31, or a bystander) holds 2^24..2^40 molecules in some cells "
        "(values around 2^31 / 2^32, odd), and the engine's own end of a Gillespie run judged by a0 = 0")
ASSUMPTIONS = [
    "uniform draws are in [0,1), Poisson draws are non-negative integers (contracts of the std primitives); their "
    "distributions and mt19937 are trusted — no statistical test is run",
    "molecule counts stay below 2^53 (exact in a double)",
    "event selections closer than 1e-9·a0 to a boundary of the cumulative propensities are counted as ambiguous and not "
    "compared with the exact model (float accumulation order)",
]
TRUSTED = ["harness/shim (draw logging of the rebuilt engine; bit-identical trajectories to the plain build)",
           "LibRDEngine marshalling (build_*_matrix of the repository; their models are C01/C19's)"]
TOL = 1e-9


def gen_case(ctx, k):
    rng = ctx.rng
    option = "gillespie" if k % 2 == 0 else "tauleap"
    nenv = rng.choice([1, 2, 2, 3])
    kind = "grid" if (k // 2) % 2 == 0 else "graph"
    cls = k % 12
    if cls in (1, 7):
        kind, option = "graph", "tauleap"
    elif cls in (2, 8):
        kind = "grid"
    elif cls in (3, 10):
        kind, option = "grid", "gillespie"
    elif cls == 4:
        kind, option = "grid", "tauleap"
    elif cls in (5, 11):
        kind = "graph"
    space, info = stoch_gen.rand_space(rng, kind=kind, nenv=nenv, max_cells=6)
    net = stoch_gen.rand_network(rng, nenv=nenv, max_order=3)
    n = info["n"]
    ns = len(net["species"])
    # integer initial state (so that redistribution is the identity up to totals); some zeros
    state = [float(rng.choice([0, 0, 1, 2, 3, 5, 8, 13])) for _ in range(ns * n)]
    case = {"net": net, "space": space, "kind": kind, "option": option, "seed": rng.randint(0, 2 ** 31 - 1),
            "dt": 1 / 2048, "tmax": 1e9, "state": state,
            "max_iter": ctx.n(120, 2500) if option == "gillespie" else ctx.n(12, 120),
            "edge": info["edge"] if kind == "grid" else list(info["edge"])}
    if cls in (1, 7) and kind == "graph" and option == "tauleap":
        # low copy numbers, diffusion dominated, many steps: nodes run empty and fill again
        case["net"] = stoch_gen.rand_network(rng, nenv=nenv, max_order=1, nr=rng.choice([0, 0, 1]), chem_p=0.0)
        for sp in case["net"]["species"]:
            sp["D"] = float(rng.choice([1, 2, 4]))
        ns = len(case["net"]["species"])
        case["state"] = [float(rng.choice([0, 0, 1, 1, 2, 3])) for _ in range(ns * n)]
        case["dt"] = 1 / 128
        case["max_iter"] = ctx.n(60, 400)
        case["cls"] = "lowcopy-graph-tauleap"
    elif cls in (2, 8) and kind == "grid":
        # boundary conditions that differ between the axes, with at least 3 layers along one of them
        dims = [1, rng.choice([1, 2]), rng.choice([3, 4])]
        rng.shuffle(dims)
        if dims[0] * dims[1] * dims[2] > 8:
            dims = [1, 1, 3]
        w, h, d = dims
        bc = {"x": rng.choice(["reflecting", "periodical"]), "y": rng.choice(["reflecting", "periodical"])}
        bc["z"] = "reflecting" if bc["y"] == "periodical" else "periodical"
        sp = dict(space)
        sp.update({"w": w, "h": h, "d": d, "cell_env": [rng.randrange(nenv) for _ in range(w * h * d)], "boundary_conditions": bc})
        case["space"] = sp
        case["state"] = [float(rng.choice([0, 1, 2, 3, 5])) for _ in range(ns * w * h * d)]
        case["cls"] = "grid-mixed-boundaries"
    if cls == 4:
        # tau-leap on a grid, a chemostat flag that is an int other than 1 (documented: any int / bool) on a reacting species
        labs_ = LAB(case)
        nsp = len(labs_)
        nn = len(case["state"]) // nsp
        s = rng.randrange(nsp)
        other = labs_[(s + 1) % nsp] if nsp > 1 else ""
        case["net"]["reactions"] = [{"eq": "%s -> %s" % (labs_[s], other), "k+": 1.0, "k-": 0.5 if other else 0}]
        case["state"] = [float(rng.choice([3, 5, 8])) for _ in range(nsp * nn)]
        flag = rng.choice([2, 5, 5, 7])
        cells = [i for i in range(nn) if rng.random() < 0.6] or [0]
        if rng.random() < 0.5:
            chem = [0] * (nsp * nn)
            for i in cells:
                chem[s * nn + i] = flag
            case["chem"] = chem
        else:
            case["set_chem"] = [[labs_[s], i, flag] for i in cells]
        case["dt"] = 1 / 32
        case["max_iter"] = ctx.n(16, 100)
        case["cls"] = "tauleap-grid-flag-not-1"
    if cls in (5, 11):
        # graph space, script quantity unit other than molecule, reaction directions of order 0, 2 and 3
        labs_ = LAB(case)
        a = labs_[0]
        b = labs_[-1]
        case["net"]["reactions"] = [{"eq": "2 %s -> %s" % (a, b), "k+": 0.5, "k-": 0.25},
                                    {"eq": " -> %s" % a, "k+": 1.0, "k-": 0.0 if rng.random() < 0.5 else 0.125}][:rng.randint(1, 2)]
        case["units"] = {"time": rng.choice(["s", "ms", "min"]), "quantity": rng.choice(["nmol", "mol", "fmol"])}
        case["cls"] = "graph-nonmolecule-units-order-0-2"
    elif rng.random() < 0.45 and cls != 4:
        # script units system other than the default: the engine works in the script's time unit (and in molecules)
        case["units"] = {"time": rng.choice(["ms", "min", "s"]), "quantity": rng.choice(["molecule", "molecule", "nmol", "fmol"])}
    if cls in (3, 10) and case["kind"] == "grid" and option == "gillespie":
        # process history: an earlier run in the same process on a grid of the SAME shape with the OPPOSITE boundary conditions
        dims = [1, rng.choice([1, 2]), rng.choice([3, 4])]
        rng.shuffle(dims)
        w, h, d = dims
        first_periodic = rng.random() < 0.5
        bc1 = {ax: ("periodical" if first_periodic else "reflecting") for ax in "xyz"}
        bc2 = {ax: ("reflecting" if first_periodic else "periodical") for ax in "xyz"}
        sp = dict(space)
        sp.update({"w": w, "h": h, "d": d, "cell_env": [rng.randrange(nenv) for _ in range(w * h * d)], "boundary_conditions": bc2})
        sp1 = dict(sp)
        sp1["boundary_conditions"] = bc1
        for s_ in case["net"]["species"]:
            s_["D"] = float(rng.choice([1, 2]))
        nsp = len(case["net"]["species"])
        case["space"] = sp
        case["state"] = [float(rng.choice([1, 2, 3, 5])) for _ in range(nsp * w * h * d)]
        case["before"] = [{"net": case["net"], "space": sp1, "state": case["state"], "seed": 3, "iterations": 3}]
        case["same_object"] = rng.random() < 0.5
        case["cls"] = "history-same-shape-other-boundaries"
        case.pop("chem", None)
    if rng.random() < 0.4 and not case.get("before") and cls != 4:
        # explicit chemostat map: a species chemostated in some cells only (the flag masks the change, not the propensity)
        nn = len(case["state"]) // len(case["net"]["species"])
        nsp = len(case["net"]["species"])
        chem = [0] * (nsp * nn)
        s = rng.randrange(nsp)
        flag = rng.choice([1, 1, 2, 5, True])       # the flag is a truth value: 5 or 2 protect an entry like 1 does
        for i in range(nn):
            chem[s * nn + i] = (flag if rng.random() < 0.5 else 0)
        if rng.random() < 0.5:
            case["chem"] = [int(v) for v in chem]
        else:
            labs_ = [sp_["label"] for sp_ in case["net"]["species"]]
            case["set_chem"] = [[labs_[s], i, flag if flag is not True else True] for i in range(nn) if chem[s * nn + i]]
        case["net"]["species"][s]["D"] = float(rng.choice([1, 2]))
        # make sure the flagged species takes part in a reaction
        labs2 = [sp_["label"] for sp_ in case["net"]["species"]]
        if len(labs2) >= 2 and rng.random() < 0.7:
            other = labs2[(s + 1) % len(labs2)]
            case["net"]["reactions"] = list(case["net"]["reactions"])[:2] + [
                {"eq": "%s -> %s" % (labs2[s], other), "k+": 1.0, "k-": 0.5}]
    return case


BIG_COUNTS = [2 ** 31, 2 ** 31 + 1, 2 ** 31 - 1, 2 ** 31 + 12345, 3 * 10 ** 9 + 7, 2 ** 32 - 1, 2 ** 32 + 3, 2 ** 33 + 5,
              2 ** 36 + 7, 2 ** 40 + 1, 2 ** 24 + 1, 2 ** 31 + 2 ** 24 + 1]


def gen_big(ctx, j):
    """magnitudes: one species holds 2^24 .. 2^40 molecules (around 2^31 / 2^32, odd) in some cells.  Either it reacts
    (order 1 or 2, constants scaled by 2^-31 / 2^-62 so that the total propensity stays moderate and time keeps
    increasing in double precision) or it is a bystander of ordinary low-copy reactions of the other species in the same
    cells.  Both engines, grid and graph, chemostated big entries, non-default time units."""
    rng = ctx.rng
    option = "gillespie" if j % 2 == 0 else "tauleap"
    kind = "graph" if (j // 2) % 2 == 0 else "grid"
    nenv = rng.choice([1, 1, 2])
    space, info = stoch_gen.rand_space(rng, kind=kind, nenv=nenv, max_cells=4)
    n = info["n"]
    ns = rng.randint(2, 3)
    net = stoch_gen.rand_network(rng, ns=ns, nr=0, nenv=nenv, chem_p=0.0)
    labs = [sp_["label"] for sp_ in net["species"]]
    b = rng.randrange(ns)
    big, small_labs = labs[b], [l for l in labs if l != labs[b]]
    tiny = 2.0 ** -31
    net["species"][b]["D"] = rng.choice([0.0, tiny, tiny / 2, tiny * 2])
    for sp_ in net["species"]:
        if sp_["label"] != big and rng.random() < 0.5:
            sp_["D"] = float(rng.choice([0.25, 0.5, 1]))
    bystander = rng.random() < 0.35
    reactions = []
    s0 = rng.choice(small_labs)
    if not bystander:
        reactions.append({"eq": "%s -> %s" % (big, s0), "k+": tiny * rng.choice([1, 2, 4]), "k-": float(rng.choice([0, 0.5, 1]))})
        if rng.random() < 0.35:
            reactions.append({"eq": "%s + %s -> %s" % (big, s0, rng.choice(["", "2 " + s0, rng.choice(small_labs)])),
                              "k+": tiny * rng.choice([0.5, 1]), "k-": 0})
        if rng.random() < 0.3:
            reactions.append({"eq": "2 %s -> %s" % (big, s0), "k+": tiny * tiny * rng.choice([0.5, 1, 2]), "k-": 0})
    if bystander or rng.random() < 0.6:
        for _try in range(20):
            lhs, rhs = stoch_gen.rand_side(rng, small_labs, 3), stoch_gen.rand_side(rng, small_labs, 2)
            if sorted(lhs) != sorted(rhs):
                reactions.append({"eq": "%s -> %s" % (stoch_gen.side_text(lhs, rng), stoch_gen.side_text(rhs, rng)),
                                  "k+": float(rng.choice([0.25, 0.5, 1, 2])), "k-": float(rng.choice([0, 0, 0.5]))})
                break
    if bystander and not reactions:
        reactions.append({"eq": "%s -> " % s0, "k+": 1.0, "k-": 0.5})
    net["reactions"] = reactions
    state = [float(rng.choice([0, 1, 2, 3, 5, 8])) for _ in range(ns * n)]
    cells = [i for i in range(n) if rng.random() < 0.6] or [rng.randrange(n)]
    for i in cells:
        state[b * n + i] = float(rng.choice(BIG_COUNTS))
    if bystander:
        for l in small_labs:                       # something to react with in the cells that hold the big population
            for i in cells:
                state[labs.index(l) * n + i] = float(rng.choice([3, 5, 8]))
    case = {"net": net, "space": space, "kind": kind, "option": option, "seed": rng.randint(0, 2 ** 31 - 1),
            "dt": 1 / 2048, "tmax": 1e9, "state": state,
            "mode": "none",         # the state is integer; re-drawing 2^31.. molecules one by one costs ~10^5..10^6 draws
            "max_iter": ctx.n(60, 800) if option == "gillespie" else ctx.n(4, 4),
            "edge": info["edge"] if kind == "grid" else list(info["edge"]),
            "cls": "counts-2^24..2^40" + ("-bystander" if bystander else "-reactant")}
    if rng.random() < 0.3:
        chem = [0] * (ns * n)
        for i in cells:
            if rng.random() < 0.6:
                chem[b * n + i] = 1
        case["chem"] = chem
    if rng.random() < 0.35:
        case["units"] = {"time": rng.choice(["ms", "min", "s"]), "quantity": "molecule"}
    return case


def LAB(case):
    return [sp_["label"] for sp_ in case["net"]["species"]]


def small(case):
    return {k: case[k] for k in ("net", "space", "kind", "option", "seed", "dt", "tmax", "state", "max_iter", "edge", "chem", "set_chem", "units", "before", "same_object", "mode") if k in case}


def own_rates(case, arr):
    """the oracle's rate law: constants and diffusion coefficients read from the network DESCRIPTION (own reading of the
    environment keys, own unit conversion), geometry / stoichiometry from the marshalled arrays"""
    k, D = stoch_gen.expected_tables(case["net"], case.get("units"))
    edge = case["edge"]
    if case["kind"] == "grid" and (case["space"]["w"], case["space"]["h"], case["space"]["d"]) != \
            (arr["space"]["w"], arr["space"]["h"], arr["space"]["d"]):
        edge = None
    sub, sto, nr = stoch_gen.own_stoichiometry(case["net"])
    return stoch_gen.Rates(dict(arr, k=k, D=D, sub=sub, sto=sto, nr=nr), edge=edge)


def apply_effect(x, eff, n, mult=1):
    y = list(x)
    for (s, i), dv in eff.items():
        y[s * n + i] += dv * mult
    return y


def check_gillespie(ctx, case, res, rates, stats):
    n = rates.n
    xs = [[frac(v) for v in row] for row in res["x"]]
    ts = res["t"]
    draws = res["draws"]
    nsteps = len(xs) - 1
    if len(draws) != 2 * nsteps or any(d[0] != "unif" for d in draws):
        ctx.violation("gillespie-draws", "a Gillespie step did not consume exactly two uniform draws",
                      small(case), impl={"steps": nsteps, "draws": len(draws)})
        return None
    a0s = []
    for k in range(nsteps):
        x, y = xs[k], xs[k + 1]
        ch = rates.channels(x)
        a0 = sum(c[0] for c in ch)
        a0s.append(a0)
        stats["steps"] += 1
        step = {"step": k, "x": [_f(v) for v in x], "x_next": [_f(v) for v in y], "t": ts[k], "t_next": ts[k + 1]}
        cse = dict(small(case), **step)
        if any(v < 0 or v.denominator != 1 for v in y):
            ctx.violation("gillespie-state-not-nonneg-int", "state after a Gillespie step is not a non-negative integer state", cse)
            return None
        if not ts[k + 1] > ts[k]:
            ctx.violation("gillespie-time-not-increasing", "time did not strictly increase in a Gillespie step", cse)
            return None
        if a0 <= 0:
            ctx.violation("gillespie-step-without-event", "a step was taken from a state in which no event is possible (a0 = 0)", cse)
            return None
        legal = [c for c in ch if apply_effect(x, c[1], n) == y]
        if not legal:
            ctx.violation("gillespie-illegal-step", "consecutive samples do not differ by one channel that is possible in the state before "
                          "(positive constant, enough reactants / non-zero interface diffusivity)", cse,
                          impl={"diff": {str(p): _f(y[p] - x[p]) for p in range(len(x)) if y[p] != x[p]}},
                          expected={"possible_events": [list(map(str, c[2])) for c in ch][:12]})
            return None
        if y != x:
            stats["changed"] += 1
        # event choice: r = u1 * a0 falls into the cumulative interval of the chosen channel (channels in the engine's
        # documented scan order: cell by cell, reactions first, then species x slots; zero-propensity channels have empty intervals)
        u1 = frac(draws[2 * k][3])
        r = u1 * a0
        cum = Fraction(0)
        hit, margin = None, None
        for c in ch:
            lo, cum = cum, cum + c[0]
            if hit is None and r < cum:
                hit = c
                margin = min(r - lo, cum - r)
        if hit is not None and margin > Fraction(1, 10 ** 9) * a0:
            if apply_effect(x, hit[1], n) != y:
                ctx.violation("gillespie-selection", "the applied event is not the channel whose cumulative propensity interval contains u*a0",
                              cse, impl={"diff": {str(p): _f(y[p] - x[p]) for p in range(len(x)) if y[p] != x[p]}},
                              expected={"u": _f(u1), "a0": _f(a0), "channel": list(map(str, hit[2]))})
                return None
        else:
            ctx.count("selection_ambiguous_or_edge")
        kinds = {c[2][0] for c in legal}
        for kd in kinds:
            ctx.count("event_" + kd)
        # waiting time: (t' - t) * a0 = ln(1/u2)
        u2 = draws[2 * k + 1][3]
        L = math.log(1 / u2) if u2 > 0 else float("inf")
        dt = ts[k + 1] - ts[k]
        lhs = dt * _fl(a0)
        if not (abs(lhs - L) <= TOL * max(L, 1e-300) + _fl(a0) * 8e-16 * abs(ts[k + 1])):
            ctx.violation("gillespie-waiting-time", "waiting time x total propensity of the master equation differs from ln(1/u)", cse,
                          impl={"dt": dt, "dt*a0": lhs}, expected={"ln(1/u)": L, "a0": _f(a0)})
            return None
    return a0s


def check_stop(ctx, case, res, rates):
    """the engine's own end of a Gillespie run: declared complete before t_max only if no event is possible any more"""
    if case["option"] != "gillespie" or not res.get("complete") or not res["x"] or not res["t"]:
        return True
    if res.get("iterations", 0) >= case["max_iter"]:
        return True                                # stopped by the harness
    if not (res["t"][-1] < case["tmax"]):
        return True
    x = [frac(v) for v in res["x"][-1]]
    ch = rates.channels(x)
    a0 = sum(c[0] for c in ch)
    ctx.count("gillespie_runs_ended_by_engine")
    if a0 > 0:
        ctx.violation("gillespie-stopped-with-possible-events",
                      "the Gillespie engine declared the run complete before t_max in a state whose total master-equation "
                      "propensity is positive (the waiting time to the next event is exponential with rate a0, not infinite)",
                      dict(small(case), step=len(res["x"]) - 1, x=[_f(v) for v in x], t=res["t"][-1]),
                      impl={"steps_taken": len(res["x"]) - 1, "complete": True},
                      expected={"a0": _f(a0), "possible_events": [list(map(str, c[2])) for c in ch][:12]})
        return False
    return True


def check_tauleap(ctx, case, res, rates, stats):
    n = rates.n
    xs = [[frac(v) for v in row] for row in res["x"]]
    draws = res["draws"]
    dt = frac(case["dt"])
    pos = 0
    for k in range(len(xs) - 1):
        x, y = xs[k], xs[k + 1]
        ch = rates.channels(x)
        stats["steps"] += 1
        mine = draws[pos:pos + len(ch)]
        cse = dict(small(case), step=k, x=[_f(v) for v in x], x_next=[_f(v) for v in y])
        if len(mine) < len(ch) or any(d[0] != "pois" for d in mine):
            ctx.violation("tauleap-draw-count", "a tau-leap step did not draw one Poisson count per channel with positive propensity", cse,
                          impl={"draws": len(draws) - pos}, expected={"channels": len(ch)})
            return False
        for d, c in zip(mine, ch):
            if not close(d[1], c[0] * dt, rel=TOL):
                ctx.violation("tauleap-mean", "a Poisson mean differs from propensity x time step", cse,
                              impl={"mean": d[1]}, expected={"propensity*dt": _f(c[0] * dt), "channel": list(map(str, c[2]))})
                return False
        z = list(x)
        for d, c in zip(mine, ch):
            cnt = int(d[3])
            if cnt:
                z = apply_effect(z, c[1], n, cnt)
                ctx.count("tau_event_" + c[2][0], cnt)
        if z != y:
            ctx.violation("tauleap-apply", "state after a tau-leap step is not the state before plus count x effect of every channel", cse,
                          impl={"x_next": [_f(v) for v in y]}, expected={"x_next": [_f(v) for v in z]})
            return False
        if y != x:
            stats["changed"] += 1
        pos += len(ch)
    if pos != len(draws):
        ctx.violation("tauleap-extra-draws", "tau-leap drew more Poisson counts than there are channels with positive propensity",
                      small(case), impl={"draws": len(draws)}, expected={"channels_total": pos})
        return False
    return True


def run(ctx):
    nscripts = ctx.n(48, 420)
    cases = [gen_case(ctx, k) for k in range(nscripts)]
    cases += [gen_big(ctx, j) for j in range(ctx.n(16, 120))]
    total_model_steps = ctx.n(4000, 90000)
    per_script = max(10, total_model_steps // nscripts)
    stats = {"steps": 0, "changed": 0}
    chunk = 40
    for c0 in range(0, len(cases), chunk):
        if ctx.time_left() < 12:
            ctx.notes.append("time budget reached after %d of %d scripts" % (c0, len(cases)))
            break
        part = cases[c0:c0 + chunk]
        results = stoch_gen.run_batch("stoch_gen", "child_run_seq", part, kind="shim", timeout=ctx.n(20, 120))
        ops, meta = [], []
        for ci, (case, res) in enumerate(zip(part, results)):
            if res is None:
                continue
            sid = c0 + ci
            if res.get("hang"):
                # non-termination is C10's property; here the run is only counted (nothing to check step by step)
                ctx.count("engine_hang_skipped")
                ctx.notes.append("a run did not finish within the time-out and was skipped (%s)" % case["option"])
                continue
            if "crash" in res or "exception" in res:
                ctx.violation("engine-failure:" + case["option"], "the engine crashed / raised on a valid script: %s" %
                              (res.get("exception") or res.get("crash")), small(case))
                continue
            arr = res["arr"]
            rates = own_rates(case, arr)
            eng = engine_io.eng_json(arr, edge=case["edge"])
            if case.get("units"):
                ctx.count("units_time_" + case["units"]["time"])
                ctx.count("units_quantity_" + case["units"]["quantity"])
            if any(isinstance(v, dict) and any("," in kk for kk in v) for r_ in case["net"]["reactions"] for v in (r_.get("k+"), r_.get("k-"))) or \
                    any(isinstance(sp_.get("D"), dict) and any("," in kk for kk in sp_["D"]) for sp_ in case["net"]["species"]):
                ctx.count("scripts_with_multi_environment_keys")
            ctx.count("scripts_" + case["option"])
            ctx.count("space_" + case["kind"])
            if case.get("cls"):
                ctx.count("class_" + case["cls"])
            if (case.get("chem") and 0 < sum(1 for v in case["chem"] if v) < len(case["chem"])) or case.get("set_chem"):
                ctx.count("scripts_with_partial_chemostat_map")
            if any(v not in (0, 1) for v in arr["chem"]):
                ctx.count("scripts_with_flag_values_other_than_1")
            ctx.count("orders_" + "".join(str(o) for o in sorted(set(rates.order))))
            if any(arr["chem"]):
                ctx.count("scripts_with_chemostats")
            if case["kind"] == "grid":
                sp = arr["space"]
                for ax, sz in (("px", "w"), ("py", "h"), ("pz", "d")):
                    if sp[ax] and sp[sz] <= 2:
                        ctx.count("periodic_axis_len_%d" % sp[sz])
            nsteps = len(res["x"]) - 1
            before = stats["steps"]
            if res["x"] and max(res["x"][0]) >= 2 ** 31:
                ctx.count("scripts_with_counts_at_least_2^31")
            if case["option"] == "gillespie":
                a0s = check_gillespie(ctx, case, res, rates, stats)
                if a0s is None:
                    continue
                if not check_stop(ctx, case, res, rates):
                    continue
                steps = list(range(nsteps))
                if nsteps > per_script:
                    steps = sorted(set(list(range(per_script // 2)) + ctx.rng.sample(range(nsteps), per_script // 2)))
                for k in steps:
                    u1, u2 = res["draws"][2 * k][3], res["draws"][2 * k + 1][3]
                    if u2 <= 0:
                        continue
                    ops.append({"op": "gillespie_step_m", "eng": eng, "x": [rstr(v) for v in res["x"][k]], "u1": rstr(u1),
                                "L": rstr(math.log(1 / u2))})
                    meta.append((sid, "g", k, a0s[k]))
                if res.get("complete") and res.get("iterations", 0) < case["max_iter"] and res["t"] and res["t"][-1] < case["tmax"]:
                    # the engine ended the run itself: the model (theorem stops_iff_no_event) stops exactly when a0 = 0
                    ops.append({"op": "gillespie_step_m", "eng": eng, "x": [rstr(v) for v in res["x"][-1]], "u1": "1/2", "L": "1"})
                    meta.append((sid, "e", nsteps, None))
            else:
                ok = check_tauleap(ctx, case, res, rates, stats)
                if not ok:
                    continue
                pos = 0
                xs = [[frac(v) for v in row] for row in res["x"]]
                for k in range(nsteps):
                    nch = len(rates.channels(xs[k]))
                    dd = res["draws"][pos:pos + nch]
                    pos += nch
                    if k < per_script:
                        ops.append({"op": "tauleap_full", "eng": eng, "x": [rstr(v) for v in res["x"][k]], "dt": rstr(case["dt"]),
                                    "draws": [int(d[3]) for d in dd]})
                        meta.append((sid, "t", k, [d[1] for d in dd]))
            for k in range(before, stats["steps"]):
                ctx.case((sid, k - before), nontrivial=True)
            if len(ctx.samples) < 4 and nsteps:
                ctx.samples.append({"op": case["option"], "net": case["net"]["reactions"], "space": case["kind"], "steps": nsteps,
                                    "x0": res["x"][0], "x1": res["x"][1]})
        answers = ctx.model.run(ops, timeout=600)
        for (sid, kindc, k, extra), op, ans in zip(meta, ops, answers):
            if ans is None:
                continue
            case, res = cases[sid], results[sid - c0]
            cse = dict(small(case), step=k)
            o = ans.get("ok")
            if o is None:
                ctx.disagree("gillespie_step" if kindc in ("g", "e") else "tauleap_step", cse, "engine stepped", ans)
                continue
            if kindc == "e":
                if not o.get("complete"):
                    ctx.disagree("gillespie_step", cse, "engine declared the run complete before t_max", {"a0": o.get("a0")},
                                 note="the model still has a possible event in the final state")
                else:
                    ctx.count("model_run_ends_confirmed")
                continue
            nxt = [frac(v) for v in res["x"][k + 1]]
            if kindc == "g":
                if o.get("complete"):
                    ctx.disagree("gillespie_step", cse, "engine stepped", "model: a0 = 0")
                    continue
                if not close(_fl(rparse(o["a0"])), extra, rel=1e-9):
                    ctx.disagree("gillespie_step", cse, {"oracle_a0": _f(extra)}, {"a0": o["a0"]}, note="model a0 differs from the oracle's CME sum")
                    continue
                if rparse(o["margin"]) < Fraction(1, 10 ** 9):
                    ctx.count("ambiguous_selection")
                    continue
                if [rparse(v) for v in o["x"]] != nxt:
                    ctx.disagree("gillespie_step", cse, {"x_next": res["x"][k + 1]}, {"x_next": o["x"], "event": o["event"]},
                                 note="selected event differs")
                    continue
                dt = res["t"][k + 1] - res["t"][k]
                if not (abs(dt - _fl(rparse(o["dt"]))) <= TOL * dt + 8e-16 * abs(res["t"][k + 1])):
                    ctx.disagree("gillespie_step", cse, {"dt": dt}, {"dt": o["dt"]}, note="waiting time differs")
                ctx.count("model_steps_gillespie")
            else:
                means = [rparse(m) for m in o["means"]]
                posm = [m for m in means if m > 0]
                if len(posm) != len(extra) or not all(close(a, m, rel=TOL) for a, m in zip(extra, posm)):
                    ctx.disagree("tauleap_step", cse, {"means": extra}, {"means": [_f(m) for m in posm]}, note="Poisson means differ")
                    continue
                if o["x"] is None or [rparse(v) for v in o["x"]] != nxt:
                    ctx.disagree("tauleap_step", cse, {"x_next": res["x"][k + 1]}, {"x_next": o["x"]}, note="next state differs")
                    continue
                ctx.count("model_steps_tauleap")
    ctx.stats["steps_total"] = stats["steps"]
    ctx.stats["steps_changing_state"] = stats["changed"]
    ctx.notes.append("distributional claims are proved as 'the deterministic map from the primitive draws is the correct inverse CDF / "
                     "mean'; the distributions of the std primitives are trusted (C07 partial by design)")


def search(ctx):
    """failing-input search (an obligation broke, nothing failed yet): more scripts of the magnitude stream and of the
    ordinary generator, judged by the oracle only"""
    if ctx.extra.get("searched"):
        return
    ctx.extra["searched"] = True
    stats = {"steps": 0, "changed": 0}
    rounds = 0
    while ctx.time_left() > 20 and not ctx.violations and rounds < 6:
        rounds += 1
        part = [gen_big(ctx, j) for j in range(40)] + [gen_case(ctx, k) for k in range(24)]
        results = stoch_gen.run_batch("stoch_gen", "child_run_seq", part, kind="shim", timeout=ctx.n(20, 120))
        for case, res in zip(part, results):
            if res is None or res.get("hang"):
                continue
            if "crash" in res or "exception" in res:
                ctx.violation("engine-failure:" + case["option"], "the engine crashed / raised on a valid script: %s" %
                              (res.get("exception") or res.get("crash")), small(case))
                continue
            rates = own_rates(case, res["arr"])
            if case["option"] == "gillespie":
                if check_gillespie(ctx, case, res, rates, stats) is not None:
                    check_stop(ctx, case, res, rates)
            else:
                check_tauleap(ctx, case, res, rates, stats)
    ctx.notes.append("search(): %d extra rounds of 64 scripts (magnitude stream + ordinary generator), oracle only" % rounds)


def replay(ctx, rec):
    case = rec.get("case", rec)
    base = {k: case[k] for k in ("net", "space", "kind", "option", "seed", "dt", "tmax", "state", "max_iter", "edge", "chem", "set_chem", "units", "before", "same_object", "mode") if k in case}
    res = stoch_gen.run_batch("stoch_gen", "child_run_seq", [base], kind="shim", timeout=60)[0]
    if res is None or res.get("hang") or "crash" in res or "exception" in res:
        return False, {"case": base, "impl": res}

    class _C:
        def __init__(self):
            self.v = []
            self.rng = ctx.rng

        def violation(self, key, what, case, impl=None, expected=None):
            self.v.append({"key": key, "what": what, "step": case.get("step"), "impl": impl, "expected": expected})

        def count(self, *a, **k):
            pass
    c = _C()
    rates = own_rates(base, res["arr"])
    st = {"steps": 0, "changed": 0}
    if base["option"] == "gillespie":
        if check_gillespie(c, base, res, rates, st) is not None:
            check_stop(c, base, res, rates)
    else:
        check_tauleap(c, base, res, rates, st)
    return (not c.v), {"case": base, "steps": st["steps"], "failures": c.v}
