"""C02 — Every engine conserves every conservation law of the network.

Theorems: lean/Strengths/Props/C02.lean.
Oracle (independent of the model): a basis of the integer left null space of the stoichiometric matrix restricted
to species that are nowhere chemostated (exact fraction elimination, `stoch_gen.left_null_space`), plus the unit
vector of every non-chemostated species that takes part in no reaction; `total c x = Σ_cells c·x` on EVERY recorded
sample of real trajectories of the three engines: exactly constant for the stochastic engines, drift
`≤ 1e-9·Σ|c_s x|` per step for Euler.
Correspondence: the recorded steps are replayed on the model (`euler_step` with tolerance, `tauleap_full` /
`gillespie_step_m` exactly with the engine's own draws) and the model's `total` (`cons_totals`) is compared with
the oracle's.
"""
import math
from fractions import Fraction

import common
from common import frac, rstr, rparse, close
import stoch_gen


def _fl(q):
    """float of a rational that never raises (overflow -> inf)"""
    try:
        return float(q)
    except OverflowError:
        return float("inf") if q > 0 else float("-inf")


_f = common.fstr
import engine_io

ID = "C02"
LEAN_TARGETS = ["Strengths.Props.C02"]
PROP_FILES = ["Strengths/Props/C02.lean"]
GEN_GROUPS = ["Stoch", "EngineCpp"]
RULE = ("random networks (1..4 species, 0..3 reversible reactions, orders 0..3, per-environment constants and diffusion "
        "coefficients with zeros = walls, chemostats) x grids (periodic / reflecting) / graphs (heterogeneous volumes, parallel "
        "edges) x {euler, tauleap, gillespie} x seeds; one evaluation = one (sample, conservation vector) pair; "
        "plus a magnitude stream: 10^7..10^10 (odd) molecules per cell, stoichiometric changes 1..5, rate constants scaled to a target of "
        "10^3..1.9e9 firings of one reaction per cell and leap (every Poisson mean < 2^31), so that |sto| x firings passes 2^31 / 2^32; "
        "non-trivial = the vector has a non-zero total and the state changed; distinct by (script, engine, sample, vector)")
ASSUMPTIONS = [
    "Euler: float drift of a conserved total is bounded by 1e-9 x sum |c_s x| per step (the theorem is the exact identity over Q)",
    "trajectories whose Euler state overflows (inf/nan) are skipped and counted",
]
TRUSTED = ["harness/shim (draw logging of the rebuilt engine)", "LibRDEngine marshalling (build_*_matrix; C01/C19)"]


def parse_side(txt, labels):
    v = [0] * len(labels)
    for term in txt.split("+"):
        term = term.strip()
        if not term:
            continue
        parts = term.split()
        coef, lab = (int(parts[0]), parts[1]) if len(parts) == 2 else (1, parts[0])
        v[labels.index(lab)] += coef
    return v


def true_sto(net):
    """net stoichiometric matrix (species-major, forward and reverse direction of every reaction) read from the
    equation texts of the generated network — independent of the repository's parser and matrices"""
    labels = [s["label"] for s in net["species"]]
    cols = []
    for r in net["reactions"]:
        l, rr = r["eq"].split("->")
        a, b = parse_side(l, labels), parse_side(rr, labels)
        cols.append([y - x for x, y in zip(a, b)])
        cols.append([x - y for x, y in zip(a, b)])
    nr = len(cols)
    return [cols[r][s] for s in range(len(labels)) for r in range(nr)], nr


def conservation_vectors(arr, net=None):
    """integer vectors c with c . sto[:, r] = 0 for every r and c_s = 0 for every species chemostated anywhere"""
    ns, nr = arr["ns"], arr["nr"]
    n = len(arr["chem"]) // ns if ns else 0
    free = [s for s in range(ns) if not any(arr["chem"][s * n + i] for i in range(n))]
    if not free:
        return [], free
    sto = arr["sto"]
    if net is not None:
        sto, nr = true_sto(net)
    sub = [sto[s * nr + r] for s in free for r in range(nr)]
    basis = stoch_gen.left_null_space(sub, len(free), nr)
    out = []
    for b in basis:
        c = [0] * ns
        for v, s in zip(b, free):
            c[s] = v
        out.append(c)
    # sums of basis vectors are conservation laws too: add one combination to exercise non-basis vectors
    if len(out) >= 2:
        out.append([a + 2 * b for a, b in zip(out[0], out[1])])
    return out, free


def gen_case(ctx, k):
    rng = ctx.rng
    nenv = rng.choice([1, 2, 2, 3])
    kind = "grid" if k % 2 == 0 else "graph"
    space, info = stoch_gen.rand_space(rng, kind=kind, nenv=nenv, max_cells=6)
    # conservative networks are the interesting ones: prefer isomerisations / bindings, low chemostat rate
    chem_mid = k % 6 in (4, 5)
    net = stoch_gen.rand_network(rng, nenv=nenv, max_order=3, chem_p=0.1, ns=(3 if chem_mid else None),
                                 nr=rng.choice([0, 1, 1, 2, 2, 3]))
    if rng.random() < 0.7:
        # replace the reactions by mass-conserving ones (A -> B, A + B -> C, 2 A -> B ...) so that non-trivial laws exist
        labs = [s["label"] for s in net["species"]]
        reacs = []
        for _ in range(rng.randint(1, 2)):
            a, b = rng.choice(labs), rng.choice(labs)
            c = rng.choice(labs)
            eq = rng.choice(["%s -> %s" % (a, b), "%s + %s -> %s" % (a, b, c), "2 %s -> %s" % (a, b), "%s -> 2 %s" % (a, c)])
            l, r = eq.split(" -> ")
            if sorted(l.split(" + ")) == sorted(r.split(" + ")):
                continue
            reacs.append({"eq": eq, "k+": stoch_gen.env_value(rng, net["environments"], [Fraction(1, 4), Fraction(1, 2), 1]),
                          "k-": stoch_gen.env_value(rng, net["environments"], [Fraction(1, 4), Fraction(1, 8), 0])})
        net["reactions"] = reacs
    if kind == "graph" and k % 6 in (1, 3):
        # a hub: one node with MORE than six edges (star / wheel), heterogeneous volumes, diffusing species
        leaves = rng.randint(7, 9)
        hs = [rng.choice([Fraction(1), Fraction(1, 2), Fraction(2), Fraction(3, 2)]) for _ in range(leaves + 1)]
        nodes = [{"volume": float(hh ** 3), "environment": rng.randrange(nenv)} for hh in hs]
        edges = [{"nodes": [0, j] if rng.random() < 0.5 else [j, 0], "surface": float(Fraction(rng.randint(1, 8), 8)),
                  "distance": float(Fraction(rng.randint(1, 8), 4))} for j in range(1, leaves + 1)]
        if rng.random() < 0.5:
            edges += [{"nodes": [j, j % leaves + 1], "surface": 0.5, "distance": 1.0} for j in range(1, leaves + 1)]
        space = {"type": "graph", "nodes": nodes, "edges": edges}
        info = {"kind": "graph", "n": leaves + 1, "edge": hs, "nedges": len(edges)}
        for sp_ in net["species"]:
            sp_["D"] = float(rng.choice([0.25, 0.5, 1, 2]))
    if kind == "grid" and k % 6 in (0, 2):
        # a genuinely three-dimensional grid with at least one reflecting axis of length >= 2, diffusing species
        w, h, d = rng.choice([(1, 1, 3), (2, 1, 2), (1, 2, 2), (1, 1, 2), (2, 1, 3), (1, 2, 3)])
        bc = {"x": rng.choice(["reflecting", "periodical"]), "y": rng.choice(["reflecting", "periodical"]), "z": "reflecting"}
        space = dict(space)
        space.update({"w": w, "h": h, "d": d, "cell_env": [rng.randrange(nenv) for _ in range(w * h * d)], "boundary_conditions": bc})
        info = dict(info, n=w * h * d)
        for sp_ in net["species"]:
            sp_["D"] = float(rng.choice([0.25, 0.5, 1, 2]))
    n = info["n"]
    ns = len(net["species"])
    if ns >= 3 and (chem_mid or rng.random() < 0.2):
        # a chemostated species declared BEFORE the reacting ones
        for s in net["species"]:
            s.pop("chstt", None)
        q = rng.choice([0, 1, 1])
        net["species"][q]["chstt"] = True
        labs = [s["label"] for s in net["species"]]
        o1, o2 = [x for x in range(3) if x != q]
        net["reactions"] = [{"eq": "%s -> %s" % (labs[o1], labs[o2]), "k+": 1.0, "k-": 0.25},
                            {"eq": "%s + %s -> %s" % (labs[q], labs[o1], labs[o2]), "k+": 0.5, "k-": 0}][:rng.randint(1, 2)]
    state = [float(rng.choice([0, 1, 2, 3, 5, 8])) for _ in range(ns * n)]
    tau_dt = 1 / 2048
    if any(s.get("chstt") is True for s in net["species"][:2]) and ns >= 3 and len(net["reactions"]) <= 2 and \
            all(r["eq"].count("+") <= 1 and "2 " not in r["eq"] and "3 " not in r["eq"] for r in net["reactions"]):
        tau_dt = 1 / 32        # low-order network: a larger leap so that reactions actually fire in every cell
    return {"tau_dt": tau_dt, "net": net, "space": space, "kind": kind, "seed": rng.randint(0, 2 ** 31 - 1), "state": state, "tmax": 1e9,
            "edge": info["edge"] if kind == "grid" else list(info["edge"])}


# ---------------------------------------------------------------------------------------------
# magnitudes: populations above 2^24 / 2^31 / 2^32 and MANY firings per leap
# ---------------------------------------------------------------------------------------------
# Conservation is a statement about `x += sto * n`: with populations of 10^9..10^10 molecules per cell and a coarse
# leap, one reaction fires 10^8..2·10^9 times in one cell in one step, so `|sto| * n` (stoichiometric changes of 2, 3, 4
# on either side) passes 2^31 and 2^32 while each factor alone still fits a C int.  The amounts are odd, so that a
# rounding through a narrower type shows too.  Every Poisson mean is kept below 2^31 (the known defect of
# `std::poisson_distribution<int>` for larger means is not this property's subject): the generator scales the rate
# constants to a target number of firings per leap, and the child re-checks every mean before every leap.
BIG_AMOUNTS = [2 ** 24 + 1, 999999937, 1500000001, 2 ** 31 + 1, 3 * 10 ** 9 + 1, 2 ** 32 + 3, 2 ** 33 + 5, 10 ** 10 + 1]
POISSON_MEAN_CAP = 2.0e9      # < 2^31 = 2.147e9, 3000 standard deviations below it


def _comb(side, amounts):
    out = Fraction(1)
    for s, nu in enumerate(side):
        for q in range(nu):
            out *= (amounts[s] - q)
    return out


def gen_big(ctx, k):
    rng = ctx.rng
    kind = "grid" if k % 2 == 0 else "graph"
    nenv = rng.choice([1, 1, 2])
    space, info = stoch_gen.rand_space(rng, kind=kind, nenv=nenv, max_cells=3)
    n = info["n"]
    net = stoch_gen.rand_network(rng, nenv=nenv, ns=rng.choice([2, 2, 3]), nr=0, chem_p=0.0)
    for sp_ in net["species"]:
        # slow diffusion: D x / h^2 dt stays far below the Poisson cap also in the smallest cells, yet molecules move
        sp_["D"] = float(rng.choice([0, Fraction(1, 1024), Fraction(1, 256)]))
    labs = [s["label"] for s in net["species"]]
    ns = len(labs)
    vols = [Fraction(info["edge"]) ** 3] * n if kind == "grid" else [Fraction(h) ** 3 for h in info["edge"]]
    dt = float(rng.choice([Fraction(1, 2048), Fraction(1, 64), Fraction(1, 8), Fraction(1, 10)]))
    eqs = []
    for q in range(rng.choice([1, 1, 1, 2])):
        a = rng.choice(labs)
        others = [l for l in labs if l != a]
        b = rng.choice(others)
        c = rng.choice(labs)
        m = rng.choice([2, 3, 3, 4])
        eqs.append(rng.choice(["%s -> %d %s" % (a, m, b), "%s -> %d %s" % (a, m, b), "%d %s -> %s" % (min(m, 3), a, b),
                               "%s + %s -> %d %s" % (a, b, m, c) if c not in (a, b) else "%s -> %d %s + %s" % (a, m, b, b),
                               "%s -> %s" % (a, b) if rng.random() < 0.3 else "%s -> %d %s" % (a, m, b), "2 %s -> %d %s" % (a, m + 1, b)]))
    # amounts: one magnitude per species, odd, slightly different in every cell; the substrates of the first reaction are
    # mostly rich enough for ~10^9 firings per leap
    first_lhs = parse_side(eqs[0].split(" -> ")[0], labs)
    per_species = []
    for s_ in range(ns):
        pool = BIG_AMOUNTS
        if first_lhs[s_] and rng.random() < 0.75:
            pool = BIG_AMOUNTS[4:]
        elif rng.random() < 0.5:
            pool = BIG_AMOUNTS[2:]
        per_species.append(rng.choice(pool))
    state = [float(per_species[s] + 2 * rng.randint(0, 500)) for s in range(ns) for _ in range(n)]
    reacs = []
    for q, eq in enumerate(eqs):
        l, r = eq.split(" -> ")
        lhs, rhs = parse_side(l, labs), parse_side(r, labs)
        # target number of firings of the forward direction in the busiest cell during one leap
        if q == 0 and rng.random() < 0.7:
            target = math.exp(rng.uniform(math.log(2.0 ** 28), math.log(1.9e9)))
        else:
            target = math.exp(rng.uniform(math.log(1e3), math.log(2.0 ** 28)))

        def kfor(side, target):
            order = sum(side)
            worst = Fraction(0)
            lim = None
            for i in range(n):
                am = [Fraction(state[s * n + i]) for s in range(ns)]
                worst = max(worst, _comb(side, am) * vols[i] ** (1 - order))
                for s in range(ns):
                    if side[s]:
                        hold = am[s] / side[s]
                        lim = hold if lim is None else min(lim, hold)
            # never (on average) more than 60 % of what the poorest cell holds
            tgt = min(Fraction(target), Fraction(3, 5) * lim) if lim is not None else Fraction(target)
            return float(tgt / (worst * Fraction(dt))) if worst > 0 else 0.0
        kp = kfor(lhs, target)
        km = 0.0
        if rng.random() < 0.35:
            km = kfor(rhs, math.exp(rng.uniform(math.log(1e2), math.log(1e7))))
        if rng.random() < 0.3 and nenv > 1:
            kp = {"default": kp}
        reacs.append({"eq": eq, "k+": kp, "k-": km})
    net["reactions"] = reacs
    return {"big": True, "net": net, "space": space, "kind": kind, "seed": rng.randint(0, 2 ** 31 - 1), "state": state, "tmax": 1e9,
            "mode": "none", "dt": dt, "edge": info["edge"] if kind == "grid" else list(info["edge"])}


def child_run_big(case, lib):
    """runs inside the sandboxed child: like stoch_gen.child_run, but amounts may be as large as doubles hold integers
    exactly (2^52), and before every tau-leap step every Poisson mean is checked against POISSON_MEAN_CAP with the
    harness's own tabulation of the channels (the run stops there; what was recorded so far is judged)"""
    import ctypes
    import numpy as np
    import strengths as st
    from strengths.librdengine import LibRDEngine
    system = stoch_gen.build_system(case["net"], case["space"])
    system.state = list(case["state"])
    option = case["option"]
    script = st.RDScript(system, t_sample=[0], time_step=case["dt"], t_max=case["tmax"], sampling_policy="on_iteration",
                         rng_seed=case["seed"], init_state_processing=case.get("mode", "none"))
    arr = engine_io.system_arrays(script, option != "euler")
    arr.pop("us", None)
    rates = stoch_gen.Rates(arr) if option == "tauleap" else None
    dtq = frac(case["dt"])
    eng = LibRDEngine(lib, option=option, requires_molecules=(option != "euler"))
    common.draws_clear(lib)
    eng.setup(script)
    n_init = len(common.draws_get(lib))
    size = script.system.state_size()
    buf = (ctypes.c_double * size)()
    it = 0
    stopped = None
    while it < case["max_iter"]:
        lib.engineexport_get_state(buf)
        cur = list(buf)
        if any(v != v or abs(v) > 2.0 ** 52 for v in cur):
            stopped = "amounts beyond 2^52"
            break
        if any(v < 0 for v in cur):
            stopped = "negative amount"
            break
        if rates is not None:
            worst = max([a for (a, _e, _d) in rates.channels([frac(v) for v in cur])] or [0])
            if worst * dtq >= Fraction(POISSON_MEAN_CAP):
                stopped = "Poisson mean would pass the cap"
                break
        if not eng.iterate():
            break
        it += 1
    draws = common.draws_get(lib)[n_init:]
    traj = eng.get_output()
    complete = bool(eng.is_complete())
    eng.finalize()
    ns, nc = traj.nspecies(), traj.ncells()
    data = np.asarray(traj.data.value, dtype=float).reshape((traj.nsamples(), ns * nc))
    return {"t": [float(v) for v in traj.t.value], "x": [[float(v) for v in row] for row in data],
            "draws": [[k, a, b, r] for (k, a, b, r) in draws], "arr": arr, "complete": complete, "iterations": it,
            "accessor_diff": None, "stopped": stopped}


def child_case(case, lib):
    if case.get("big"):
        return child_run_big(case, lib)
    return stoch_gen.child_run_seq(case, lib)


def big_cases(ctx, nsys):
    out = []
    for k in range(nsys):
        b = gen_big(ctx, k)
        for option in ("tauleap", "gillespie", "euler"):
            c = dict(b)
            c["option"] = option
            c["max_iter"] = {"euler": 12, "tauleap": 6, "gillespie": 40}[option]
            out.append(c)
    return out


def small(case):
    return {k: case[k] for k in ("net", "space", "kind", "option", "seed", "dt", "tmax", "state", "max_iter", "edge", "before", "mode", "units", "same_object", "mutate_accessors", "big") if k in case}


def totals(c, x, n, ns):
    return sum(Fraction(c[s]) * sum(x[s * n:(s + 1) * n]) for s in range(ns))


def check_totals(report, case, res, vectors, n, ns):
    """the oracle: totals of every vector on every sample; returns number of (sample, vector) pairs or None on failure"""
    option = case["option"]
    rows = res["x"]
    if option == "euler":
        for k, row in enumerate(rows):
            if any(math.isnan(v) or math.isinf(v) for v in row):
                rows = rows[:k]
                report.count("euler_diverged")
                break
    xs = [[frac(v) for v in row] for row in rows]
    cnt = 0
    for vi, c in enumerate(vectors):
        tots = [totals(c, x, n, ns) for x in xs]
        for k in range(1, len(tots)):
            cnt += 1
            inexact_units = bool(case.get("units")) and case["units"].get("quantity", "molecule") != "molecule"
            if option == "euler" or inexact_units:
                mag = sum(abs(Fraction(c[s])) * sum(abs(v) for v in xs[k][s * n:(s + 1) * n]) for s in range(ns))
                mag = max(mag, sum(abs(Fraction(c[s])) * sum(abs(v) for v in xs[k - 1][s * n:(s + 1) * n]) for s in range(ns)))
                ok = abs(tots[k] - tots[k - 1]) <= Fraction(1, 10 ** 9) * mag
            else:
                ok = tots[k] == tots[k - 1]
            if not ok:
                report.violation("total-changes:%s" % option,
                                 "the system-wide total of a conservation law changed between two consecutive samples (%s engine)" % option,
                                 dict(small(case), vector=c, sample=k),
                                 impl={"total_before": _f(tots[k - 1]), "total_after": _f(tots[k]),
                                       "x_before": rows[k - 1], "x_after": rows[k]},
                                 expected={"total": _f(tots[0])})
                return None
    return cnt


def run(ctx):
    nsys = ctx.n(26, 350)
    base = [gen_case(ctx, k) for k in range(nsys)]
    cases = []
    for b in base:
        for option in ("euler", "tauleap", "gillespie"):
            c = dict(b)
            c["option"] = option
            c["dt"] = 1 / 1024 if option == "euler" else (b.get("tau_dt", 1 / 2048) if option == "tauleap" else 1 / 2048)
            c["max_iter"] = {"euler": ctx.n(60, 400), "tauleap": ctx.n(25, 200), "gillespie": ctx.n(150, 3000)}[option]
            cases.append(c)
    rng = ctx.rng
    # 'none' processing with NON-INTEGER amounts (what the deterministic engine gets by default) on every engine, and
    # scripts in other unit systems: the recorded samples, t = 0 included, must all carry the same totals
    for b in base[:ctx.n(10, 80)]:
        for option in ("tauleap", "euler", "gillespie"):
            c = dict(b)
            c["option"] = option
            c["mode"] = "none"
            c["state"] = [v + rng.choice([0.0, 0.5, 0.25, 0.75]) for v in b["state"]]
            c["dt"] = 1 / 1024 if option == "euler" else 1 / 2048
            c["max_iter"] = {"euler": 30, "tauleap": 20, "gillespie": 60}[option]
            if rng.random() < 0.5:
                # (quantity unit left at molecule here: fractional amounts would not survive the unit round trip bit for bit)
                c["units"] = {"time": rng.choice(["ms", "min"]), "quantity": "molecule"}
            cases.append(c)
    # explicit resampling of the initial state (documented for every engine): sample 0 is the PROCESSED state, so the
    # totals of sample 0 and of all later samples agree
    for b in base[:ctx.n(10, 80)]:
        for option in ("euler", "tauleap", "gillespie"):
            c = dict(b)
            c["option"] = option
            c["mode"] = rng.choice(["Poisson", "redist"])
            c["state"] = [v + rng.choice([0.0, 0.5, 0.25, 0.3, 1.75]) for v in b["state"]]
            c["dt"] = 1 / 1024 if option == "euler" else 1 / 2048
            c["max_iter"] = {"euler": 20, "tauleap": 15, "gillespie": 40}[option]
            cases.append(c)
    # successive simulations on ONE engine object: same species labels and reaction count, other stoichiometry
    rng = ctx.rng
    for b in base[:ctx.n(8, 60)]:
        labs = [s["label"] for s in b["net"]["species"]]
        if len(labs) < 2:
            continue
        def net_with(eqs):
            nn = {"species": [dict(s) for s in b["net"]["species"]], "environments": list(b["net"]["environments"]),
                  "reactions": [{"eq": e, "k+": 1.0, "k-": 0.25} for e in eqs]}
            for s in nn["species"]:
                s.pop("chstt", None)
            return nn
        a, bb = labs[0], labs[1]
        cc = labs[2] if len(labs) > 2 else labs[0]
        first = ["%s -> %s" % (a, bb)]
        second = ["%s -> %s" % (bb, cc)] if cc != bb and cc != a else ["2 %s -> %s" % (a, bb)]
        for option in ("gillespie", "tauleap", "euler"):
            c = dict(b)
            c["net"] = net_with(second)
            c["before"] = [{"net": net_with(first), "space": b["space"], "state": b["state"], "seed": 1}]
            # ... and the earlier use of the object may have FAILED (a call that raised) or been abandoned after setup()
            how = rng.choice([None, "raise", "raise", "abandon"])
            if how:
                c["before"][0]["fail"] = how
            c["option"] = option
            c["dt"] = 1 / 1024 if option == "euler" else 1 / 2048
            c["max_iter"] = {"euler": 40, "tauleap": 25, "gillespie": 120}[option]
            cases.append(c)
    # populations of 10^7 .. 10^10 molecules per cell with up to 1.9e9 firings of one reaction per leap (see gen_big);
    # run FIRST (the time budget cuts the tail of the list), generated last (the older streams keep their random inputs)
    cases = big_cases(ctx, ctx.n(14, 120)) + cases
    per_script_model = ctx.n(12, 60)
    chunk = 45
    for c0 in range(0, len(cases), chunk):
        if ctx.time_left() < 12:
            ctx.notes.append("time budget reached after %d of %d scripts" % (c0, len(cases)))
            break
        part = cases[c0:c0 + chunk]
        for c_ in part:
            c_["mutate_accessors"] = True
        results = stoch_gen.run_batch("props.c02", "child_case", part, kind="shim", timeout=ctx.n(20, 120))
        ops, meta = [], []
        for ci, (case, res) in enumerate(zip(part, results)):
            if res is None:
                continue
            sid = c0 + ci
            option = case["option"]
            if res.get("hang"):
                # non-termination is C10's property; here the run is only counted (nothing to check step by step)
                ctx.count("engine_hang_skipped")
                ctx.notes.append("a run did not finish within the time-out and was skipped (%s)" % option)
                continue
            if "crash" in res or "exception" in res:
                ctx.violation("engine-failure:" + option, "the engine crashed / raised on a valid script: %s" %
                              (res.get("exception") or res.get("crash")), small(case))
                continue
            arr = res["arr"]
            ns = arr["ns"]
            n = len(arr["chem"]) // ns
            vectors, free = conservation_vectors(arr, case["net"])
            ctx.count("scripts_" + option)
            ctx.count("space_" + case["kind"])
            if case.get("before"):
                ctx.count("engine_object_reused")
                if case["before"][0].get("fail"):
                    ctx.count("engine_object_reused_after_" + case["before"][0]["fail"])
            if case.get("big"):
                ctx.count("big_amounts_scripts_" + option)
                if res.get("stopped"):
                    ctx.count("big_amounts_run_stopped: " + res["stopped"])
                if option == "tauleap" and res["draws"]:
                    top = max(int(d[3]) for d in res["draws"])
                    ctx.count("big_amounts_tauleap_max_firings_per_leap_" + ("ge_2^31/4" if top >= 2 ** 29 else "ge_2^24" if top >= 2 ** 24 else "lt_2^24"))
                    msto = max(abs(v) for v in arr["sto"]) if arr["sto"] else 0
                    if top * msto >= 2 ** 31:
                        ctx.count("big_amounts_tauleap_scripts_with_sto_x_firings_ge_2^31")
                    if top * msto >= 2 ** 32:
                        ctx.count("big_amounts_tauleap_scripts_with_sto_x_firings_ge_2^32")
                if max(abs(v) for v in res["x"][0]) >= 2 ** 31:
                    ctx.count("big_amounts_scripts_with_cell_amount_ge_2^31")
            elif case.get("mode") == "none":
                ctx.count("none_mode_fractional_state")
            if case.get("mode") in ("Poisson", "redist"):
                ctx.count("resampled_initial_state_" + option)
            if case["kind"] == "graph" and arr["space"]["kind"] == "graph":
                deg = {}
                for (i_, j_, _s, _d) in arr["space"]["edges"]:
                    deg[i_] = deg.get(i_, 0) + 1
                    deg[j_] = deg.get(j_, 0) + 1
                if deg and max(deg.values()) > 6:
                    ctx.count("graphs_with_hub_degree_gt_6")
            if case.get("units"):
                ctx.count("nondefault_units")
            ctx.count("vectors_%d" % min(len(vectors), 4))
            if arr["nr"] == 0:
                ctx.count("diffusion_only")
            if any(v == 0 for v in arr["D"]):
                ctx.count("scripts_with_zero_diffusivity")
            if len(free) < ns:
                ctx.count("scripts_with_chemostats")
            if not vectors:
                continue
            if res.get("accessor_diff"):
                dd = res["accessor_diff"][0]
                ctx.violation("recorded-data-rewritten-through-accessor:" + option,
                              "editing in place what get_state / get_trajectory returned changed RDTrajectory.data (sample %d), hence the "
                              "recorded totals of the conservation laws" % dd["sample"],
                              dict(small(case), mutate_accessors=True), impl={"changed_entries": res["accessor_diff"]},
                              expected="RDTrajectory.data bitwise unchanged")
                continue
            ctx.count("accessor_results_mutated_data_unchanged")
            got = check_totals(ctx, case, res, vectors, n, ns)
            if got is None:
                continue
            nsteps = len(res["x"]) - 1
            changed = sum(1 for k in range(nsteps) if res["x"][k + 1] != res["x"][k])
            ctx.count("steps_" + option, nsteps)
            ctx.count("steps_changing_" + option, changed)
            for vi, c in enumerate(vectors):
                nz = any(c[s] != 0 and any(res["x"][0][s * n:(s + 1) * n]) for s in range(ns))
                for k in range(1, nsteps + 1):
                    ctx.case((sid, vi, k), nontrivial=nz and changed > 0)
            if len(ctx.samples) < 5 and nsteps:
                ctx.samples.append({"engine": option, "reactions": [r["eq"] for r in case["net"]["reactions"]], "vectors": vectors,
                                    "totals_first_last": [[_f(totals(c, [frac(v) for v in res["x"][0]], n, ns)),
                                                           _f(totals(c, [frac(v) for v in res["x"][-1]], n, ns))] for c in vectors]})
            # ---- correspondence: replay a few recorded steps on the model, and its `total`
            eng = engine_io.eng_json(arr, edge=case["edge"])
            ks = list(range(min(nsteps, per_script_model)))
            if option == "euler":
                for k in ks:
                    if any(math.isnan(v) or math.isinf(v) or abs(v) > 1e12 for v in res["x"][k] + res["x"][k + 1]):
                        break
                    ops.append({"op": "euler_step", "eng": eng, "x": [rstr(v) for v in res["x"][k]], "dt": rstr(case["dt"])})
                    meta.append((sid, "e", k))
            elif option == "tauleap":
                rates = stoch_gen.Rates(arr, edge=case["edge"])
                pos = 0
                for k in range(nsteps):
                    nch = len(rates.channels([frac(v) for v in res["x"][k]]))
                    dd = res["draws"][pos:pos + nch]
                    pos += nch
                    if k in ks:
                        ops.append({"op": "tauleap_full", "eng": eng, "x": [rstr(v) for v in res["x"][k]], "dt": rstr(case["dt"]),
                                    "draws": [int(d[3]) for d in dd]})
                        meta.append((sid, "t", k))
            else:
                for k in ks:
                    if 2 * k + 1 >= len(res["draws"]):
                        break
                    u1, u2 = res["draws"][2 * k][3], res["draws"][2 * k + 1][3]
                    if u2 <= 0:
                        continue
                    ops.append({"op": "gillespie_step_m", "eng": eng, "x": [rstr(v) for v in res["x"][k]], "u1": rstr(u1),
                                "L": rstr(math.log(1 / u2))})
                    meta.append((sid, "g", k))
            if nsteps:
                finite = not any(math.isnan(v) or math.isinf(v) for v in res["x"][-1])
                if finite:
                    ops.append({"op": "cons_totals", "eng": eng, "x": [rstr(v) for v in res["x"][-1]],
                                "c": [[str(v) for v in c] for c in vectors]})
                    meta.append((sid, "c", [totals(c, [frac(v) for v in res["x"][-1]], n, ns) for c in vectors]))
        answers = ctx.model.run(ops, timeout=600)
        for (sid, kindc, k), ans in zip(meta, answers):
            if ans is None:
                continue
            case, res = cases[sid], results[sid - c0]
            o = ans.get("ok")
            if kindc == "c":
                if o is None or [rparse(v) for v in o] != k:
                    ctx.disagree("cons_totals", small(case), [_f(v) for v in k], ans, note="model `total` differs from the oracle's")
                continue
            cse = dict(small(case), step=k)
            nxt = res["x"][k + 1]
            if o is None:
                ctx.disagree("step_" + kindc, cse, "engine stepped", ans)
            elif kindc == "e":
                mx = [rparse(v) for v in o["x"]]
                dx = [rparse(v) for v in o["dxdt"]]
                dtq = frac(case["dt"])
                bad = [p for p in range(len(mx)) if not close(nxt[p], mx[p], mag=abs(frac(res["x"][k][p])) + abs(dx[p] * dtq), rel=1e-9)]
                if bad:
                    ctx.disagree("euler_step", cse, {"x_next": nxt}, {"x_next": [_f(v) for v in mx]}, note="entries %s differ" % bad[:5])
                else:
                    ctx.count("model_steps_euler")
            elif kindc == "t":
                if o["x"] is None or [rparse(v) for v in o["x"]] != [frac(v) for v in nxt]:
                    ctx.disagree("tauleap_step", cse, {"x_next": nxt}, {"x_next": o["x"]}, note="next state differs")
                else:
                    ctx.count("model_steps_tauleap")
            else:
                if o.get("complete"):
                    ctx.disagree("gillespie_step", cse, "engine stepped", "model: a0 = 0")
                elif rparse(o["margin"]) < Fraction(1, 10 ** 9):
                    ctx.count("ambiguous_selection")
                elif [rparse(v) for v in o["x"]] != [frac(v) for v in nxt]:
                    ctx.disagree("gillespie_step", cse, {"x_next": nxt}, {"x_next": o["x"], "event": o["event"]}, note="selected event differs")
                else:
                    ctx.count("model_steps_gillespie")
    ctx.notes.append("euler_conserves is proved unconditionally for grids (all sizes / boundary settings) and graphs (all edge lists); "
                     "float drift of the Euler engine is checked against 1e-9 relative per step, not proved")


def search(ctx):
    """failing-input search (an anchor / theorem / the correspondence is broken and no failing input is known yet): the
    magnitude stream at thorough size on the tau-leap and Gillespie engines (the oracle only), then the ordinary streams
    are repeated under further seeds by the runner"""
    if ctx.extra.get("searched"):
        return
    ctx.extra["searched"] = True
    known = set(common.known_findings(ID)[0])
    rounds = 0
    while ctx.time_left() > 15 and rounds < 4 and not [v for v in ctx.violations if v["key"] not in known]:
        rounds += 1
        cases = [c for c in big_cases(ctx, 90) if c["option"] != "euler"]
        results = stoch_gen.run_batch("props.c02", "child_case", cases, kind="shim", timeout=20)
        for case, res in zip(cases, results):
            if res is None or res.get("hang") or "crash" in res or "exception" in res:
                continue
            ctx.count("search_big_amounts_scripts_" + case["option"])
            arr = res["arr"]
            ns = arr["ns"]
            n = len(arr["chem"]) // ns
            vectors, _free = conservation_vectors(arr, case["net"])
            if vectors:
                check_totals(ctx, case, res, vectors, n, ns)
    ctx.notes.append("search(): %d extra rounds of 90 systems with 10^7..10^10 molecules per cell and up to 1.9e9 firings per leap" % rounds)


def replay(ctx, rec):
    case = rec.get("case", rec)
    base = {k: case[k] for k in ("net", "space", "kind", "option", "seed", "dt", "tmax", "state", "max_iter", "edge", "before", "mode", "units", "same_object", "mutate_accessors", "big") if k in case}
    res = stoch_gen.run_batch("props.c02", "child_case", [base], kind="shim", timeout=60)[0]
    if res is None or res.get("hang") or "crash" in res or "exception" in res:
        return False, {"case": base, "impl": res}
    if res.get("accessor_diff"):
        return False, {"case": base, "recorded_data_changed_by_editing_accessor_results": res["accessor_diff"]}

    class _C:
        def __init__(self):
            self.v = []

        def violation(self, key, what, case, impl=None, expected=None):
            self.v.append({"key": key, "what": what, "sample": case.get("sample"), "vector": case.get("vector"), "impl": impl})

        def count(self, *a, **k):
            pass
    c = _C()
    arr = res["arr"]
    ns = arr["ns"]
    n = len(arr["chem"]) // ns
    vectors, _ = conservation_vectors(arr, base["net"])
    check_totals(c, base, res, vectors, n, ns)
    return (not c.v), {"case": base, "vectors": vectors, "failures": c.v}
