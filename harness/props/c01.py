"""C01 — Deterministic rate law: mass-action reactions plus Bernstein diffusion.

Theorems: lean/Strengths/Props/C01.lean (Spec `Strengths.Spec.rate`; models `Model/Kinetics.lean` (Python kinetics,
make_dxdtf, marshalling) and `Model/Engine.lean` (Euler)).
Correspondence: ops `dstate` (compute_dspeciesdt per entry, compute_dstatedt as a whole), `dxdtf`, `marshal`,
`euler_step`, `marshal_dxdt` (Compute_dxdt on the decoded model marshalling, Props/C01Marshal.lean), `spec_rate` (Lean Spec = Python oracle, exactly).
Oracle (independent of code and model): `determ_lib.oracle_rate`, the closed formula of the statement with exact
rationals on the physical system the generator wrote down, against compute_dspeciesdt / compute_dstatedt /
make_dxdtf / samples 0,1 of an Euler run; dimension and units system of every returned quantity.
Edit-then-reuse of the space (`edited_job`): the same oracle and the same correspondence ops on the system object after in-place
edits of `system.space` (keys prefixed `space-edit:`); the model reads the edited object field by field (`determ_lib.sys_json`),
the oracle gets the physical system from the recipe of the edit.
"""
import json
from fractions import Fraction
import common
from common import frac, rstr, rparse, close
import determ_lib as L
import engine_io

_builtin_float = float


def float(x):  # noqa: A001 — overflow-safe: a huge exact rational becomes ±inf instead of raising OverflowError
    try:
        return _builtin_float(x)
    except OverflowError:
        return _builtin_float("inf") if x > 0 else _builtin_float("-inf")


ID = "C01"
LEAN_TARGETS = ["Strengths.Props.C01", "Strengths.Props.C01Dxdtf", "Strengths.Props.C01Total", "Strengths.Props.C01Marshal", "Strengths.Props.C01Units", "Strengths.Props.C01Build"]
PROP_FILES = ["Strengths/Props/C01.lean", "Strengths/Props/C01Dxdtf.lean", "Strengths/Props/C01Total.lean", "Strengths/Props/C01Marshal.lean", "Strengths/Props/C01Units.lean", "Strengths/Props/C01Build.lean"]
GEN_GROUPS = ["Units", "IndexPy", "EngineCpp", "KineticsPy", "Network"]
RULE = ("random reaction networks (1-3 species, 0-3 reactions, orders 0-4 per side incl. empty sides and repeated species, "
        "scalar / per-environment k, D, density with and without 'default', zeros) on grids (w,h,d with all mixes of "
        "reflecting/periodic axes, periodic axes of length 1 and 2 included, random environment maps) and graphs "
        "(heterogeneous volumes, surfaces, distances, isolated nodes; parallel edges and self-loops for the engine), units "
        "declared/inherited at every nesting level from all 11x10x10 systems, bare numbers and explicit unit strings, "
        "random states, random output units; every system object, after it has been evaluated, is edited IN PLACE through the public "
        "setters of the nested space objects (node volume / environment, edge surface / distance, grid cell volume / environment map / "
        "boundary conditions, space units system; bare numbers, text and UnitValue in other units) and judged again; a case is one (system, state, entry) evaluation; non-trivial when the "
        "expected rate has at least one non-zero term; distinct by (system fingerprint, entry, path)")
ASSUMPTIONS = [
    "IEEE-754 double arithmetic of CPython / the C++ engine is within 1e-9 (relative to the magnitude of the added terms) of exact arithmetic for these short computations",
    "cell volumes are positive and diffusion coefficients / rate constants non-negative (the documented domain)",
    "pow(V, 1/3) of the code is within 1e-15 relative of the real cube root (volumes are generated as cubes of rationals)",
]
TRUSTED = ["Python-side oracle `determ_lib.oracle_rate` duplicates the Lean Spec `Strengths.Spec.rate` (compared exactly on every generated system through the driver op `spec_rate`)",
           "harness reading of constructed objects (value, units.sys, units.dim of every UnitValue) into the model's SI form"]

TOL = 1e-9


def out_of_time(ctx, extra=0):
    """stop generating new cases: quick tier after 28 s of HARNESS time (measured from the first call, so that a cold Lean
    build of a scratch copy does not eat the budget; the whole check must end within 60 s), thorough after 10 min"""
    import time
    if not hasattr(ctx, "_h0"):
        ctx._h0 = time.time()
    return (time.time() - ctx._h0) > ((28 if ctx.tier == "quick" else 600) + extra)


def phys_dump(phys):
    return common.jsonable(phys)


def phys_load(j):
    p = dict(j)
    p["reacs"] = [{"sub": r["sub"], "prod": r["prod"], "kf": [rparse(v) for v in r["kf"]], "kr": [rparse(v) for v in r["kr"]]}
                  for r in j["reacs"]]
    for k in ("vol", "edge"):
        p[k] = [rparse(v) for v in j[k]]
    for k in ("D", "dens"):
        p[k] = [[rparse(v) for v in row] for row in j[k]]
    sp = dict(j["space"])
    if sp["kind"] == "graph":
        sp["edges"] = [(e[0], e[1], rparse(e[2]), rparse(e[3])) for e in sp["edges"]]
    p["space"] = sp
    return p


def fingerprint(desc):
    return common.hash_str(json.dumps(desc, sort_keys=True, ensure_ascii=False))


def set_state(system, vals, us, as_unitarray):
    from strengths.units import UnitArray, Units, quantity_units_dimensions
    if as_unitarray:
        system.state = UnitArray(vals, Units(L.us_obj(us), quantity_units_dimensions()))
    else:
        system.units_system = L.us_obj(us)
        system.state = list(vals)


def py_has_no_terms(phys, i):
    """the Python kinetics accumulate nothing for cell i: no reaction in the network and no neighbour other than itself"""
    return not phys["reacs"] and not [f for f in L.faces_of(phys, i) if f[0] != i]


def kinetics_entry(system, s, i, apply_chem, U):
    """(SI value, dim, system) of compute_dspeciesdt or ('error', type)"""
    import strengths.kinetics as kin
    try:
        v = kin.compute_dspeciesdt(system, s, i, None, apply_chem, L.us_obj(U))
    except Exception as ex:  # noqa
        return ("error", type(ex).__name__)
    si, dim = L.q_of(v)
    return (si, dim, L.sys_of(v.units.sys))


def check_entry(ctx, got, expected, mag, U, case, key, what):
    """oracle on one returned quantity: SI value, dimension amount/time, requested units system"""
    if got[0] == "error":
        ctx.violation(key + ":raises", "%s raised %s" % (what, got[1]), case, impl=got[1], expected=rstr(expected))
        return False
    si, dim, sysm = got
    ok = True
    if tuple(dim) != L.D_RATE:
        ctx.violation(key + ":dim", "%s returned dimension %s, not amount/time" % (what, dim), case, impl=list(dim), expected=list(L.D_RATE))
        ok = False
    elif U is not None and tuple(sysm) != tuple(U):
        ctx.violation(key + ":units", "%s returned units system %s, requested %s" % (what, sysm, U), case, impl=list(sysm), expected=list(U))
        ok = False
    elif not close(float(si), expected, mag, rel=TOL):
        ctx.violation(key + ":value", "%s = %r (SI), the rate law gives %r" % (what, float(si), float(expected)), case,
                      impl=float(si), expected=rstr(expected))
        ok = False
    return ok


def model_entry_matches(got, m, mag):
    """correspondence of one entry: real (si, dim, sys)|('error',..) vs model {"si","dim"}|{"error"}"""
    if got[0] == "error" or "error" in m:
        return (got[0] == "error") == ("error" in m)
    q = rparse(m["si"])
    return tuple(m["dim"]) == tuple(got[1]) and abs(got[0] - q) <= Fraction(TOL) * max(abs(got[0]), abs(q), mag)


def run_kinetics(ctx, jobs):
    """jobs: list of dicts(desc, phys, info, system, x_si, state, U, parallel).  Batches the model ops."""
    import strengths.kinetics as kin
    ops = []
    for jb in jobs:
        sj = L.sys_json(jb["system"], edges_si=jb["phys"]["edge"])
        jb["sysj"] = sj
        xs = [rstr(v) for v in jb["x_si"]]
        ops.append({"op": "dstate", "sys": sj, "x": xs, "apply_chem": False})
        ops.append({"op": "dstate", "sys": sj, "x": xs, "apply_chem": True})
        ops.append({"op": "spec_rate", "phys": L.phys_json(jb["phys"]), "x": xs})
    res = ctx.model.run(ops)
    for k, jb in enumerate(jobs):
        phys, system, x, U = jb["phys"], jb["system"], jb["x_si"], jb["U"]
        n, ns = phys["n"], phys["ns"]
        m_free, m_chem, m_spec = res[3 * k], res[3 * k + 1], res[3 * k + 2]
        orc = L.oracle_rate(phys, x)
        chem = [int(v) for v in system.chemostats]
        base_case = {"kind": "kinetics", "desc": jb["desc"], "phys": phys_dump(phys), "state": jb["state"], "U": list(U),
                     "chem": [int(v) for v in system.chemostats]}
        pfx = jb.get("keypfx", "")
        if jb.get("edits"):
            base_case["edits"] = jb["edits"]
        fp = job_fp(jb)
        # Lean Spec == Python oracle (exact)
        if m_spec is not None:
            ms = [rparse(v) for v in m_spec["ok"]]
            if ms != [r for r, _ in orc]:
                ctx.disagree("spec_rate", base_case, [rstr(r) for r, _ in orc], m_spec["ok"], note="Lean Spec.rate differs from the Python oracle")
        ctx.count("space_" + phys["space"]["kind"])
        ctx.count("cells_%d" % n)
        ctx.count("species_%d" % ns)
        ctx.count("reactions_%d" % len(phys["reacs"]))
        for r in phys["reacs"]:
            ctx.count("order_%d" % sum(r["sub"]))
            ctx.count("order_%d" % sum(r["prod"]))
        # ---- per entry, apply_chemostats=False : the rate law itself
        for s in range(ns):
            for i in range(n):
                e = s * n + i
                got = kinetics_entry(system, s, i, False, U)
                exp, mag = orc[e]
                case = dict(base_case, s=s, i=i, apply=False)
                ctx.case((fp, "kin", e), nontrivial=(mag != 0), sample={"op": "compute_dspeciesdt", "space": phys["space"]["kind"], "n": n, "ns": ns,
                                                                         "impl": None if got[0] == "error" else float(got[0]), "spec": float(exp)})
                if not jb["parallel"]:
                    if py_has_no_terms(phys, i):
                        ctx.count("entries_without_any_term")
                    check_entry(ctx, got, exp, mag, U, case, pfx + "kinetics:" + phys["space"]["kind"], "compute_dspeciesdt(species %d, cell %d)%s" % (s, i, edits_text(jb)))
                else:
                    ctx.count("parallel_edges_python_skipped")
                if m_free is not None and not model_entry_matches(got, m_free["ok"]["entries"][e], mag):
                    ctx.disagree("dstate", case, None if got[0] == "error" else float(got[0]), m_free["ok"]["entries"][e])
        # ---- compute_dstatedt as a whole, default apply_chemostats=True
        try:
            arr = kin.compute_dstatedt(system, None, True, L.us_obj(U))
            whole = ([Fraction(float(v)) * L.si_factor(L.sys_of(arr.units.sys), L.dim_of(arr.units.dim)) for v in arr.value],
                     L.dim_of(arr.units.dim), L.sys_of(arr.units.sys))
        except Exception as ex:  # noqa
            whole = ("error", type(ex).__name__)
        case = dict(base_case, whole=True, apply=True)
        any_no_terms = any(py_has_no_terms(phys, i) and not chem[s * n + i] for s in range(ns) for i in range(n))
        ctx.case((fp, "whole"), nontrivial=any(m != 0 for _, m in orc))
        if not jb["parallel"]:
            if whole[0] == "error":
                ctx.violation(pfx + "dstatedt:raises", "compute_dstatedt raised %s%s" % (whole[1], edits_text(jb)), case, impl=whole[1])
            else:
                vals, dim, sysm = whole
                for e in range(ns * n):
                    exp, mag = (Fraction(0), Fraction(0)) if chem[e] else orc[e]
                    if not check_entry(ctx, (vals[e], dim, sysm), exp, mag, U, dict(case, e=e), pfx + "dstatedt:" + phys["space"]["kind"],
                                       "compute_dstatedt entry %d%s" % (e, edits_text(jb))):
                        break
        if m_chem is not None:
            mw = m_chem["ok"]["whole"]
            if (whole[0] == "error") != ("error" in mw):
                ctx.disagree("dstate_whole", case, whole[1] if whole[0] == "error" else "ok", mw)
            elif whole[0] != "error":
                mv = [rparse(v) for v in mw["si"]]
                if tuple(mw["dim"]) != tuple(whole[1]) or len(mv) != len(whole[0]) or not all(
                        abs(a - b) <= Fraction(TOL) * max(abs(a), abs(b), orc[e][1]) for e, (a, b) in enumerate(zip(whole[0], mv))):
                    ctx.disagree("dstate_whole", case, [float(v) for v in whole[0]], mw)


def pick_reassignment(rng, phys, system):
    """choose a reaction, a side and a new bare rate constant (in the reaction's own units system); returns the recipe and
    the physical system after the assignment `reaction.kf = v` / `reaction.kr = v` (a scalar applies to every environment)"""
    k = rng.randrange(len(phys["reacs"]))
    side = rng.choice(["kf", "kr"])
    r = system.network.reactions[k]
    ru = L.sys_of(r.units_system)
    order = sum(phys["reacs"][k]["sub" if side == "kf" else "prod"])
    dim = L.k_dim(order)
    v = L.nice_float(Fraction(rng.choice([0.9, 2.2, 0.35])) * L.si_factor(L.DEFAULT_SYS, dim) / L.si_factor(ru, dim))
    return {"reaction": k, "side": side, "value": v}


def apply_reassignment(phys, system, rec):
    """perform the assignment on the real object and return the updated physical system"""
    import copy
    k, side, v = rec["reaction"], rec["side"], rec["value"]
    r = system.network.reactions[k]
    ru = L.sys_of(r.units_system)
    setattr(r, side, v)                      # through the property setter, like a user would
    order = sum(phys["reacs"][k]["sub" if side == "kf" else "prod"])
    si = Fraction(v) * L.si_factor(ru, L.k_dim(order))
    phys2 = copy.deepcopy(phys)
    phys2["reacs"][k][side] = [si] * len(phys2["reacs"][k][side])
    return phys2


# ---------------------------------------------------------------------------------------------------------------------
# edit-then-reuse of the SPACE: a system that has been built and evaluated is edited in place through the public setters
# of the objects nested in `system.space` (node volume / environment, edge surface / distance, grid cell volume / environment
# map / boundary conditions, the space's units system), then evaluated again.  "Every valid system" of the statement is the
# system as it is when the rate is asked for; the recipes below carry the exact SI meaning of what was written, so that the
# expected physical system is known independently of the object.
# ---------------------------------------------------------------------------------------------------------------------
GRAPH_EDITS = ["node-volume", "edge-surface", "node-environment", "node-volume", "edge-distance", "space-units", "node-volume-all"]
GRID_EDITS = ["cell-volume", "cell-env", "boundary", "cell-volume", "space-units"]


def _written_quantity(rng, nat, dim, owner_sys, cube=False):
    """a new quantity of dimension `dim` worth about `nat` (in µm, s, molecule), written as a bare number in the owner's
    units system, or as text / UnitValue in ANOTHER units system.  cube=True: `nat` is a cell edge and the quantity is its
    cube (so that the edge stays rational).  Returns the JSON-able recipe with the exact SI value(s)."""
    r = rng.random()
    form = "bare" if r < 0.4 else ("text" if r < 0.7 else "unitvalue")
    u = tuple(owner_sys) if form == "bare" else L.rand_sys(rng)
    if cube:
        hv = Fraction(L.nice_float(Fraction(nat) * L.si_factor(L.DEFAULT_SYS, L.D_LEN) / L.si_factor(u, L.D_LEN)))
        v = float(hv ** 3)
        rec = {"form": form, "value": v, "units": list(u), "si": rstr(Fraction(v) * L.si_factor(u, dim)), "edge_si": rstr(hv * L.si_factor(u, L.D_LEN))}
    else:
        v = L.nice_float(Fraction(nat) * L.si_factor(L.DEFAULT_SYS, dim) / L.si_factor(u, dim))
        rec = {"form": form, "value": v, "units": list(u), "si": rstr(Fraction(v) * L.si_factor(u, dim))}
    rec["dim"] = list(dim)
    return rec


def _written_arg(rec):
    from strengths.units import UnitValue
    if rec["form"] == "bare":
        return rec["value"]
    txt = L.units_text(tuple(rec["units"]), tuple(rec["dim"]))
    if rec["form"] == "text":
        return "%r %s" % (rec["value"], txt)
    return UnitValue(rec["value"], txt)


def pick_space_edit(rng, phys, system, which):
    """a recipe for one in-place edit of `system.space` of the named kind (None when the system has nothing of that kind)"""
    sp = system.space
    n = phys["n"]
    new_edge = lambda old: rng.choice([e for e in (Fraction(3, 8), Fraction(3, 4), Fraction(9, 8), Fraction(7, 4), Fraction(5, 2))  # noqa: E731
                                       if e * L.si_factor(L.DEFAULT_SYS, L.D_LEN) != old])
    if which in ("node-volume", "node-volume-all"):
        nodes = list(range(n)) if which == "node-volume-all" else [rng.randrange(n)]
        return {"edit": "node-volume", "nodes": nodes,
                "to": [_written_quantity(rng, new_edge(phys["edge"][i]), L.D_VOL, L.sys_of(sp.nodes[i].units_system), cube=True) for i in nodes]}
    if which == "node-environment":
        if len(phys["envs"]) < 2:
            return None
        i = rng.randrange(n)
        return {"edit": "node-environment", "node": i, "to": rng.choice([e for e in range(len(phys["envs"])) if e != phys["env"][i]]),
                "as": rng.choice(["int", "int", "numpy", "float"])}
    if which in ("edge-surface", "edge-distance"):
        if not phys["space"]["edges"]:
            return None
        k = rng.randrange(len(phys["space"]["edges"]))
        dim = L.D_SFC if which == "edge-surface" else L.D_LEN
        return {"edit": which, "edge": k, "to": _written_quantity(rng, rng.choice([0.2, 0.6, 1.25, 3]), dim, L.sys_of(sp.edges[k].units_system))}
    if which == "cell-volume":
        return {"edit": "cell-volume", "to": _written_quantity(rng, new_edge(phys["edge"][0]), L.D_VOL, L.sys_of(sp.units_system), cube=True)}
    if which == "cell-env":
        if len(phys["envs"]) < 2:
            return None
        if rng.random() < 0.3:
            return {"edit": "cell-env", "to": rng.choice([e for e in range(len(phys["envs"])) if [e] * n != phys["env"]])}
        while True:
            m = [rng.randrange(len(phys["envs"])) for _ in range(n)]
            if m != phys["env"]:
                return {"edit": "cell-env", "to": m}
    if which == "boundary":
        s = phys["space"]
        axes = [ax for ax, ln in (("x", s["w"]), ("y", s["h"]), ("z", s["d"])) if ln >= 2] or ["x"]
        flip = rng.choice(axes)
        # set_boundary_conditions: axes that are not named become reflecting
        new = {ax: (not s["p" + ax]) if ax == flip else (s["p" + ax] and rng.random() < 0.7) for ax in "xyz"}
        d = {ax: "periodical" for ax in "xyz" if new[ax]}
        for ax in "xyz":
            if not new[ax] and rng.random() < 0.4:
                d[ax] = "reflecting"
        return {"edit": "boundary", "to": d}
    if which == "space-units":
        return {"edit": "space-units", "to": list(L.rand_sys(rng)), "as": rng.choice(["object", "dict"])}
    return None


def apply_space_edit(phys, system, rec):
    """perform the edit on the real object (through the public setter, like a user would) and return the physical system it
    denotes afterwards"""
    import copy
    sp = system.space
    p2 = copy.deepcopy(phys)
    kind = rec["edit"]
    if kind == "node-volume":
        for i, to in zip(rec["nodes"], rec["to"]):
            sp.nodes[i].volume = _written_arg(to)
            p2["vol"][i] = rparse(to["si"])
            p2["edge"][i] = rparse(to["edge_si"])
    elif kind == "node-environment":
        v = rec["to"]
        sp.nodes[rec["node"]].environment = {"int": v, "numpy": __import__("numpy").int64(v), "float": _builtin_float(v)}[rec["as"]]
        p2["env"][rec["node"]] = v
    elif kind in ("edge-surface", "edge-distance"):
        k = rec["edge"]
        setattr(sp.edges[k], "surface" if kind == "edge-surface" else "distance", _written_arg(rec["to"]))
        a, b, s, d = p2["space"]["edges"][k]
        p2["space"]["edges"][k] = (a, b, rparse(rec["to"]["si"]), d) if kind == "edge-surface" else (a, b, s, rparse(rec["to"]["si"]))
    elif kind == "cell-volume":
        sp.cell_vol = _written_arg(rec["to"])
        p2["vol"] = [rparse(rec["to"]["si"])] * phys["n"]
        p2["edge"] = [rparse(rec["to"]["edge_si"])] * phys["n"]
    elif kind == "cell-env":
        sp.cell_env = rec["to"]
        p2["env"] = list(rec["to"]) if isinstance(rec["to"], list) else [rec["to"]] * phys["n"]
    elif kind == "boundary":
        sp.set_boundary_conditions(dict(rec["to"]))
        for ax in "xyz":
            p2["space"]["p" + ax] = rec["to"].get(ax) == "periodical"
    elif kind == "space-units":
        # quantities already stored carry their own units: the physical system is unchanged
        sp.units_system = L.us_obj(tuple(rec["to"])) if rec["as"] == "object" else L.sysj(tuple(rec["to"]))
    else:
        raise ValueError("unknown space edit %r" % kind)
    return p2


def apply_edits(phys, system, edits):
    for rec in edits or []:
        phys = apply_space_edit(phys, system, rec)
    return phys


def edited_job(ctx, rng, jb, counter):
    """the job's own system object (already evaluated by the kinetics functions, make_dxdtf and an Euler run), edited in
    place; returns a new job describing the system AFTER the edits, or None"""
    phys, system = jb["phys"], jb["system"]
    menu = GRAPH_EDITS if phys["space"]["kind"] == "graph" else GRID_EDITS
    k = counter[phys["space"]["kind"]]
    counter[phys["space"]["kind"]] += 1
    kinds = [menu[k % len(menu)]]
    if rng.random() < 0.3:
        kinds.append(rng.choice(menu))
    edits, p2 = [], phys
    for which in kinds:
        rec = pick_space_edit(rng, p2, system, which)
        if rec is None:
            continue
        try:
            p2 = apply_space_edit(p2, system, rec)
        except Exception as ex:  # noqa
            ctx.violation("space-edit:raises", "the public setter for %s raised %s: %s" % (rec["edit"], type(ex).__name__, str(ex)[:200]),
                          {"kind": "space-edit-setter", "desc": jb["desc"], "phys": phys_dump(phys), "edits": edits + [rec]}, impl=type(ex).__name__)
            return None
        edits.append(rec)
        ctx.count("space_edit_" + rec["edit"])
    if not edits:
        return None
    j2 = dict(jb, phys=p2, edits=edits, keypfx="space-edit:", parallel=L.has_parallel_edges(p2), reuse_script=False)
    j2.pop("sysj", None)
    j2.pop("xU", None)
    return j2


def edits_text(jb):
    """for messages: how the system object was edited after it had been built and evaluated"""
    if not jb.get("edits"):
        return ""
    out = []
    for r in jb["edits"]:
        to = r["to"]
        if r["edit"] == "node-volume":
            out.append("; ".join("space.nodes[%d].volume = %r" % (i, _written_arg(t)) for i, t in zip(r["nodes"], to)))
        elif r["edit"] == "node-environment":
            out.append("space.nodes[%d].environment = %r" % (r["node"], to))
        elif r["edit"] in ("edge-surface", "edge-distance"):
            out.append("space.edges[%d].%s = %r" % (r["edge"], r["edit"][5:], _written_arg(to)))
        elif r["edit"] == "cell-volume":
            out.append("space.cell_vol = %r" % (_written_arg(to),))
        elif r["edit"] == "cell-env":
            out.append("space.cell_env = %r" % (to,))
        elif r["edit"] == "boundary":
            out.append("space.set_boundary_conditions(%r)" % (to,))
        else:
            out.append("space.units_system = %r" % (to,))
    return " [after the in-place edit(s) of the already evaluated system: " + "; ".join(out) + "]"


def job_fp(jb):
    return fingerprint(jb["desc"] if not jb.get("edits") else {"desc": jb["desc"], "edits": jb["edits"]})


def check_dxdtf_values(ctx, f, xU, phys, chem, U, case, key, what, int64=False):
    """one call of a closure returned by make_dxdtf against the rate law; returns the output or None"""
    ns = phys["ns"]
    fq, fr = L.si_factor(U, L.D_QTY), L.si_factor(U, L.D_RATE)
    orc = L.oracle_rate(phys, [Fraction(v) * fq for v in xU])
    if int64:
        case = dict(case, x_call_int64=True)
    try:
        out = [float(v) for v in f(0.0, __import__("numpy").array(list(xU), dtype="int64") if int64 else list(xU))]
    except Exception as ex:  # noqa
        ctx.violation(key + ":raises", "%s raised %s" % (what, type(ex).__name__), case, impl=type(ex).__name__)
        return None
    if not all(abs(v) < 1e250 for v in out + list(xU)):
        ctx.count("dxdtf_overflow_skipped")
        return None
    for s in range(ns):
        exp, mag = (Fraction(0), Fraction(0)) if chem[s] else orc[s]
        if not close(out[s], exp / fr, mag / fr, rel=TOL):
            ctx.violation(key + ":value", "%s: entry %d is %r (in %s), the rate law gives %r%s" % (
                what, s, out[s], U, float(exp / fr), " (the species is chemostated)" if chem[s] else ""),
                dict(case, s=s, x_call=list(xU)), impl=out[s], expected=rstr(exp / fr))
            return None
    return out


def pick_integer_state(phys, chem, U):
    """an integer state on which truncating a rate to an integer would show: by the ORACLE, some free entry has a rate (in U)
    that is neither an integer nor beyond 2^52; else [3, 5, 2, ...]"""
    ns = phys["ns"]
    fq, fr = L.si_factor(U, L.D_QTY), L.si_factor(U, L.D_RATE)
    cands = [[3, 5, 2, 7, 4, 6], [1, 1, 1, 1, 1, 1], [7, 11, 13, 17, 19, 23], [1, 2, 1, 2, 1, 2], [1000003, 999983, 1000033, 1000037, 1000039, 1000081],
             [1, 0, 1, 0, 1, 0], [0, 1, 0, 1, 0, 1]]
    for c in cands:
        xi = c[:ns]
        orc = L.oracle_rate(phys, [Fraction(v) * fq for v in xi])
        for s_ in range(ns):
            r = orc[s_][0] / fr
            if not chem[s_] and r != 0 and abs(r) < 2 ** 52 and abs(r - round(r)) > Fraction(1, 1000) * max(abs(r), 1) and abs(orc[s_][1] / fr) < 2 ** 52:
                return xi
    return cands[0][:ns]


def run_dxdtf(ctx, jobs):
    ops = []
    for jb in jobs:
        U = jb["U"]
        fq = L.si_factor(U, L.D_QTY)
        jb["xU"] = [float(v / fq) for v in jb["x_si"]]
        ops.append({"op": "dxdtf", "sys": jb["sysj"], "U": L.sysj(U), "x": [rstr(v) for v in jb["xU"]]})
    res = ctx.model.run(ops)
    for jb, m in zip(jobs, res):
        phys, system, U = jb["phys"], jb["system"], jb["U"]
        ns = phys["ns"]
        fq, fr = L.si_factor(U, L.D_QTY), L.si_factor(U, L.D_RATE)
        x_si = [Fraction(v) * fq for v in jb["xU"]]
        orc = L.oracle_rate(phys, x_si)
        chem = list(jb["exp_chem"]) if jb.get("exp_chem") is not None else [int(v) for v in system.chemostats]
        case = {"kind": "dxdtf", "desc": jb["desc"], "phys": phys_dump(phys), "U": list(U), "xU": jb["xU"], "chem": [int(v) for v in system.chemostats],
                "exp_chem": chem}
        pfx = jb.get("keypfx", "")
        if jb.get("edits"):
            case["edits"] = jb["edits"]
        try:
            f = system.make_dxdtf(L.us_obj(U))
            out = [float(v) for v in f(0.0, list(jb["xU"]))]
        except Exception as ex:  # noqa
            out = ("error", type(ex).__name__)
        ctx.case((job_fp(jb), "dxdtf"), nontrivial=any(mg != 0 for _, mg in orc),
                 sample={"op": "make_dxdtf", "impl": out if out and out[0] != "error" else str(out), "spec": [float(r / fr) for r, _ in orc]})
        ctx.count("dxdtf")
        if out and out[0] == "error":
            ctx.violation(pfx + "dxdtf:raises", "make_dxdtf()(t, x) raised %s on a system of size 1%s" % (out[1], edits_text(jb)), case, impl=out[1])
        else:
            for s in range(ns):
                exp, mag = (Fraction(0), Fraction(0)) if chem[s] else orc[s]
                if not close(out[s], exp / fr, mag / fr, rel=TOL):
                    ctx.violation(pfx + "dxdtf:value", "make_dxdtf()(t,x)[%d] = %r (in %s), the rate law gives %r%s" % (s, out[s], U, float(exp / fr), edits_text(jb)),
                                  dict(case, s=s), impl=out[s], expected=rstr(exp / fr))
                    break
        if m is not None:
            if ("error" in m) != (out and out[0] == "error"):
                ctx.disagree("dxdtf", case, str(out), m)
            elif "ok" in m:
                mv = [rparse(v) for v in m["ok"]]
                if len(mv) != len(out) or not all(close(o, q, orc[s][1] / fr, rel=TOL) for s, (o, q) in enumerate(zip(out, mv))):
                    ctx.disagree("dxdtf", case, out, m["ok"])
        if not (out and out[0] == "error") and not jb.get("edits"):
            # ---- the returned closure is a function of (t, x): call it again, on other states, and integrate two steps
            mx = max([abs(v) for v in jb["xU"]] + [0.0])
            x2 = [v * 1.5 + 0.25 * mx for v in jb["xU"]]
            o2 = check_dxdtf_values(ctx, f, x2, phys, chem, U, dict(case, sequence="second call"), "dxdtf-repeat", "second call of the function returned by make_dxdtf")
            ctx.count("dxdtf_repeated_calls")
            if o2 is not None:
                mo = max([abs(v) for v in o2] + [0.0])
                h = (0.05 * max(abs(v) for v in x2) / mo) if (mo > 0 and mo < 1e300) else 0.0     # a step that moves amounts by <= 5 %
                x3 = [a + h * b for a, b in zip(x2, o2)]
                o3 = check_dxdtf_values(ctx, f, x3, phys, chem, U, dict(case, sequence="third call (after an explicit step)"), "dxdtf-repeat",
                                        "third call of the function returned by make_dxdtf")
                if o3 is not None:
                    again = [float(v) for v in f(0.0, list(jb["xU"]))]
                    if again != out:
                        ctx.violation("dxdtf-repeat:pure", "the function returned by make_dxdtf gives %r, then %r for the same (t, x)" % (out, again), case,
                                      impl=again, expected=out)
            # ---- an INTEGER-typed state (list of int, int64 array) denotes the same amounts as the float one
            xi = pick_integer_state(phys, chem, U)
            check_dxdtf_values(ctx, f, xi, phys, chem, U, dict(case, sequence="integer-typed state"), "dxdtf-int",
                               "the function returned by make_dxdtf called with the list of int %r" % xi)
            check_dxdtf_values(ctx, f, xi, phys, chem, U, dict(case, sequence="integer-typed state"), "dxdtf-int",
                               "the function returned by make_dxdtf called with numpy.array(%r, dtype=int64)" % xi, int64=True)
            ctx.count("dxdtf_integer_typed_calls", 2)
            # ---- object re-use: assign a rate constant through the property setter, ask for the closure again
            if phys["reacs"]:
                sys2 = system.copy()
                rec = pick_reassignment(ctx.rng, phys, sys2)
                phys2 = apply_reassignment(phys, sys2, rec)
                case2 = dict(case, kind="reuse-dxdtf", reassign=rec)
                ctx.case((job_fp(jb), "reuse-dxdtf", rec["reaction"], rec["side"]), nontrivial=True)
                ctx.count("reuse_dxdtf")
                try:
                    f2 = sys2.make_dxdtf(L.us_obj(U))
                except Exception as ex:  # noqa
                    ctx.violation("reuse:raises", "make_dxdtf after assigning %s raised %s" % (rec["side"], type(ex).__name__), case2)
                    f2 = None
                if f2 is not None:
                    check_dxdtf_values(ctx, f2, jb["xU"], phys2, chem, U, case2, "reuse-dxdtf",
                                       "make_dxdtf after `reaction.%s = %r` (the closure had been built once before the assignment)" % (rec["side"], rec["value"]))


def draw_time_forms(rng, script_units, dt_nat, nsteps):
    """how `time_step` and `t_max` are written: bare numbers in the script's time unit, or text / UnitValue quantities in a
    time unit OTHER than the script's (ms, min, h, ...); returns a JSON-able recipe with the exact SI values"""
    def one(nat):
        r = rng.random()
        if r < 0.35:
            v = L.nice_float(Fraction(nat) / L.si_time(script_units[1]))
            return {"form": "bare", "value": v, "unit": script_units[1], "si": rstr(Fraction(v) * L.si_time(script_units[1]))}
        tu = rng.choice([u for u in L.TIME if u != script_units[1]])
        v = L.nice_float(Fraction(nat) / L.si_time(tu))
        return {"form": "text" if r < 0.7 else "unitvalue", "value": v, "unit": tu, "si": rstr(Fraction(v) * L.si_time(tu))}
    return {"time_step": one(dt_nat), "t_max": one(Fraction(dt_nat) * (nsteps + 2))}


def time_arg(rec):
    from strengths.units import UnitValue
    if rec["form"] == "bare":
        return rec["value"]
    if rec["form"] == "text":
        return "%r %s" % (rec["value"], rec["unit"])
    return UnitValue(rec["value"], rec["unit"])


def euler_run(system, script_units, forms, nsteps):
    """run `nsteps` Euler iterations with on_iteration sampling; `forms` = draw_time_forms(...) (or a plain dt in seconds for
    old replay files); returns (script, trajectory); the SI time step the description denotes is forms["time_step"]["si"]"""
    import strengths as st
    if not isinstance(forms, dict):
        dt = L.nice_float(Fraction(forms) / L.si_factor(script_units, L.D_TIME))
        forms = {"time_step": {"form": "bare", "value": dt, "unit": script_units[1]},
                 "t_max": {"form": "bare", "value": dt * (nsteps + 2), "unit": script_units[1]}}
    script = st.RDScript(system, t_sample=[0], time_step=time_arg(forms["time_step"]), t_max=time_arg(forms["t_max"]),
                         sampling_policy="on_iteration", rng_seed=1, units_system=L.us_obj(script_units))
    eng = common.load_engine("euler", "plain")
    eng.setup(script)
    for _ in range(nsteps):
        eng.iterate()
    out = eng.get_output()
    eng.finalize()
    return script, out


def euler_rerun(script, nsteps):
    """run the SAME script object again (after the caller modified it)"""
    eng = common.load_engine("euler", "plain")
    eng.setup(script)
    for _ in range(nsteps):
        eng.iterate()
    out = eng.get_output()
    eng.finalize()
    return out


def run_euler(ctx, jobs):
    """samples 0 and 1 of an Euler run: x1 == x0 + dt*rate(x0); marshalling and one model step"""
    ops, meta = [], []
    for jb in jobs:
        phys, system = jb["phys"], jb["system"]
        n, ns = phys["n"], phys["ns"]
        Us = jb["Uscript"]
        forms = draw_time_forms(ctx.rng, Us, jb["dt_nat"], 2)
        ctx.count("time_step_" + forms["time_step"]["form"])
        case = {"kind": "euler", "desc": jb["desc"], "phys": phys_dump(phys), "state": jb["state"], "Uscript": list(Us), "dt_nat": jb["dt_nat"],
                "time_forms": forms, "chem": [int(v) for v in system.chemostats]}
        pfx = jb.get("keypfx", "")
        if jb.get("edits"):
            case["edits"] = jb["edits"]
        try:
            script, traj = euler_run(system, Us, forms, 2)
        except Exception as ex:  # noqa
            ctx.violation(pfx + "euler:raises", "Euler run raised %s: %s" % (type(ex).__name__, str(ex)[:200]), case, impl=type(ex).__name__)
            continue
        ss = engine_io.samples(traj)
        tu, du = L.sys_of(traj.t.units.sys), L.sys_of(traj.data.units.sys)
        fq, ft = L.si_factor(du, L.D_QTY), L.si_factor(tu, L.D_TIME)
        chem = [int(v) for v in system.chemostats]
        fp = job_fp(jb)
        if len(ss) < 2:
            ctx.violation(pfx + "euler:samples", "an on_iteration Euler run of 2 iterations recorded %d samples" % len(ss), case, impl=len(ss))
            continue
        import math
        bad = [(k, e) for k in range(len(ss)) for e, v in enumerate(ss[k][1]) if not math.isfinite(v)]
        if bad or not all(math.isfinite(s_[0]) for s_ in ss):
            ctx.violation(pfx + "euler:non-finite", "the Euler trajectory of a valid finite system holds a non-finite number (sample %d, entry %d: %r); "
                          "x0 + dt*rate(x0) is finite" % (bad[0][0], bad[0][1], ss[bad[0][0]][1][bad[0][1]]) if bad else "a sample time is not finite",
                          case, impl=[repr(v) for v in ss[min(1, len(ss) - 1)][1]][:12])
            continue
        dt_si = rparse(forms["time_step"]["si"])          # what the description says, not what the script object holds
        for kstep in range(len(ss) - 1):
            if not all(abs(v) < 1e150 for v in ss[kstep][1] + ss[kstep + 1][1]):
                ctx.count("euler_blowup_skipped")     # explicit Euler with a coarse step diverged (inf/nan): nothing to compare
                break
            x0 = [Fraction(v) * fq for v in ss[kstep][1]]
            x1 = [Fraction(v) * fq for v in ss[kstep + 1][1]]
            orc = L.oracle_rate(phys, x0)
            ctx.case((fp, "euler", kstep), nontrivial=any(m != 0 for _, m in orc),
                     sample={"op": "euler", "x0": [float(v) for v in x0][:4], "x1": [float(v) for v in x1][:4]} if kstep == 0 else None)
            ctx.count("euler_steps")
            for e in range(ns * n):
                exp = x0[e] if chem[e] else x0[e] + dt_si * orc[e][0]
                mag = abs(x0[e]) + dt_si * orc[e][1]
                if not close(float(x1[e]), exp, mag, rel=TOL):
                    ctx.violation(pfx + "euler-step:" + phys["space"]["kind"],
                                  "Euler sample %d entry %d is %r, x0 + dt*rate(x0) = %r (SI molecules)%s" % (kstep + 1, e, float(x1[e]), float(exp), edits_text(jb)),
                                  dict(case, step=kstep, e=e), impl=float(x1[e]), expected=rstr(exp))
                    break
        # time stamps: t_k = k*dt
        for kstep in range(len(ss)):
            if not close(ss[kstep][0] * float(ft), kstep * dt_si, dt_si, rel=1e-9):
                ctx.violation("euler-time", "Euler sample %d is stamped t=%r s, expected %r" % (kstep, ss[kstep][0] * float(ft), float(kstep * dt_si)), case)
                break
        # ---- object re-use: the same script object, one rate constant re-assigned through the property setter, run again
        if phys["reacs"] and jb.get("reuse_script"):
            rec = pick_reassignment(ctx.rng, phys, script.system)
            phys2 = apply_reassignment(phys, script.system, rec)
            case2 = dict(case, kind="reuse-euler", reassign=rec)
            ctx.case((fp, "reuse-euler", rec["reaction"], rec["side"]), nontrivial=True)
            ctx.count("reuse_script")
            try:
                traj2 = euler_rerun(script, 2)
                ss2 = engine_io.samples(traj2)
                fq2 = L.si_factor(L.sys_of(traj2.data.units.sys), L.D_QTY)
                if len(ss2) >= 2 and all(abs(v) < 1e150 for v in ss2[0][1] + ss2[1][1]):
                    x0 = [Fraction(v) * fq2 for v in ss2[0][1]]
                    x1 = [Fraction(v) * fq2 for v in ss2[1][1]]
                    orc2 = L.oracle_rate(phys2, x0)
                    for e in range(ns * n):
                        exp = x0[e] if chem[e] else x0[e] + dt_si * orc2[e][0]
                        if not close(float(x1[e]), exp, abs(x0[e]) + dt_si * orc2[e][1], rel=TOL):
                            ctx.violation("reuse-euler", "after `script.system.network.reactions[%d].%s = %r` and a second run of the same script, Euler sample 1 "
                                          "entry %d is %r, x0 + dt*rate(x0) with the new constant = %r" % (rec["reaction"], rec["side"], rec["value"], e, float(x1[e]), float(exp)),
                                          dict(case2, e=e), impl=float(x1[e]), expected=rstr(exp))
                            break
            except Exception as ex:  # noqa
                ctx.violation("reuse:raises", "second run of the script raised %s" % type(ex).__name__, case2)
            continue      # the script object no longer describes `desc`: no marshalling correspondence for this job
        # correspondence: marshalling + one model step in ENGINE units
        arr = engine_io.system_arrays(script, False)
        Ue = L.sys_of(arr["us"])
        ops.append({"op": "marshal", "sys": jb["sysj"], "U": L.sysj(Ue)})
        meta.append(("marshal", jb, arr, case, None))
        # the hypothesis of the any-units theorems (Props/C01Units.lean: DimWF / EdgesWF) holds of the system the package built
        ops.append({"op": "pysys_dimwf", "sys": jb["sysj"]})
        meta.append(("pysys_dimwf", jb, arr, case, None))
        eng = engine_io.eng_json(arr, edge=None)
        fqe = L.si_factor(Ue, L.D_QTY)
        x0e = [float(Fraction(v) * fq / fqe) for v in ss[0][1]]
        dte = float(script.time_step.convert(arr["us"]).value)
        ops.append({"op": "euler_step", "eng": eng, "x": [rstr(v) for v in x0e], "dt": rstr(dte)})
        meta.append(("euler_step", jb, arr, case, (x0e, [float(Fraction(v) * fq / fqe) for v in ss[1][1]], dte)))
        # the same step from the MODEL's marshalling (pyMarshal), decoded by the engine's index formulas (Props/C01Marshal.lean)
        hs = [eng["space"]["edge"]] if arr["space"]["kind"] == "grid" else list(eng["space"]["edge"])
        ops.append({"op": "marshal_dxdt", "sys": jb["sysj"], "U": L.sysj(Ue), "edge": hs, "x": [rstr(v) for v in x0e]})
        meta.append(("marshal_dxdt", jb, arr, case, (x0e, [float(Fraction(v) * fq / fqe) for v in ss[1][1]], dte)))
    res = ctx.model.run(ops)
    for (kind, jb, arr, case, extra), m in zip(meta, res):
        if m is None:
            continue
        if kind == "marshal":
            mo = m["ok"]
            okm = (mo["ns"], mo["nr"], mo["nenv"]) == (arr["ns"], arr["nr"], arr["nenv"]) and mo["sub"] == arr["sub"] and mo["sto"] == arr["sto"]
            for key in ("k", "D"):
                mv = [rparse(v) for v in mo[key]]
                okm = okm and len(mv) == len(arr[key]) and all(close(a, b, rel=TOL) for a, b in zip(arr[key], mv))
            vols = arr["vol"] if isinstance(arr["vol"], list) else [arr["vol"]] * len(mo["vol"])
            okm = okm and all(close(a, rparse(b), rel=TOL) for a, b in zip(vols, mo["vol"]))
            ctx.count("marshal")
            if not okm:
                ctx.disagree("marshal", case, {k: arr[k] for k in ("k", "sub", "sto", "D", "vol")}, mo)
        elif kind == "pysys_dimwf":
            ctx.count("pysys_dimwf")
            if m.get("ok") is not True:
                ctx.disagree("pysys_dimwf", case, "system accepted by the package", m)
        elif kind == "marshal_dxdt":
            x0e, x1e, dt = extra
            md = [rparse(v) for v in m["ok"]]
            ctx.count("marshal_dxdt")
            if len(md) != len(x1e) or not all(close(a, Fraction(c) + d * Fraction(dt), abs(Fraction(c)) + abs(d) * Fraction(dt), rel=TOL)
                                              for a, c, d in zip(x1e, x0e, md)):
                ctx.disagree("marshal_dxdt", case, x1e, [rstr(Fraction(c) + d * Fraction(dt)) for c, d in zip(x0e, md)])
        else:
            x0e, x1e, dt = extra
            mx = [rparse(v) for v in m["ok"]["x"]]
            md = [rparse(v) for v in m["ok"]["dxdt"]]
            if len(mx) != len(x1e) or not all(close(a, b, abs(Fraction(c)) + abs(d) * Fraction(dt), rel=TOL) for a, b, c, d in zip(x1e, mx, x0e, md)):
                ctx.disagree("euler_step", case, x1e, m["ok"]["x"])


def _k_differs(phys):
    return any(len(set(r["kf"])) > 1 or len(set(r["kr"])) > 1 for r in phys["reacs"])


# directed configurations (rejection sampling over the random generator): each names a class of inputs on which a particular
# kind of slip shows, so that every quick run contains them whatever the seed
DIRECTED = {
    "graph-hetero-edge": ("graph", False, lambda p: any(
        p["vol"][a] != p["vol"][b] and any(p["D"][s][p["env"][a]] != p["D"][s][p["env"][b]] and p["D"][s][p["env"][a]] != 0 and p["D"][s][p["env"][b]] != 0
                                          for s in range(p["ns"])) for (a, b, _, _) in p["space"]["edges"])),
    "grid-y-periodic-z-reflecting": ("grid", False, lambda p: p["space"]["d"] >= 2 and p["space"]["py"] and not p["space"]["pz"] and any(any(v != 0 for v in row) for row in p["D"])),
    "grid-z-periodic-y-reflecting": ("grid", False, lambda p: p["space"]["d"] >= 2 and p["space"]["pz"] and not p["space"]["py"] and any(any(v != 0 for v in row) for row in p["D"])),
    "grid-x-periodic-only": ("grid", False, lambda p: p["space"]["w"] >= 2 and p["space"]["px"] and not p["space"]["py"] and any(any(v != 0 for v in row) for row in p["D"])),
    "grid-several-environments": ("grid", False, lambda p: len(set(p["env"])) > 1 and _k_differs(p)),
    "graph-several-environments": ("graph", False, lambda p: len(set(p["env"])) > 1 and _k_differs(p)),
    "one-cell-not-first-environment": (None, True, lambda p: p["env"][0] != 0 and _k_differs(p)),
    "one-cell-high-order": (None, True, lambda p: any(sum(r["sub"]) >= 2 and any(v != 0 for v in r["kf"]) for r in p["reacs"])),
}


def make_job(ctx, rng, kind=None, size1=False, allow_parallel=False, max_cells=8, directed=None):
    if directed is not None:
        kind, size1, pred = DIRECTED[directed]
        best = None
        for _ in range(400):
            seed = rng.randrange(2 ** 62)
            import random as _random
            cand = L.gen_system(_random.Random(seed), kind=kind, max_cells=1 if size1 else max_cells, chem_p=0.1, min_env=2)
            if pred(cand[1]):
                best = seed
                break
        ctx.count("directed_" + directed + ("" if best is not None else "_not_found"))
        if best is not None:
            import random as _random
            sub = _random.Random(best)
            desc, phys, info = L.gen_system(sub, kind=kind, max_cells=1 if size1 else max_cells, chem_p=0.1, min_env=2)
            return finish_job(rng, desc, phys, info)
    return make_random_job(ctx, rng, kind, size1, allow_parallel, max_cells)


def make_random_job(ctx, rng, kind=None, size1=False, allow_parallel=False, max_cells=8):
    # one-cell systems (the only ones make_dxdtf accepts): mostly several environments, so that the cell is often not in the first
    desc, phys, info = L.gen_system(rng, kind=kind, max_cells=1 if size1 else max_cells, chem_p=0.2, allow_parallel=allow_parallel,
                                    min_env=(2 if (size1 and rng.random() < 0.7) else 1))
    return finish_job(rng, desc, phys, info)


def finish_job(rng, desc, phys, info):
    system = L.build_system(desc)
    us = L.rand_sys(rng)
    vals, _ = L.rand_state(rng, phys, us)
    as_ua = rng.random() < 0.5
    set_state(system, vals, us, as_ua)
    x_si = L.state_si(system.state)
    return {"desc": desc, "phys": phys, "info": info, "system": system, "x_si": x_si,
            "state": {"vals": vals, "units": list(us), "as_unitarray": as_ua}, "U": L.rand_sys(rng),
            "Uscript": L.rand_sys(rng), "dt_nat": rng.choice([Fraction(1, 64), Fraction(1, 256), Fraction(1, 16)]),
            "parallel": L.has_parallel_edges(phys)}


def run(ctx):
    rng = ctx.rng
    out_of_time(ctx)          # start the harness clock
    nsys = ctx.n(44, 900)
    jobs = []
    for k in range(nsys):
        if out_of_time(ctx):
            ctx.notes.append("stopped generating after %d systems (time budget)" % k)
            break
        size1 = (k % 3 == 2)
        kind = "grid" if k % 2 == 0 else "graph"
        names = sorted(DIRECTED)
        jb = make_job(ctx, rng, kind=kind, size1=size1, allow_parallel=False, max_cells=ctx.n(8, 16),
                      directed=(names[k] if k < len(names) else (names[k % len(names)] if k % 10 == 0 else None)))
        jb["reuse_script"] = (k % 3 == 1)
        jobs.append(jb)
        if len(jobs) >= 22:
            process(ctx, jobs)
            jobs = []
    if jobs:
        process(ctx, jobs)
    # engine-only: graphs with parallel edges and self-loops (the statement restricts only the Python graph functions)
    pj = []
    for k in range(ctx.n(6, 150)):
        if out_of_time(ctx, 8):
            break
        jb = make_job(ctx, rng, kind="graph", allow_parallel=True)
        pj.append(jb)
    if pj:
        for jb in pj:
            jb["sysj"] = L.sys_json(jb["system"], edges_si=jb["phys"]["edge"])
        run_euler(ctx, pj)
    ctx.notes.append("any engine units system: Props/C01Units.lean (marshal_euler_general_units_graph/_grid, kinetics_marshal_euler_agree_*_units) "
                     "under DimWF / EdgesWF; op pysys_dimwf evaluates that hypothesis on every system the package built; "
                     "Props/C01Build.lean: buildSystem_wf (every description the builders accept gives a DimWF system) and the composite "
                     "built_marshal_euler_general_units_grid/_graph")
    ctx.notes.append("partial theorems: see Props/C01.lean header (grid statements carry the geometry hypotheses PyGridOK / EngGridOK)")


def process(ctx, jobs):
    run_kinetics(ctx, jobs)
    run_dxdtf(ctx, [jb for jb in jobs if jb["phys"]["n"] == 1])
    run_euler(ctx, jobs)
    # ---- edit-then-reuse of the space: the SAME system objects (built, evaluated by every route above), edited in place
    # through the public setters of the nested space objects, then judged again by the same oracle on the edited system
    if not hasattr(ctx, "_edit_counter"):
        ctx._edit_counter = {"grid": 0, "graph": 0}
    ej = [j2 for j2 in (edited_job(ctx, ctx.rng, jb, ctx._edit_counter) for jb in jobs) if j2 is not None]
    if ej:
        run_kinetics(ctx, ej)
        run_dxdtf(ctx, [jb for jb in ej if jb["phys"]["n"] == 1])
        run_euler(ctx, ej)


def replay(ctx, rec):
    case = rec.get("case", rec)
    phys = phys_load(case["phys"])
    system = L.build_system(case["desc"])
    if case.get("chem") is not None:
        system.chemostats = list(case["chem"])
    out = {"kind": case["kind"]}

    def redo_edits():
        """the recorded history: the built system is evaluated once, then edited in place (`phys` is the system AFTER the edits)"""
        if case.get("edits"):
            import strengths.kinetics as kin_
            try:
                kin_.compute_dstatedt(system)
            except Exception:  # noqa
                pass
            apply_edits(phys, system, case["edits"])
    if case["kind"] == "space-edit-setter":
        try:
            apply_edits(phys, system, case["edits"])
            return True, out
        except Exception as ex:  # noqa
            out.update(impl=repr(ex))
            return False, out
    if case["kind"] == "kinetics":
        st_ = case["state"]
        set_state(system, st_["vals"], tuple(st_["units"]), st_["as_unitarray"])
        redo_edits()
        x = L.state_si(system.state)
        U = tuple(case["U"])
        orc = L.oracle_rate(phys, x)
        n = phys["n"]
        chem = [int(v) for v in system.chemostats]
        if case.get("whole"):
            import strengths.kinetics as kin
            try:
                arr = kin.compute_dstatedt(system, None, True, L.us_obj(U))
                f = L.si_factor(L.sys_of(arr.units.sys), L.dim_of(arr.units.dim))
                vals = [Fraction(float(v)) * f for v in arr.value]
                ok = L.dim_of(arr.units.dim) == L.D_RATE and all(
                    close(float(v), Fraction(0) if chem[e] else orc[e][0], orc[e][1], rel=TOL) for e, v in enumerate(vals))
                out.update(impl=[float(v) for v in vals], expected=[0.0 if chem[e] else float(orc[e][0]) for e in range(len(vals))])
            except Exception as ex:  # noqa
                ok = False
                out.update(impl=repr(ex))
            return ok, out
        s, i = case["s"], case["i"]
        got = kinetics_entry(system, s, i, case.get("apply", False), U)
        exp, mag = orc[s * n + i]
        out.update(impl=(got[1] if got[0] == "error" else {"si": float(got[0]), "dim": list(got[1]), "sys": list(got[2])}), expected=float(exp))
        ok = got[0] != "error" and tuple(got[1]) == L.D_RATE and tuple(got[2]) == U and close(float(got[0]), exp, mag, rel=TOL)
        return ok, out
    if case["kind"] in ("reuse-dxdtf", "reuse-euler"):
        rec = case["reassign"]
        chem = list(case.get("exp_chem") or [int(v) for v in system.chemostats])
        if case["kind"] == "reuse-dxdtf":
            U = tuple(case["U"])
            system.make_dxdtf(L.us_obj(U))            # the first request for the closure
            sys2 = system.copy()
            phys2 = apply_reassignment(phys, sys2, rec)
            fq, fr = L.si_factor(U, L.D_QTY), L.si_factor(U, L.D_RATE)
            orc = L.oracle_rate(phys2, [Fraction(v) * fq for v in case["xU"]])
            res = [float(v) for v in sys2.make_dxdtf(L.us_obj(U))(0.0, list(case["xU"]))]
            ok = all(close(res[s], (Fraction(0) if chem[s] else orc[s][0]) / fr, orc[s][1] / fr, rel=TOL) for s in range(phys["ns"]))
            out.update(impl=res, expected=[0.0 if chem[s] else float(orc[s][0] / fr) for s in range(phys["ns"])])
            return ok, out
        st_ = case["state"]
        set_state(system, st_["vals"], tuple(st_["units"]), st_["as_unitarray"])
        forms = case.get("time_forms") or rparse(case["dt_nat"])
        script, _ = euler_run(system, tuple(case["Uscript"]), forms, 2)
        phys2 = apply_reassignment(phys, script.system, rec)
        traj2 = euler_rerun(script, 2)
        ss = engine_io.samples(traj2)
        fq = L.si_factor(L.sys_of(traj2.data.units.sys), L.D_QTY)
        dt_si = rparse(forms["time_step"]["si"]) if isinstance(forms, dict) else \
            Fraction(float(script.time_step.value)) * L.si_factor(L.sys_of(script.time_step.units.sys), L.D_TIME)
        x0 = [Fraction(v) * fq for v in ss[0][1]]
        x1 = [Fraction(v) * fq for v in ss[1][1]]
        orc = L.oracle_rate(phys2, x0)
        exp = [x0[e] if chem[e] else x0[e] + dt_si * orc[e][0] for e in range(len(x0))]
        ok = all(close(float(a), b, abs(c) + dt_si * m[1], rel=TOL) for a, b, c, m in zip(x1, exp, x0, orc))
        out.update(impl=[float(v) for v in x1], expected=[float(v) for v in exp])
        return ok, out
    if case["kind"] == "dxdtf":
        redo_edits()
        U = tuple(case["U"])
        fq, fr = L.si_factor(U, L.D_QTY), L.si_factor(U, L.D_RATE)
        x_si = [Fraction(v) * fq for v in case["xU"]]
        orc = L.oracle_rate(phys, x_si)
        chem = list(case.get("exp_chem") or [int(v) for v in system.chemostats])
        try:
            f = system.make_dxdtf(L.us_obj(U))
            res = [float(v) for v in f(0.0, list(case["xU"]))]
            ok = all(close(res[s], (Fraction(0) if chem[s] else orc[s][0]) / fr, orc[s][1] / fr, rel=TOL) for s in range(phys["ns"]))
            out.update(impl=res, expected=[0.0 if chem[s] else float(orc[s][0] / fr) for s in range(phys["ns"])])
            if ok and case.get("x_call") is not None:
                # a later call of the same closure (the recorded failing call)
                xc = case["x_call"]
                orc2 = L.oracle_rate(phys, [Fraction(v) * fq for v in xc])
                mx = max([abs(v) for v in case["xU"]] + [0.0])
                f(0.0, [v * 1.5 + 0.25 * mx for v in case["xU"]])
                res2 = [float(v) for v in f(0.0, __import__("numpy").array(list(xc), dtype="int64") if case.get("x_call_int64") else list(xc))]
                ok = all(close(res2[s], (Fraction(0) if chem[s] else orc2[s][0]) / fr, orc2[s][1] / fr, rel=TOL) for s in range(phys["ns"]))
                out.update(later_call=res2, later_expected=[0.0 if chem[s] else float(orc2[s][0] / fr) for s in range(phys["ns"])])
        except Exception as ex:  # noqa
            ok = False
            out.update(impl=repr(ex))
        return ok, out
    if case["kind"] == "euler":
        st_ = case["state"]
        set_state(system, st_["vals"], tuple(st_["units"]), st_["as_unitarray"])
        redo_edits()
        forms = case.get("time_forms") or rparse(case["dt_nat"])
        script, traj = euler_run(system, tuple(case["Uscript"]), forms, 2)
        ss = engine_io.samples(traj)
        fq = L.si_factor(L.sys_of(traj.data.units.sys), L.D_QTY)
        dt_si = rparse(forms["time_step"]["si"]) if isinstance(forms, dict) else \
            Fraction(float(script.time_step.value)) * L.si_factor(L.sys_of(script.time_step.units.sys), L.D_TIME)
        chem = [int(v) for v in system.chemostats]
        ok = True
        for kstep in range(len(ss) - 1):
            x0 = [Fraction(v) * fq for v in ss[kstep][1]]
            x1 = [Fraction(v) * fq for v in ss[kstep + 1][1]]
            orc = L.oracle_rate(phys, x0)
            exp = [x0[e] if chem[e] else x0[e] + dt_si * orc[e][0] for e in range(len(x0))]
            ok = ok and all(close(float(a), b, abs(c) + dt_si * m[1], rel=TOL) for a, b, c, m in zip(x1, exp, x0, orc))
            out["step%d" % kstep] = {"impl": [float(v) for v in x1], "expected": [float(v) for v in exp]}
        return ok, out
    return False, {"note": "unknown case kind"}
