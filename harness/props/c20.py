"""C20 — Invalid input is rejected, never silently accepted.

Theorems: lean/Strengths/Props/C20.lean (tables regenerated from the sources: groups Validation, IndexPy, Network, Units).
Generator: a VALID random model as a nested dictionary (script -> system -> network/species/reactions, grid or graph
space, units at every level, aliases) that `rdscript_from_dict` accepts; then ONE fault of one class of the statement is
injected at one of the places where it can occur.  Oracle (Spec, written from the documentation, independent of the
code and of the model): the faulted build must raise; for positional accessors every out-of-range index / triple must
raise and every in-range one must read / write exactly the entry `species*size + (x + y*w + z*w*h)` (state compared
before / after).  Correspondence: the model's answer for the faulted component (op `validate`) against raise-or-not
of the real code.
Call histories (`units_object_histories`): objects the package hands out are the caller's; editing them in place must never change
which later quantities a field refuses (same oracle: dimension of the text differs from the field's -> exception).
"""
import copy, itertools, os
from fractions import Fraction
from common import frac, rstr, rparse, close, CheckBroken

ID = "C20"
LEAN_TARGETS = ["Strengths.Props.C20"]
PROP_FILES = ["Strengths/Props/C20.lean"]
GEN_GROUPS = ["Validation", "IndexPy", "Network", "Units", "EngineCpp", "CoarsePy"]
RULE = ("valid nested script dictionaries (1-3 species, 0-3 reactions, 1-3 environments, grid w,h,d in 1..3 or graph of 1-6 nodes, "
        "units declared at random levels, random aliases, scalar / text / per-environment quantities) x one injected fault "
        "(class x location); exhaustive positional sweep: every linear index in [-size-2, ns*size+2] and every triple in "
        "[-2..w+1]x[-2..h+1]x[-2..d+1] on every grid <= 3^3 (thorough; quick: all shapes, 3 random species/accessor combos) and graphs <= 6 nodes; "
        "a case is non-trivial when the input is invalid or addresses an entry; distinct by (class, location, model shape); "
        "call histories: a units object handed out by one of 13 public calls (parse_units, Units(text), UnitValue/UnitArray .units, stored field "
        "units, the *_units_dimensions helpers, ...) is edited in place by its owner (5 kinds of edit), optionally used, then quantities written "
        "with the same unit text go to 14 fields x constructor/setter x 6 quantity forms: every one of another dimension than its field must raise")
ASSUMPTIONS = [
    "a negative environment index is not counted as 'beyond the list' (Python tuple indexing wraps it); only indices >= number of environments are demanded to raise",
    "positions are Python ints (floats are truncated by int() in the code; not generated)",
]
TRUSTED = ["the faulted component decides the outcome of the whole build because exactly one fault is injected into a model the real code accepts"]

SPACE = ["km", "m", "dm", "cm", "mm", "dmm", "cmm", "µm", "nm", "pm", "fm"]
TIME = ["h", "min", "s", "ds", "cs", "ms", "µs", "ns", "ps", "fs"]
QTY = ["kmol", "mol", "dmol", "cmol", "mmol", "µmol", "nmol", "pmol", "fmol", "molecule"]
DEFAULT_SYS = ("µm", "s", "molecule")

# ---- Spec tables written from documentation/json_and_dict_doc.rst (+ the aliases it lists and the code's docstrings)
SPEC_KEYS = {
    "rdscript_from_dict": [["system"], ["t_sample"], ["time_step", "time step", "dt"], ["t_max", "tmax"], ["sampling_policy", "sampling policy"],
                           ["sampling_interval", "sampling interval"], ["rng_seed", "rng seed", "seed"],
                           ["init_state_processing", "init state processing"], ["units", "units_system", "units system", "u"]],
    "rdsystem_from_dict": [["network", "rdnetwork"], ["space", "rdspace"], ["state"], ["chemostats"], ["units", "units_system", "units system", "u"]],
    "rdnetwork_from_dict": [["species"], ["reactions"], ["environments", "env"], ["units", "units_system", "units system", "u"]],
    "species_from_dict": [["label", "l"], ["D", "diff_coef", "diffusion_coefficient", "diff coef", "diffusion coefficient"],
                          ["density", "concentration", "dens", "conc", "C"], ["chstt", "chemostat"], ["units", "units_system", "units system", "u"]],
    "reaction_from_dict": [["stoichiometry", "eq", "sto", "equation"], ["label", "l"], ["k+", "kf"], ["k-", "kr"], ["units", "units_system", "units system", "u"]],
    "rdgridspace_from_dict": [["type"], ["w", "width"], ["h", "height"], ["d", "depth"],
                              ["cell_env", "cell_environments", "cell environments", "environments", "env"], ["cell_volume", "cell_vol"],
                              ["boundary_conditions"], ["units", "units_system", "units system", "u"]],
    "rdgraphspace_from_dict": [["type"], ["nodes"], ["edges"], ["units", "units_system", "units system", "u"]],
    "rdgraphspacenode_from_dict": [["volume", "vol"], ["environment", "env"], ["units", "units_system", "units system", "u"]],
    "rdgraphspaceedge_from_dict": [["nodes"], ["surface"], ["distance"], ["units", "units_system", "units system", "u"]],
    "unitssystem_from_dict": [["space"], ["time"], ["quantity"]],
    "unitarray_from_dict": [["value"], ["units"]],
}
SPEC_MANDATORY = {"rdscript_from_dict": ["system", "t_sample"], "rdsystem_from_dict": ["network"], "rdnetwork_from_dict": ["species"],
                  "species_from_dict": ["label"], "reaction_from_dict": ["stoichiometry"], "unitarray_from_dict": ["value", "units"],
                  "rdgraphspace_from_dict": ["nodes", "edges"], "rdgraphspaceedge_from_dict": ["nodes"]}
# physical dimension (length, time, amount) of every quantity field
SPEC_DIM = {"Species.D": (2, -1, 0), "Species.density": (-3, 0, 1), "RDGridSpace.cell_vol": (3, 0, 0), "RDGraphSpaceNode.volume": (3, 0, 0),
            "RDGraphSpaceEdge.surface": (2, 0, 0), "RDGraphSpaceEdge.distance": (1, 0, 0), "RDScript.t_sample": (0, 1, 0),
            "RDScript.time_step": (0, 1, 0), "RDScript.t_max": (0, 1, 0), "RDScript.sampling_interval": (0, 1, 0), "RDSystem.state": (0, 0, 1)}
AXES = ["x", "y", "z"]
BOUNDARY = ["reflecting", "periodical"]
POLICIES = ["on_t_sample", "on_iteration", "on_interval", "no_sampling"]
MODES_DOC = ["auto", "none", "floor", "Poisson", "redist"]       # docstring of init_state_processing


def report(ctx, key, what, case, impl=None, expected=None):
    """forward the first failure of each key to the runner (which keeps 20), count all of them per key"""
    seen = ctx.__dict__.setdefault("_c20_seen", {})
    seen[key] = seen.get(key, 0) + 1
    ctx.count("viol:" + key)
    if seen[key] <= 1:
        ctx.violation(key, what, case, impl=impl, expected=expected)


def k_dim(n):
    return (3 * n - 3, -1, 1 - n)


def units_text(sys, dim):
    parts = []
    for sym, e in zip(sys, dim):
        if e != 0:
            parts.append(sym if e == 1 else "%s%d" % (sym, e))
    return ".".join(parts)


def sysj(s):
    return {"space": s[0], "time": s[1], "quantity": s[2]}


def rand_sys(rng):
    return (rng.choice(SPACE), rng.choice(TIME), rng.choice(QTY))


def alias(rng, fn, key):
    for s in SPEC_KEYS[fn]:
        if s[0] == key:
            return rng.choice(s) if rng.random() < 0.35 else key
    return key


def qty(rng, dim, allow_env=None):
    """a valid value for a quantity field of dimension dim: number, text with units, or per-environment dict"""
    v = float(rng.randint(0, 50)) / rng.choice([1, 2, 4])
    r = rng.random()
    if allow_env and r < 0.25:
        keys = list(allow_env) + ["default"]
        rng.shuffle(keys)
        return {k: qty(rng, dim) for k in keys[:rng.randint(1, len(keys))]}
    if r < 0.45:
        return v
    if r < 0.6:
        return typed(rng, v)
    return "%r %s" % (v, units_text(rand_sys(rng), dim))


NUM_TYPES = ["np.int64", "np.int32", "np.float32", "np.float64", "Fraction", "int", "arange-item"]


def typed(rng, v):
    """a marker for the number v given as another numeric type (all are `numbers.Number`); materialised by `build`"""
    t = rng.choice(NUM_TYPES)
    if t in ("np.int64", "np.int32", "int", "arange-item"):
        v = float(int(v))
    return ["__num__", t, v]


def materialize(x):
    """drop the generator's private keys and turn number markers into numbers of their type"""
    import numpy as np
    if isinstance(x, dict):
        cont = x.get("_containers") or {}
        out = {}
        for k, v in x.items():
            if isinstance(k, str) and k.startswith("_"):
                continue
            mv = materialize(v)
            if k in cont and isinstance(mv, list):       # the same sequence handed over in another container type
                mv = tuple(mv) if cont[k] == "tuple" else np.array(mv) if cont[k] == "ndarray" else mv
            out[k] = mv
        return out
    if isinstance(x, (list, tuple)):
        if len(x) == 3 and x[0] == "__num__":
            t, v = x[1], x[2]
            return {"np.int64": lambda: np.int64(int(v)), "np.int32": lambda: np.int32(int(v)), "np.float32": lambda: np.float32(v),
                    "np.float64": lambda: np.float64(v), "Fraction": lambda: Fraction(v), "int": lambda: int(v),
                    "arange-item": lambda: np.arange(int(v), int(v) + 2)[0]}[t]()
        return [materialize(v) for v in x]
    return x


_FILEDIR = [None]
_FILECOUNT = [0]
FILE_SEPS = [" ", ",", ", ", "\n", " \n", "\t", "\r\n"]
FILE_ENDS = ["", "", "", "\n", "\r\n", " ", ","]          # nothing after the last number (as ','.join writes it), or a terminator


def text_file(rng, script_files, values, end=None):
    """a text array file holding `values` (recorded in script_files: path -> content; written by `build`)"""
    import common
    if _FILEDIR[0] is None:
        _FILEDIR[0] = common.scratch_dir("verif_c20_files_")
    _FILECOUNT[0] += 1
    path = os.path.join(_FILEDIR[0], "array_%d.txt" % _FILECOUNT[0])
    sep = rng.choice(FILE_SEPS)
    content = sep.join(str(int(v)) for v in values) + (rng.choice(FILE_ENDS) if end is None else end)
    script_files[path] = content
    return path


def write_files(script):
    for path, content in (script.get("_files") or {}).items():
        os.makedirs(os.path.dirname(path), exist_ok=True)
        with open(path, "w", encoding="utf-8", newline="") as f:
            f.write(content)


def container(rng, d, key, kinds=("list", "list", "tuple", "ndarray")):
    """record in which container type the list stored under `key` is handed to the real code"""
    d.setdefault("_containers", {})[key] = rng.choice(kinds)


def maybe_units(rng, d, fn):
    r = rng.random()
    if r < 0.5:
        return
    key = alias(rng, fn, "units")
    if r < 0.62:
        d[key] = "default"
    elif r < 0.74:
        d[key] = "inherit"
    else:
        s = rand_sys(rng)
        full = sysj(s)
        keep = [k for k in full if rng.random() < 0.8]
        d[key] = {k: full[k] for k in keep}


# ---------------------------------------------------------------------------------------------
# valid models
# ---------------------------------------------------------------------------------------------
def gen_model(rng, want_space=None):
    files, expect = {}, {}
    ns = rng.randint(1, 3)
    labels = rng.sample(["A", "B", "C", "X1", "µ", "s_2"], ns)
    envs = rng.sample(["", "cyt", "mem", "nuc"], rng.randint(1, 3))
    species = []
    for l in labels:
        s = {alias(rng, "species_from_dict", "label"): l}
        if rng.random() < 0.8:
            s[alias(rng, "species_from_dict", "D")] = qty(rng, (2, -1, 0), envs)
        if rng.random() < 0.8:
            s[alias(rng, "species_from_dict", "density")] = qty(rng, (-3, 0, 1), envs)
        if rng.random() < 0.5:
            s[alias(rng, "species_from_dict", "chstt")] = rng.choice([True, False, 0, 1, {envs[0]: True}])
        maybe_units(rng, s, "species_from_dict")
        species.append(s)
    reactions = []
    for j in range(rng.randint(0, 3)):
        lhs = [(rng.randint(1, 2), rng.choice(labels)) for _ in range(rng.randint(0, 2))]
        rhs = [(rng.randint(1, 2), rng.choice(labels)) for _ in range(rng.randint(0, 2))]
        if rng.random() < 0.35:        # the same species written twice on one side (the coefficients add up)
            l0 = rng.choice(labels)
            if rng.random() < 0.5:
                lhs = [(rng.randint(1, 2), l0), (rng.randint(1, 2), l0)]
            else:
                rhs = [(rng.randint(1, 2), l0), (rng.randint(1, 2), l0)]
        n, m = sum(c for c, _ in lhs), sum(c for c, _ in rhs)
        eq = " + ".join("%d %s" % t for t in lhs) + " -> " + " + ".join("%d %s" % t for t in rhs)
        r = {alias(rng, "reaction_from_dict", "stoichiometry"): eq}
        if rng.random() < 0.8:
            r[alias(rng, "reaction_from_dict", "k+")] = qty(rng, k_dim(n), envs)
        if rng.random() < 0.6:
            r[alias(rng, "reaction_from_dict", "k-")] = qty(rng, k_dim(m), envs)
        if rng.random() < 0.5:
            r[alias(rng, "reaction_from_dict", "label")] = "r%d" % j
        maybe_units(rng, r, "reaction_from_dict")
        r["_orders"] = (n, m)
        r["_terms"] = (lhs, rhs)
        reactions.append(r)
    net = {"species": species}
    if reactions or rng.random() < 0.5:
        net["reactions"] = reactions
    ek = alias(rng, "rdnetwork_from_dict", "environments")
    net[ek] = envs
    container(rng, net, ek, ("list", "list", "tuple"))
    maybe_units(rng, net, "rdnetwork_from_dict")
    kind = want_space or rng.choice(["grid", "grid", "graph"])
    if kind == "grid":
        w, h, d = rng.randint(1, 3), rng.randint(1, 3), rng.randint(1, 3)
        sp = {}
        if rng.random() < 0.5:
            sp["type"] = "grid"
        for k, v in (("w", w), ("h", h), ("d", d)):
            sp[alias(rng, "rdgridspace_from_dict", k)] = v
        size = w * h * d
        if rng.random() < 0.7:
            ck = alias(rng, "rdgridspace_from_dict", "cell_env")
            sp[ck] = (rng.randrange(len(envs)) if rng.random() < 0.3 else [rng.randrange(len(envs)) for _ in range(size)])
            container(rng, sp, ck)
            if isinstance(sp[ck], list) and rng.random() < 0.3:          # the map given as a text file
                expect["cell_env"] = list(sp[ck])
                sp[ck] = text_file(rng, files, sp[ck])
        if rng.random() < 0.7:
            sp[alias(rng, "rdgridspace_from_dict", "cell_volume")] = qty(rng, (3, 0, 0)) or 1.0
        if rng.random() < 0.6:
            sp["boundary_conditions"] = {a: rng.choice(BOUNDARY) for a in rng.sample(AXES, rng.randint(0, 3))}
        maybe_units(rng, sp, "rdgridspace_from_dict")
    else:
        nn = rng.randint(1, 6)
        size = nn
        nodes = []
        for i in range(nn):
            nd = {}
            if rng.random() < 0.8:
                nd[alias(rng, "rdgraphspacenode_from_dict", "volume")] = qty(rng, (3, 0, 0)) or 1.0
            if rng.random() < 0.8:
                nd[alias(rng, "rdgraphspacenode_from_dict", "environment")] = rng.randrange(len(envs))
            maybe_units(rng, nd, "rdgraphspacenode_from_dict")
            nodes.append(nd)
        edges = []
        pairs = [(i, j) for i in range(nn) for j in range(i + 1, nn)]
        rng.shuffle(pairs)
        for (i, j) in pairs[:rng.randint(0, min(5, len(pairs)))]:
            e = {"nodes": [i, j]}
            if rng.random() < 0.8:
                e["surface"] = qty(rng, (2, 0, 0)) or 1.0
            if rng.random() < 0.8:
                e["distance"] = qty(rng, (1, 0, 0)) or 1.0
            maybe_units(rng, e, "rdgraphspaceedge_from_dict")
            edges.append(e)
        sp = {"type": "graph", "nodes": nodes, "edges": edges}
        maybe_units(rng, sp, "rdgraphspace_from_dict")
    system = {alias(rng, "rdsystem_from_dict", "network"): net, alias(rng, "rdsystem_from_dict", "space"): sp}
    r = rng.random()
    if r < 0.25:
        system["state"] = {"value": [float(rng.randint(0, 20)) for _ in range(ns * size)], "units": rng.choice(QTY)}
    elif r < 0.4:
        system["state"] = [float(rng.randint(0, 20)) for _ in range(ns * size)]
    if "state" in system:
        container(rng, system, "state")
    if rng.random() < 0.3:
        system["chemostats"] = [rng.randint(0, 1) for _ in range(ns * size)]
        container(rng, system, "chemostats")
        if rng.random() < 0.4:                                           # the chemostat map given as a text file
            expect["chemostats"] = list(system["chemostats"])
            system["chemostats"] = text_file(rng, files, system["chemostats"])
    maybe_units(rng, system, "rdsystem_from_dict")
    ts = sorted(float(rng.randint(0, 20)) / 4 for _ in range(rng.randint(1, 4)))
    script = {"system": system, "t_sample": ts if rng.random() < 0.6 else {"value": ts, "units": rng.choice(TIME)}}
    container(rng, script, "t_sample")
    if rng.random() < 0.7:
        script[alias(rng, "rdscript_from_dict", "time_step")] = qty(rng, (0, 1, 0)) or 0.5
    if rng.random() < 0.5:
        script[alias(rng, "rdscript_from_dict", "t_max")] = rng.choice(["default", 5.0, "5.0 s", "1.0 min"])
    if rng.random() < 0.7:
        script[alias(rng, "rdscript_from_dict", "sampling_policy")] = rng.choice(POLICIES)
    if rng.random() < 0.5:
        script[alias(rng, "rdscript_from_dict", "sampling_interval")] = qty(rng, (0, 1, 0)) or 1.0
    if rng.random() < 0.5:
        script[alias(rng, "rdscript_from_dict", "rng_seed")] = rng.choice([None, 7, 123456])
    if rng.random() < 0.5:
        script[alias(rng, "rdscript_from_dict", "init_state_processing")] = rng.choice(["auto", "none", "Poisson", "redist"])
    maybe_units(rng, script, "rdscript_from_dict")
    if files:
        script["_files"] = files
    return script, {"expect_files": expect, "labels": labels, "envs": envs, "kind": kind, "size": size, "ns": ns,
                    "shape": (w, h, d) if kind == "grid" else None}


def strip_private(x):
    """the generator's bookkeeping keys removed (the container choices are kept: they are part of the input)"""
    if isinstance(x, dict):
        return {k: strip_private(v) for k, v in x.items() if not (isinstance(k, str) and k.startswith("_") and k not in ("_containers", "_files"))}
    if isinstance(x, list):
        return [strip_private(v) for v in x]
    return x


def build(script):
    """run the real constructor chain; ('ok', RDScript) or ('error', exception name)"""
    from strengths.rdscript import rdscript_from_dict
    try:
        write_files(script)
        return "ok", rdscript_from_dict(materialize(script))
    except Exception as ex:  # noqa
        return "error", type(ex).__name__


def find(d, fn, key):
    """the spelling under which canonical `key` is present in d (or None)"""
    for s in SPEC_KEYS[fn]:
        if s[0] == key:
            for k in s:
                if k in d:
                    return k
    return None


def levels(script):
    """every dictionary level that goes through process_input_dict_keys: (path description, function, dict)"""
    out = [("script", "rdscript_from_dict", script)]

    def units_of(path, d, fn):
        k = find(d, fn, "units")
        if k and isinstance(d[k], dict):
            out.append((path + ".units", "unitssystem_from_dict", d[k]))
    units_of("script", script, "rdscript_from_dict")
    if isinstance(script.get("t_sample"), dict):
        out.append(("script.t_sample", "unitarray_from_dict", script["t_sample"]))
    system = script["system"]
    out.append(("system", "rdsystem_from_dict", system))
    units_of("system", system, "rdsystem_from_dict")
    if isinstance(system.get("state"), dict):
        out.append(("system.state", "unitarray_from_dict", system["state"]))
    net = system[find(system, "rdsystem_from_dict", "network")]
    out.append(("network", "rdnetwork_from_dict", net))
    units_of("network", net, "rdnetwork_from_dict")
    for i, s in enumerate(net["species"]):
        out.append(("species[%d]" % i, "species_from_dict", s))
        units_of("species[%d]" % i, s, "species_from_dict")
    for i, r in enumerate(net.get("reactions", [])):
        out.append(("reactions[%d]" % i, "reaction_from_dict", r))
        units_of("reactions[%d]" % i, r, "reaction_from_dict")
    sp = system[find(system, "rdsystem_from_dict", "space")]
    if sp.get("type", "grid") == "grid":
        out.append(("space", "rdgridspace_from_dict", sp))
        units_of("space", sp, "rdgridspace_from_dict")
    else:
        out.append(("space", "rdgraphspace_from_dict", sp))
        units_of("space", sp, "rdgraphspace_from_dict")
        for i, n in enumerate(sp["nodes"]):
            out.append(("nodes[%d]" % i, "rdgraphspacenode_from_dict", n))
            units_of("nodes[%d]" % i, n, "rdgraphspacenode_from_dict")
        for i, e in enumerate(sp["edges"]):
            out.append(("edges[%d]" % i, "rdgraphspaceedge_from_dict", e))
            units_of("edges[%d]" % i, e, "rdgraphspaceedge_from_dict")
    return out


def pub_keys(d):
    return [k for k in d if not (isinstance(k, str) and k.startswith("_"))]


def quantity_sites(script):
    """every place holding a quantity with a demanded dimension: (path, field, dim, container, key)"""
    out = []
    lv = levels(script)
    for path, fn, d in lv:
        def add(key, field, dim):
            k = find(d, fn, key)
            if k is not None:
                out.append((path + "." + key, field, dim, d, k))
        if fn == "species_from_dict":
            add("D", "Species.D", SPEC_DIM["Species.D"])
            add("density", "Species.density", SPEC_DIM["Species.density"])
        elif fn == "reaction_from_dict":
            n, m = d["_orders"]
            add("k+", "Reaction.kf", k_dim(n))
            add("k-", "Reaction.kr", k_dim(m))
            # a reaction whose constants are absent can always be given one of the wrong order
            for key, field, order in (("k+", "Reaction.kf", n), ("k-", "Reaction.kr", m)):
                if find(d, fn, key) is None:
                    out.append((path + "." + key, field, k_dim(order), d, key))
        elif fn == "rdgridspace_from_dict":
            add("cell_volume", "RDGridSpace.cell_vol", SPEC_DIM["RDGridSpace.cell_vol"])
        elif fn == "rdgraphspacenode_from_dict":
            add("volume", "RDGraphSpaceNode.volume", SPEC_DIM["RDGraphSpaceNode.volume"])
        elif fn == "rdgraphspaceedge_from_dict":
            add("surface", "RDGraphSpaceEdge.surface", SPEC_DIM["RDGraphSpaceEdge.surface"])
            add("distance", "RDGraphSpaceEdge.distance", SPEC_DIM["RDGraphSpaceEdge.distance"])
        elif fn == "rdscript_from_dict":
            add("time_step", "RDScript.time_step", (0, 1, 0))
            add("sampling_interval", "RDScript.sampling_interval", (0, 1, 0))
            k = find(d, fn, "t_max")
            if k is not None and d[k] != "default":
                out.append((path + ".t_max", "RDScript.t_max", (0, 1, 0), d, k))
    return out


def first_only_order(site):
    """for a rate-constant site of a reaction that writes a species twice on the relevant side: the order obtained when only
    the first coefficient of each species is counted (differs from the true order); None otherwise"""
    path, field, dim, cont, key = site
    if field not in ("Reaction.kf", "Reaction.kr") or not isinstance(cont, dict) or "_terms" not in cont:
        return None
    terms = cont["_terms"][0 if field == "Reaction.kf" else 1]
    first = {}
    for c, l in terms:
        first.setdefault(l, c)
    true = sum(c for c, _ in terms)
    low = sum(first.values())
    return low if low != true else None


def wrong_dim(rng, dim):
    while True:
        d2 = (dim[0] + rng.choice([-3, -2, -1, 0, 1, 2, 3]), dim[1] + rng.choice([-1, 0, 0, 1]), dim[2] + rng.choice([-1, 0, 0, 1]))
        if d2 != dim:
            return d2


BAD_SYMBOLS = {"space": ["parsec", "M", "s", "", "um ", "Mm", "µ", "L"], "time": ["year", "m", "sec", "", "hr", "µm"],
               "quantity": ["molecules", "M", "", "g", "mol/L", "Mol"]}


# ---------------------------------------------------------------------------------------------
# fault injection: returns (class, location, model op or None, description) after mutating `script` in place
# ---------------------------------------------------------------------------------------------
def inject(rng, script, info, cls):
    lv = levels(script)
    if cls == "unknown-key":
        path, fn, d = rng.choice(lv)
        others = [k for f2, syn in SPEC_KEYS.items() if f2 != fn for s in syn for k in s
                  if not any(k in s2 for s2 in SPEC_KEYS[fn])]
        present = pub_keys(d)
        cands = ["bogus", "Label", rng.choice(others)] + ([present[0] + "s", present[0].upper() + "_"] if present else [])
        if rng.random() < 0.5:        # a piece (prefix / suffix / inner part) of an accepted key of this very dictionary
            cands = key_pieces(rng, fn, 6)
        bad = rng.choice([c for c in cands if not any(c in s for s in SPEC_KEYS[fn])])
        d[bad] = 1
        return path, {"op": "validate", "kind": "keys", "fn": fn, "keys": pub_keys(d)}, "key %r" % bad
    if cls == "double-alias":
        cands = []
        for path, fn, d in lv:
            for s in SPEC_KEYS[fn]:
                here = [k for k in s if k in d]
                if here and len(s) > 1:
                    cands.append((path, fn, d, s, here[0]))
        if not cands:
            return None
        path, fn, d, s, k0 = rng.choice(cands)
        others = [k for k in s if k != k0]
        rng.shuffle(others)
        extra = others[:rng.choice([1, 1, 2, 3])]                 # two, three or four names of the same entry at once
        for k1 in extra:
            d[k1] = copy.deepcopy(d[k0])
        return path + ("" if len(extra) == 1 else "(%d names)" % (len(extra) + 1)), \
            {"op": "validate", "kind": "keys", "fn": fn, "keys": pub_keys(d)}, "keys %r" % ([k0] + extra)
    if cls == "missing-key":
        cands = [(path, fn, d, k) for path, fn, d in lv for k in SPEC_MANDATORY.get(fn, [])]
        path, fn, d, key = rng.choice(cands)
        k = find(d, fn, key)
        del d[k]
        return path, {"op": "validate", "kind": "keys", "fn": fn, "keys": pub_keys(d)}, "missing %r" % key
    if cls == "dimension":
        sites = quantity_sites(script)
        extra = []
        if isinstance(script.get("t_sample"), dict):
            extra.append(("script.t_sample.units", "RDScript.t_sample", (0, 1, 0), script["t_sample"], "units"))
        if isinstance(script["system"].get("state"), dict):
            extra.append(("system.state.units", "RDSystem.state", (0, 0, 1), script["system"]["state"], "units"))
        if isinstance(script.get("t_sample"), list):
            extra.append(("script.t_sample[i]", "RDScript.t_sample", (0, 1, 0), script["t_sample"], rng.randrange(len(script["t_sample"]))))
        sites = sites + extra
        if not sites:
            return None
        rsites = [x for x in sites if x[1] in ("Reaction.kf", "Reaction.kr") and first_only_order(x) is not None]
        path, field, dim, cont, key = rng.choice(rsites if rsites and rng.random() < 0.5 else sites)
        d2 = wrong_dim(rng, dim)
        lower = first_only_order((path, field, dim, cont, key))
        if lower is not None and rng.random() < 0.7:
            d2 = k_dim(lower)          # the order one gets by NOT adding up a repeated species
            path += "(repeated-label)"
        s2 = rand_sys(rng)
        in_list = isinstance(cont, list)
        if in_list and rng.random() < 0.4:
            d2 = (0, 0, 0)          # a text without units where a time is demanded
        if key == "units":
            cont[key] = units_text(s2, d2)
            sc = {"uval": {"v": "0", "u": {"sys": sysj(eff(s2, d2)), "dim": list(d2)}}}
        else:
            v = float(rng.randint(1, 9))
            if rng.random() < 0.3:
                v = rng.choice([0.0, 0.0, -0.0])        # exactly zero is still a quantity of the wrong dimension
            form = rng.choice(["text", "uval"])
            if form == "uval":
                from strengths.units import UnitValue, Units, UnitsSystem, UnitsDimensions
                val = UnitValue(v, Units(UnitsSystem(*s2), UnitsDimensions(*d2)))
                sc = {"uval": {"v": rstr(v), "u": {"sys": sysj(s2), "dim": list(d2)}}}
            else:
                val = "%r %s" % (v, units_text(s2, d2))
                sc = {"text": {"v": rstr(v), "u": units_text(s2, d2)}}
                if in_list:
                    # numpy turns a list holding a text into np.str_ items: see Model `arrayTextElement`
                    cont[key] = val
                    if d2 == (0, 0, 0):
                        path = "script.t_sample.dimensionless_text[i]"
                    return path, {"op": "validate", "kind": "array_text", "field": field, "sys": sysj(DEFAULT_SYS), "v": rstr(v), "u": units_text(s2, d2)}, \
                        "text %r (dimension %s) in a list where %s is demanded" % (val, list(d2), list(dim))
            if isinstance(cont.get(key) if isinstance(cont, dict) else cont[key], dict) and rng.random() < 0.7:      # inside a per-environment dictionary
                kk = rng.choice(list(cont[key]))
                cont[key][kk] = val
                path += "{%s}" % kk
            else:
                cont[key] = val
        if field in ("Reaction.kf", "Reaction.kr"):
            n = dim[2] * -1 + 1
            op = {"op": "validate", "kind": "field_k", "order": n, "sys": sysj(DEFAULT_SYS), "v": sc}
        else:
            op = {"op": "validate", "kind": "field", "field": field, "sys": sysj(DEFAULT_SYS), "v": sc}
        return path, op, "dimension %s where %s is demanded" % (list(d2), list(dim))
    if cls == "unit-symbol":
        cands = [(path, d) for path, fn, d in lv if fn == "unitssystem_from_dict"]
        sites = quantity_sites(script)
        if cands and (rng.random() < 0.6 or not sites):
            path, d = rng.choice(cands)
            kind = rng.choice(["space", "time", "quantity"])
            d[kind] = rng.choice(BAD_SYMBOLS[kind])
            full = {"space": d.get("space", DEFAULT_SYS[0]), "time": d.get("time", DEFAULT_SYS[1]), "quantity": d.get("quantity", DEFAULT_SYS[2])}
            return path + "." + kind, dict({"op": "validate", "kind": "sys"}, **full), "symbol %r for %s" % (d[kind], kind)
        if not sites:
            # put a units dictionary at the script level
            kind = rng.choice(["space", "time", "quantity"])
            for k in list(script):
                if k in ("units", "units_system", "units system", "u"):
                    del script[k]
            script["units"] = {kind: rng.choice(BAD_SYMBOLS[kind])}
            full = dict(sysj(DEFAULT_SYS), **script["units"])
            return "script.units." + kind, dict({"op": "validate", "kind": "sys"}, **full), "symbol %r for %s" % (script["units"][kind], kind)
        path, field, dim, cont, key = rng.choice(sites)
        sym = rng.choice(["parsec", "year", "molecules", "Mm", "sec"])
        txt = "1.0 %s%d" % (sym, 2)
        cont[key] = txt
        return path, {"op": "parse_units", "s": "%s2" % sym}, "unit text %r" % txt
    system = script["system"]
    net = system[find(system, "rdsystem_from_dict", "network")]
    sp = system[find(system, "rdsystem_from_dict", "space")]
    if cls == "grid-size":
        if info["kind"] != "grid":
            return None
        key = rng.choice(["w", "h", "d"])
        for k in list(sp):
            if k in ("cell_env", "cell_environments", "cell environments", "environments", "env") and isinstance(sp[k], list):
                sp[k] = 0
        k = find(sp, "rdgridspace_from_dict", key)
        val = rng.choice([0, -1, -3, 0.5, -0.5, 0.999, -0.25, 1e-9, ["__num__", "np.float64", 0.5], ["__num__", "np.float32", 0.25]])
        sp[k] = val
        # the documented conversion is int(): a size in (-1, 1) is 0 cells
        whd = {kk: int(materialize(sp[find(sp, "rdgridspace_from_dict", kk)])) for kk in ("w", "h", "d")}
        return "space." + key + ("" if isinstance(val, int) else "(fractional)"), \
            dict({"op": "validate", "kind": "grid_ctor", "env": {"num": 0}}, **whd), "%s = %r" % (key, val)
    if cls == "env-map-length":
        if info["kind"] != "grid":
            return None
        k = find(sp, "rdgridspace_from_dict", "cell_env") or "cell_env"
        n = info["size"] + rng.choice([-1, 1, 2]) if info["size"] > 1 else info["size"] + rng.choice([1, 2])
        sp[k] = [0] * n
        container(rng, sp, k)
        asfile = ""
        if n > info["size"] and rng.random() < 0.5:       # too many entries, in a text file with nothing after the last one
            vals = [rng.randint(0, 1) if len(info["envs"]) > 1 else 0 for _ in range(n)]
            files_ = script.setdefault("_files", {})
            path_ = text_file(rng, files_, vals, end=rng.choice(["", "", "\n", " "]))
            sp[k] = path_
            w, h, d = info["shape"]
            return "space.cell_env(text file)", {"op": "validate", "kind": "grid_ctor", "w": w, "h": h, "d": d, "env": {"arr": vals}}, \
                "cell_env text file %r with %d entries for %d cells" % (files_[path_], n, info["size"])
        w, h, d = info["shape"]
        return "space.cell_env", {"op": "validate", "kind": "grid_ctor", "w": w, "h": h, "d": d, "env": {"arr": sp[k]}}, "cell_env of length %d for %d cells" % (n, info["size"])
    if cls in ("env-beyond-list", "env-beyond-list-explicit-state"):
        nenv = len(info["envs"])
        bad = nenv + rng.choice([0, 0, 1, 5])
        asfile = False
        if info["kind"] == "grid":
            k = find(sp, "rdgridspace_from_dict", "cell_env") or "cell_env"
            if rng.random() < 0.3:
                sp[k] = bad
                ce = [bad] * info["size"]
            else:
                ce = [rng.randrange(nenv) for _ in range(info["size"])]
                ce[rng.randrange(info["size"])] = bad
                sp[k] = ce
        else:
            i = rng.randrange(info["size"])
            nd = sp["nodes"][i]
            k = find(nd, "rdgraphspacenode_from_dict", "environment") or "environment"
            nd[k] = bad
            ce = [n_.get(find(n_, "rdgraphspacenode_from_dict", "environment") or "environment", 0) for n_ in sp["nodes"]]
        if info["kind"] == "grid" and rng.random() < 0.35:
            # the map as a text file whose LAST entry is the bad one, two digits, nothing after it
            ce = [rng.randrange(nenv) for _ in range(info["size"])]
            ce[-1] = int("%d%d" % (rng.randint(1, max(1, nenv - 1)), rng.randint(0, 9)))
            files_ = script.setdefault("_files", {})
            sp[k] = text_file(rng, files_, ce, end=rng.choice(["", "", "\n"]))
            bad = ce[-1]
            asfile = True
        if cls == "env-beyond-list":
            system.pop("state", None)
            if rng.random() < 0.5:
                system.pop("chemostats", None)
        else:
            system["state"] = [0.0] * (info["ns"] * info["size"])
            system["chemostats"] = [0] * (info["ns"] * info["size"])
        op = {"op": "validate", "kind": "env_map", "nspecies": info["ns"], "nenv": nenv, "cell_env": ce,
              "state_given": "state" in system, "chem_given": "chemostats" in system}
        return "space.cell_env" + ("(text file)" if asfile else ""), op, "environment index %d with %d environments" % (bad, nenv) + (
            " (last entry of the text file %r)" % script["_files"][sp[k]] if asfile else "")
    if cls == "boundary":
        if info["kind"] != "grid":
            return None
        bc = sp.setdefault("boundary_conditions", {})
        if rng.random() < 0.5:
            bc[rng.choice(AXES)] = rng.choice(["periodic", "Reflecting", "open", "", "absorbing", 1])
        else:
            bc[rng.choice(["X", "w", "xy", "", "t", 0])] = rng.choice(BOUNDARY)
        if all(isinstance(a, str) and isinstance(c, str) for a, c in bc.items()):
            op = {"op": "validate", "kind": "boundary", "bc": [[a, c] for a, c in bc.items()]}
        else:
            op = None
        return "space.boundary_conditions", op, "boundary conditions %r" % bc
    if cls == "policy":
        k = find(script, "rdscript_from_dict", "sampling_policy") or "sampling_policy"
        script[k] = rng.choice(["on_sample", "On_iteration", "", "never", "on_t_samples", "interval"])
        return "script.sampling_policy", {"op": "validate", "kind": "policy", "v": script[k]}, "sampling policy %r" % script[k]
    if cls == "mode":
        k = find(script, "rdscript_from_dict", "init_state_processing") or "init_state_processing"
        script[k] = rng.choice(["poisson", "None", "", "round", "redistribute", "AUTO"])
        return "script.init_state_processing", {"op": "validate", "kind": "mode", "v": script[k]}, "processing mode %r" % script[k]
    if cls == "environments":
        k = find(net, "rdnetwork_from_dict", "environments")
        if rng.random() < 0.4:
            net[k] = []
        else:
            e = list(net[k])
            e.insert(rng.randint(0, len(e)), "default")
            net[k] = e
        container(rng, net, k, ("list", "tuple", "tuple", "ndarray"))
        kind = net["_containers"][k]
        return "network.environments(%s)" % kind, {"op": "validate", "kind": "environments", "envs": net[k]}, "environments %r given as a %s" % (net[k], kind)
    if cls == "unknown-species":
        if not net.get("reactions"):
            net["reactions"] = [{"stoichiometry": " -> ", "_orders": (0, 0)}]
        r = rng.choice(net["reactions"])
        k = find(r, "reaction_from_dict", "stoichiometry")
        r[k] = rng.choice(["ghost -> ", " -> 2 ghost", "%s + ghost -> %s" % (info["labels"][0], info["labels"][0])])
        for kk in ("k+", "kf", "k-", "kr"):
            r.pop(kk, None)
        subs = ["ghost"] if "ghost" in r[k].split("->")[0] else []
        prods = ["ghost"] if "ghost" in r[k].split("->")[1] else []
        return "network.reactions", {"op": "network", "species": info["labels"], "environments": ["x"],
                                     "reactions": [{"subs": subs, "prods": prods}]}, "reaction %r names an undeclared species" % r[k]
    raise ValueError(cls)


def eff(sys, dim):
    return tuple(sys[k] if dim[k] != 0 else DEFAULT_SYS[k] for k in range(3))


CLASSES = ["unknown-key", "double-alias", "missing-key", "dimension", "unit-symbol", "grid-size", "env-map-length", "env-beyond-list",
           "env-beyond-list-explicit-state", "boundary", "policy", "mode", "environments", "unknown-species"]


# ---------------------------------------------------------------------------------------------
# positional accessors
# ---------------------------------------------------------------------------------------------
def make_system(kind, shape_or_n, labels, envs=("a",), periodic=()):
    from strengths.rdnetwork import RDNetwork, Species
    from strengths.rdspace import RDGridSpace, RDGraphSpace, RDGraphSpaceNode, RDGraphSpaceEdge
    from strengths.rdsystem import RDSystem
    net = RDNetwork(species=[Species(l) for l in labels], reactions=[], environments=list(envs))
    if kind == "grid":
        w, h, d = shape_or_n
        sp = RDGridSpace(w=w, h=h, d=d, cell_env=0, boundary_conditions={a: "periodical" for a in periodic})
        size = w * h * d
    else:
        size = shape_or_n
        sp = RDGraphSpace(nodes=[RDGraphSpaceNode(volume=1 + i) for i in range(size)],
                          edges=[RDGraphSpaceEdge(i, i + 1) for i in range(size - 1)])
    ns = len(labels)
    state = [float(1000 * s + c) for s in range(ns) for c in range(size)]     # every entry distinct
    chem = [(s + c) % 2 for s in range(ns) for c in range(size)]
    return RDSystem(net, sp, state=list(state), chemostats=list(chem)), state, chem, size


def spec_cell(kind, shape_or_n, pos):
    """Spec (documentation/indexing.rst): cell index of a position, None when outside the space"""
    if kind == "grid":
        w, h, d = shape_or_n
        if isinstance(pos, tuple):
            x, y, z = pos
            if 0 <= x < w and 0 <= y < h and 0 <= z < d:
                return z * w * h + y * w + x
            return None
        return pos if 0 <= pos < w * h * d else None
    if isinstance(pos, tuple):
        return None
    return pos if 0 <= pos < shape_or_n else None


def spec_species(labels, sref):
    if isinstance(sref, int):
        return sref if 0 <= sref < len(labels) else None
    return labels.index(sref) if sref in labels else None


class Coord:
    """a position given as an object with x, y, z attributes (the documented Coord-like form)"""
    def __init__(self, x, y, z):
        self.x, self.y, self.z = x, y, z

    def __repr__(self):
        return "Coord(%d, %d, %d)" % (self.x, self.y, self.z)


def pos_value(pos):
    """wire / case form of a position -> the Python value handed to the real code: int | tuple | Coord"""
    if isinstance(pos, dict):
        return Coord(*pos["obj"])
    return tuple(pos) if isinstance(pos, (list, tuple)) else pos


def pos_coords(pos):
    """the coordinate triple a tuple / object position denotes (None for a linear index)"""
    if isinstance(pos, dict):
        return tuple(pos["obj"])
    return tuple(pos) if isinstance(pos, (list, tuple)) else None


def access(kind, shape, labels, sref, pos, accessor, periodic=(), reuse=None):
    """run one accessor call on a fresh system; returns the observation.
    reuse = {"resolve": label, "new_labels": [...]}: first resolve a species by label once, then replace the network's
    species list through its public setter (the stored arrays keep their old layout), then make the call"""
    rds, state0, chem0, size = make_system(kind, shape, labels, periodic=periodic)
    p = pos_value(pos)
    out = {}
    if reuse is not None:
        from strengths.rdnetwork import Species
        for lbl in reuse["resolve"]:
            rds.get_state_index(lbl, 0)
        rds.network.species = [Species(l) for l in reuse["new_labels"]]
    try:
        if accessor == "get_state":
            out["value"] = float(rds.get_state(sref, p).value)
        elif accessor == "set_state":
            rds.set_state(sref, p, -7.0)
        elif accessor == "get_chemostat":
            out["value"] = int(rds.get_chemostat(sref, p))
        elif accessor == "set_chemostat":
            rds.set_chemostat(sref, p, 5)
        elif accessor == "get_state_index":
            out["value"] = int(rds.get_state_index(sref, p))
        elif accessor == "get_cell_index":
            out["value"] = int(rds.space.get_cell_index(p))
        elif accessor == "get_cell_coordinates":
            out["value"] = [int(v) for v in rds.space.get_cell_coordinates(p)]
        elif accessor == "get_cell_env":
            out["value"] = int(rds.space.get_cell_env(p))
        elif accessor == "get_cell_vol":
            out["value"] = float(rds.space.get_cell_vol(p).value)
        elif accessor == "get_neighbors":
            out["value"] = sorted(int(v) for v in rds.space.get_neighbors(p))
        elif accessor == "is_within_bounds":
            out["value"] = bool(rds.space.is_within_bounds(p))
        else:
            raise ValueError(accessor)
        out["result"] = "ok"
    except Exception as ex:  # noqa
        out["result"] = "error"
        out["exc"] = type(ex).__name__
    st = [float(v) for v in rds.state.value]
    ch = [int(v) for v in rds.chemostats]
    out["state_changed"] = [i for i in range(len(st)) if st[i] != state0[i]]
    out["chem_changed"] = [i for i in range(len(ch)) if ch[i] != chem0[i]]
    out["state0"], out["chem0"] = state0, chem0
    return out


SPECIES_ACCESSORS = ["get_state", "set_state", "get_chemostat", "set_chemostat", "get_state_index"]
SPACE_ACCESSORS = ["get_cell_index", "get_cell_env", "get_cell_vol", "get_neighbors"]


def check_access(ctx, kind, shape, labels, sref, pos, accessor, periodic=(), reuse=None):
    """oracle for one accessor call; returns (observation, expected_valid)"""
    got = access(kind, shape, labels, sref, pos, accessor, periodic, reuse)
    built_labels = labels
    if reuse is not None:
        labels = reuse["new_labels"]          # the species list at the time of the call
    is_obj = isinstance(pos, dict)
    p = pos_coords(pos) if pos_coords(pos) is not None else pos          # triple (tuple or object form) or linear index
    size = shape[0] * shape[1] * shape[2] if kind == "grid" else shape
    cell = spec_cell(kind, shape, p)
    if accessor == "get_cell_coordinates" and isinstance(p, tuple):
        cell = None
    needs_species = accessor in SPECIES_ACCESSORS
    s = spec_species(labels, sref) if needs_species else 0
    valid = cell is not None and s is not None
    case = {"kind": "access", "space": kind, "shape": list(shape) if kind == "grid" else shape, "labels": built_labels, "species": sref,
            "pos": {"obj": list(p)} if is_obj else list(p) if isinstance(p, tuple) else p, "accessor": accessor, "periodic": list(periodic)}
    if reuse is not None:
        case["reuse"] = reuse
    if accessor == "is_within_bounds":
        if got["result"] != "ok" or got.get("value") != (cell is not None):
            report(ctx, "position:is_within_bounds:%s" % ("object" if is_obj else "coords" if isinstance(p, tuple) else "linear"),
                          "is_within_bounds(%r) = %r on a %s %r" % (p, got.get("value", got.get("exc")), kind, shape), case, impl=got, expected=(cell is not None))
        return got, valid, case
    form = "object" if is_obj else "coords" if isinstance(p, tuple) else "linear"
    shown = pos_value(pos) if is_obj else p
    if not valid:
        what = "unknown species" if (cell is not None and s is None) else "position outside the space"
        key = ("unknown-species:%s" % accessor) if (cell is not None and s is None) else ("position:%s:%s:%s" % (kind, form, accessor))
        if reuse is not None:
            key = "unknown-species:after-species-replaced:%s" % accessor
        if got["result"] == "ok" or got["state_changed"] or got["chem_changed"]:
            report(ctx, key, "%s(%r, %r) on a %s %r with %d species: %s, yet it %s" % (
                accessor, sref, shown, kind, shape, len(labels), what,
                ("returned %r" % (got.get("value"),)) if got["result"] == "ok" else "changed the stored arrays"), case, impl=got, expected="exception, arrays untouched")
        return got, valid, case
    # valid call: exactly the named entry
    idx = s * size + cell
    ok = got["result"] == "ok"
    exp = None
    if ok:
        if accessor == "get_state":
            exp = got["state0"][idx]
        elif accessor == "get_chemostat":
            exp = got["chem0"][idx]
        elif accessor == "get_state_index":
            exp = idx
        elif accessor == "get_cell_index":
            exp = cell
        elif accessor == "get_cell_coordinates":
            w, h, d = shape
            exp = [cell % w, (cell // w) % h, cell // (w * h)]
        if exp is not None and got["value"] != exp:
            ok = False
        want_state = [idx] if accessor == "set_state" else []
        want_chem = [idx] if accessor == "set_chemostat" and got["chem0"][idx] != 5 else []
        if got["state_changed"] != want_state or got["chem_changed"] != want_chem:
            ok = False
    if not ok:
        report(ctx, ("entry:after-species-replaced:%s" % accessor) if reuse is not None else "entry:%s:%s:%s" % (kind, form, accessor), "%s(%r, %r) on a %s %r does not address entry %d only" % (accessor, sref, shown, kind, shape, idx),
                      case, impl=got, expected={"entry": idx, "value": exp})
    return got, valid, case


def model_access_op(kind, shape, labels, sref, pos, accessor, state0):
    space = {"grid": {"w": shape[0], "h": shape[1], "d": shape[2]}} if kind == "grid" else {"graph": shape}
    p = {"obj": list(pos["obj"])} if isinstance(pos, dict) else {"xyz": list(pos)} if isinstance(pos, (tuple, list)) else {"p": pos}
    sp = {"idx": sref} if isinstance(sref, int) else {"label": sref}
    if accessor in ("get_state", "get_chemostat", "get_state_index", "set_chemostat"):
        return {"op": "validate", "kind": "state_index", "labels": labels, "space": space, "species": sp, "pos": p}
    if accessor == "set_state":
        return {"op": "validate", "kind": "set_entry", "arr": [rstr(v) for v in state0], "labels": labels, "space": space, "species": sp, "pos": p, "v": "-7"}
    if accessor in ("get_cell_index", "get_cell_coordinates"):
        return {"op": "validate", "kind": "cell_index", "space": space, "pos": p}
    if accessor in ("get_cell_env", "get_cell_vol", "get_neighbors"):
        return {"op": "validate", "kind": "accessor", "accessor": accessor, "space": space, "pos": p}
    return None


# ---------------------------------------------------------------------------------------------
# coarse-graining maps
# ---------------------------------------------------------------------------------------------
def spec_index_map_invalid(im, env):
    """the rules of the docstring of check_index_map_validity / coarsegrain_grid, written independently"""
    if len(im) != len(env):
        return "length differs from the space size"
    if any(type(i) is not int for i in im):
        return "non-integer entry"
    if any(i < -1 for i in im):
        return "negative entry other than -1"
    if all(i == -1 for i in im):
        return "no output node"
    top = max(im)
    if any(k not in im for k in range(top + 1)):
        return "missing output index"
    seen = {}
    for i, e in zip(im, env):
        if i == -1:
            continue
        if seen.setdefault(i, e) != e:
            return "output node mixes environments"
    return None


def gen_index_map(rng):
    w, h, d = rng.randint(1, 3), rng.randint(1, 3), rng.randint(1, 2)
    size = w * h * d
    nenv = rng.randint(1, 3)
    nout = rng.randint(1, max(1, min(4, size)))
    # valid map: output node o gets environment o % nenv
    im = [rng.randrange(nout) for _ in range(size)]
    for o in range(nout):
        if o not in im:
            im[rng.randrange(size)] = o
    # repair coverage
    present = sorted(set(im))
    remap = {o: i for i, o in enumerate(present)}
    im = [remap[o] for o in im]
    env = [o % nenv for o in im]
    for i in range(size):
        if rng.random() < 0.15:
            im[i] = -1
            env[i] = rng.randrange(nenv)
    if all(i == -1 for i in im):
        im[0] = 0
    present = sorted(set(i for i in im if i >= 0))
    remap = {o: i for i, o in enumerate(present)}
    im = [remap[o] if o >= 0 else -1 for o in im]
    fault = rng.choice(["none", "none", "length", "negative", "all-dropped", "gap", "mixed-env", "float"])
    if fault == "length":
        im = im + [0] if rng.random() < 0.5 or size == 1 else im[:-1]
    elif fault == "negative":
        im[rng.randrange(len(im))] = rng.choice([-2, -5])
    elif fault == "all-dropped":
        im = [-1] * size
    elif fault == "gap":
        top = max(im)
        im = [i + 1 if i == top else i for i in im] if top >= 0 else im
        if top == 0:
            im = [1 if i == 0 else i for i in im]
    elif fault == "mixed-env":
        if nenv > 1 and size > 1:
            i = rng.randrange(size)
            j = (i + 1) % size
            im[i] = im[j] = max(0, im[j])
            env[i] = (env[j] + 1) % nenv
        else:
            fault = "none"
    elif fault == "float":
        im[rng.randrange(len(im))] = 0.0
    return (w, h, d), im, env, fault


def run_index_map(shape, im, env):
    from strengths.rdspace import RDGridSpace
    from strengths.coarsegrain import check_index_map_validity
    w, h, d = shape
    sp = RDGridSpace(w=w, h=h, d=d, cell_env=list(env))
    try:
        check_index_map_validity(list(im), sp)
        return "ok"
    except Exception as ex:  # noqa
        return "error:" + type(ex).__name__


ENTRY_POINTS = ["coarsegrain_grid", "coarsegrain_system", "simulate_script(cgmap)", "simulate(cgmap)"]


def run_index_map_entry(shape, im, env, entry):
    """the same map handed to one of the other entry points that take a coarse-graining map"""
    import common
    from strengths.rdspace import RDGridSpace
    from strengths.rdnetwork import RDNetwork, Species, Reaction
    from strengths.rdsystem import RDSystem
    from strengths.rdscript import RDScript
    from strengths import coarsegrain, simulate as sim
    w, h, d = shape
    nenv = max([e for e in env if isinstance(e, int)] + [0]) + 1
    sp = RDGridSpace(w=w, h=h, d=d, cell_env=list(env))
    try:
        if entry == "coarsegrain_grid":
            coarsegrain.coarsegrain_grid(sp, list(im))
            return "ok"
        net = RDNetwork([Species("A", D=1.0, density=1.0)], [Reaction("A -> ", kf=0.1)], environments=["e%d" % i for i in range(nenv)])
        rds = RDSystem(net, sp)
        if entry == "coarsegrain_system":
            coarsegrain.coarsegrain_system(rds, list(im))
            return "ok"
        eng = common.load_engine("euler")
        if entry == "simulate_script(cgmap)":
            sim.simulate_script(RDScript(rds, [0.0, 0.01], time_step=0.01), eng, cgmap=list(im))
        else:
            sim.simulate(rds, [0.0, 0.01], engine=eng, time_step=0.01, cgmap=list(im))
        return "ok"
    except Exception as ex:  # noqa
        return "error:" + type(ex).__name__


# ---------------------------------------------------------------------------------------------
def run(ctx):
    rng = ctx.rng
    import strengths  # noqa

    # ---------------------------------------------------------------- 1. faulted models
    n = ctx.n(1100, 25000)
    ops, meta = [], []
    base_rejected = 0
    for i in range(n):
        cls = CLASSES[i % len(CLASSES)]
        want = "grid" if cls in ("grid-size", "env-map-length", "boundary") else None
        script, info = gen_model(rng, want)
        st, obj = build(script)
        if st != "ok":
            # a model that is valid by construction is refused: the model (which accepts it) and the code disagree; the
            # single-fault attribution is impossible for it, the stream goes on with the next model
            base_rejected += 1
            ctx.count("baseline_rejected")
            ctx.disagree("validate:valid-model", {"kind": "valid-model", "script": strip_private(script)}, "raised " + obj, {"ok": None})
            continue
        ctx.count("baseline_accepted")
        for what_, want_, got_ in (("cell_env", info["expect_files"].get("cell_env"), lambda: [int(v) for v in obj.system.space.cell_env]),
                                   ("chemostats", info["expect_files"].get("chemostats"), lambda: [int(v) for v in obj.system.chemostats])):
            if want_ is not None:
                ctx.count("valid_text_file_" + what_)
                g_ = got_()
                if g_ != want_:
                    report(ctx, "text-file:%s" % what_, "the %s text file %r was loaded as %r instead of %r" % (
                        what_, [c for p_, c in script["_files"].items()], g_, want_),
                        {"kind": "valid-file", "what": what_, "want": want_, "script": strip_private(script)}, impl=g_, expected=want_)
        faulted = copy.deepcopy(script)
        res = inject(rng, faulted, info, cls)
        if res is None:
            ctx.count("fault_not_applicable")
            continue
        loc, op, what = res
        meta.append((cls, loc, what, faulted, info))
        ops.append(op if op is not None else {"op": "validate", "kind": "policy", "v": "on_iteration"})
    ops2 = []
    for op in ops:
        if op.get("kind") == "field_k":
            n_ = op["order"]
            ops2.append({"op": "validate", "kind": "field_dim", "dim": list(k_dim(n_)), "sys": op["sys"], "v": op["v"]})
        else:
            ops2.append(op)
    res = ctx.model.run(ops2)
    for (cls, loc, what, faulted, info), op, r in zip(meta, ops, res):
        st, obj = build(faulted)
        pub = strip_private(faulted)
        locclass = loc.split("[")[0].split("{")[0]
        case = {"kind": "faulted-model", "class": cls, "location": loc, "what": what, "script": pub}
        ctx.case(("fault", cls, loc, info["kind"], info["ns"], info["size"], what), nontrivial=True,
                 sample={"class": cls, "location": loc, "what": what, "impl": st if st == "error" else "accepted"})
        ctx.count("class_" + cls)
        ctx.count("at_" + locclass)
        if st == "ok":
            report(ctx, "%s@%s" % (cls, locclass), "a model with %s at %s was accepted" % (what, loc), case, impl="accepted", expected="exception")
        else:
            ctx.count("exc_" + obj)
        has_op = not (op.get("kind") == "policy" and op.get("v") == "on_iteration")
        if r is not None and has_op:
            if ("error" in r) != (st == "error"):
                ctx.disagree("validate:" + cls, case, st if st == "error" else "accepted", r)

    ctx.notes.append("coarse-graining maps: the model is the coarse-graining builder's checkIndexMap (Model/Coarsegrain, group CoarsePy); "
                     "index_map_rejects_iff carries his hypothesis 'no cell environment equals -2' (the code's internal unset marker)")
    ctx.notes.append("documented-but-refused values (not C20's concern, recorded): init_state_processing='floor' is documented and accepted by "
                     "the engine but refused by the Python setter; the documented system key 'chstt_map' is refused (the code's key is 'chemostats')")
    # ---------------------------------------------------------------- 2. setters called directly with invalid values
    direct_setters(ctx)

    # ---------------------------------------------------------------- 2.0 every *_from_dict directly: pieces of accepted keys
    direct_from_dict(ctx)

    # ---------------------------------------------------------------- 2a. refused writes leave the object untouched
    refused_writes(ctx)

    # ---------------------------------------------------------------- 2b. engine options through LibRDEngine.setup
    engine_options(ctx)

    # ---------------------------------------------------------------- 2c. a network object re-used with another species list
    species_reuse(ctx)

    # ---------------------------------------------------------------- 2d. units objects handed out, edited by their owner, then quantities
    units_object_histories(ctx)

    # ---------------------------------------------------------------- 3. positional sweep
    positional_sweep(ctx)

    # ---------------------------------------------------------------- 4. coarse-graining maps
    ops, meta = [], []
    for i in range(ctx.n(400, 10000)):
        shape, im, env, fault = gen_index_map(rng)
        meta.append((shape, im, env, fault))
        ops.append({"op": "validate", "kind": "index_map", "im": [v if type(v) is int else None for v in im], "env": env})
    res = ctx.model.run(ops)
    for (shape, im, env, fault), r in zip(meta, res):
        got = run_index_map(shape, im, env)
        inv = spec_index_map_invalid(im, env)
        case = {"kind": "index-map", "shape": list(shape), "im": im, "env": env, "fault": fault}
        ctx.case(("im", tuple(shape), tuple(im), tuple(env)), nontrivial=True)
        ctx.count("indexmap_" + ("invalid" if inv else "valid"))
        if inv and got == "ok":
            report(ctx, "index-map:" + inv.replace(" ", "-"), "coarse-graining map %r (%s) was accepted" % (im, inv), case, impl=got, expected="exception")
        # the same map through every other entry point that takes one (valid maps: the two cheap ones only)
        if len(env) == shape[0] * shape[1] * shape[2]:
            for entry in (ENTRY_POINTS if inv else ENTRY_POINTS[:2]):
                if inv and entry.startswith("simulate") and rng.random() < (0.7 if ctx.tier == "quick" else 0.5):
                    continue
                g2 = run_index_map_entry(shape, im, env, entry)
                ctx.count("indexmap_%s_%s" % (entry, "invalid" if inv else "valid"))
                if inv and g2 == "ok":
                    report(ctx, "index-map:%s@%s" % (inv.replace(" ", "-"), entry),
                           "coarse-graining map %r (%s) was accepted by %s" % (im, inv, entry), dict(case, entry=entry), impl=g2, expected="exception")
                if not inv and g2 != "ok":
                    ctx.count("indexmap_valid_rejected@" + entry)
        if not inv and got != "ok":
            ctx.count("indexmap_valid_rejected")
        if r is not None and (("error" in r) != (got != "ok")):
            ctx.disagree("validate:index_map", case, got, r)


def direct_setters(ctx):
    """invalid values handed straight to the setters / constructors (not through dictionaries)"""
    ops, meta = [], []

    def add(cls, what, op, invalid):
        meta.append((cls, what, invalid))
        ops.append(op)
    # boundary conditions: every (axis, condition) pair from a pool, on a grid whose three axes are periodic
    pool_axes = AXES + ["X", "w", "", "xyz"]
    pool_cond = BOUNDARY + ["periodic", "Reflecting", "", "open"]
    for a in pool_axes:
        for c in pool_cond:
            for first in ([], [("y", "periodical")], [("z", "periodical"), ("x", "reflecting")]):
                bc = dict(first)
                if a in bc:
                    continue
                bc[a] = c
                add("boundary", "set_boundary_conditions(%r)" % bc, {"op": "validate", "kind": "boundary", "bc": [[k, v] for k, v in bc.items()],
                                                                          "cur": [[ax, "periodical"] for ax in AXES]},
                    invalid=(a not in AXES or c not in BOUNDARY))
    for p in POLICIES + ["on_sample", "", "On_iteration", "no sampling", "on_t_sample "]:
        add("policy", "RDScript(sampling_policy=%r)" % p, {"op": "validate", "kind": "policy", "v": p}, invalid=p not in POLICIES)
    for m in MODES_DOC + ["poisson", "", "Auto", "round", "none "]:
        add("mode", "RDScript(init_state_processing=%r)" % m, {"op": "validate", "kind": "mode", "v": m}, invalid=m not in MODES_DOC)
    for w, h, d in itertools.product([-2, 0, 1, 2], repeat=3):
        add("grid-size", "RDGridSpace(%d,%d,%d)" % (w, h, d), {"op": "validate", "kind": "grid_ctor", "w": w, "h": h, "d": d, "env": {"num": 0}},
            invalid=(w <= 0 or h <= 0 or d <= 0))
    for w, h, d in [(1, 1, 1), (2, 1, 1), (2, 2, 1), (2, 3, 2)]:
        for n in range(0, w * h * d + 3):
            add("env-map-length", "RDGridSpace(%d,%d,%d,cell_env=[0]*%d)" % (w, h, d, n),
                {"op": "validate", "kind": "grid_ctor", "w": w, "h": h, "d": d, "env": {"arr": [0] * n}}, invalid=(n != w * h * d))
    for envs in [[], ["default"], ["a", "default"], ["default", "a"], ["a"], ["a", "b"], [""], ["Default"], ["a", "b", "default", "c"]]:
        for cont in ("list", "tuple", "ndarray"):
            invalid = (len(envs) == 0 or "default" in envs)
            if cont == "ndarray" and not invalid:
                continue            # numpy strings are not `str` for the setter: a valid list given as an array is refused (not C20's concern)
            add("environments", "RDNetwork(environments=%s(%r))" % (cont, envs),
                {"op": "validate", "kind": "environments", "envs": envs, "container": cont}, invalid=invalid)
    # fractional sizes: the documented conversion is int(), so a size in (-1, 1) means no cell
    for frac in (0.5, -0.5, 0.999, -0.999, 1e-9, ["__num__", "np.float64", 0.5], ["__num__", "np.float32", 0.75], 1.5, 2.75):
        for axis in range(3):
            raw = [2, 1, 3]
            raw[axis] = frac
            ints = [int(materialize(v)) for v in raw]
            add("grid-size", "RDGridSpace(%r, %r, %r)" % tuple(raw),
                {"op": "validate", "kind": "grid_ctor", "w": ints[0], "h": ints[1], "d": ints[2], "env": {"num": 0}, "raw": raw},
                invalid=any(v <= 0 for v in ints))
    for kind, syms, pos in (("space", SPACE, 0), ("time", TIME, 1), ("quantity", QTY, 2)):
        for sym in syms + BAD_SYMBOLS[kind] + SPACE[:2] + TIME[:2] + QTY[:2]:
            full = list(DEFAULT_SYS)
            full[pos] = sym
            add("unit-symbol", "UnitsSystem(%s=%r)" % (kind, sym), dict({"op": "validate", "kind": "sys"}, **sysj(full)), invalid=(sym not in syms))
    # environment index beyond the list: default state / chemostat generation
    for nenv in (1, 2, 3):
        for e in range(-nenv - 2, nenv + 3):
            for ns in (0, 1, 2):
                add("env-beyond-list", "RDSystem with cell_env=[0,%d], %d environments, %d species" % (e, nenv, ns),
                    {"op": "validate", "kind": "env_map", "nspecies": ns, "nenv": nenv, "cell_env": [0, e]}, invalid=(e >= nenv and ns > 0))
    res = ctx.model.run(ops)
    for (cls, what, invalid), op, r in zip(meta, ops, res):
        st, detail = thunk_of(op)
        case = {"kind": "direct", "class": cls, "what": what, "op": op, "invalid": invalid}
        ctx.case(("direct", cls, what), nontrivial=True)
        ctx.count("direct_" + cls)
        if cls == "mode" and not invalid and st == "error":
            ctx.count("documented_mode_rejected_by_python_setter")
        for key, msg in direct_verdict(cls, invalid, st, detail):
            report(ctx, key, "%s %s" % (what, msg), case, impl=detail, expected="exception, object unchanged")
        if r is not None:
            if ("error" in r) != (st == "error"):
                ctx.disagree("validate:" + cls, case, [st, detail], r)
            elif cls == "boundary" and dict((a, b) for a, b in r["state"]) != detail["after"]:
                ctx.disagree("validate:boundary-state", case, detail, r)


ENGINE_OPTIONS = ["euler", "tauleap", "gillespie"]          # documentation/engines.rst


def engine_setup(option, graph):
    """LibRDEngine(lib, option).setup(script) on the engine rebuilt from the tree under test"""
    import ctypes
    import common
    from strengths.librdengine import LibRDEngine
    from strengths.rdscript import RDScript
    rds, _, _, _ = make_system("graph" if graph else "grid", 2 if graph else (2, 1, 1), ["A"])
    script = RDScript(rds, [0.0, 1.0], time_step=0.5, rng_seed=1)
    eng = LibRDEngine(ctypes.CDLL(common.build_engine("plain")), option=option, requires_molecules=(option != "euler"))
    try:
        eng.setup(script)
    except Exception as ex:  # noqa
        return "error", type(ex).__name__
    try:
        eng.finalize()
    except Exception:  # noqa
        pass
    return "ok", None


def engine_options(ctx):
    """unknown engine options (incl. ones that merely begin with a valid keyword) must make setup() raise"""
    pool = list(ENGINE_OPTIONS)
    for v in ENGINE_OPTIONS:
        pool += [v + "2", v + " ", v + "_x", v.capitalize(), v[:-1], " " + v, v + v]
    pool += ["", "rk4", "Gillespie", "tau-leap", "eulertauleap"]
    ops, meta = [], []
    for graph in (False, True):
        for opt in pool:
            ops.append({"op": "validate", "kind": "engine_option", "graph": graph, "v": opt})
            meta.append((graph, opt))
    res = ctx.model.run(ops)
    for (graph, opt), op, r in zip(meta, ops, res):
        st, exc = engine_setup(opt, graph)
        invalid = opt not in ENGINE_OPTIONS
        case = {"kind": "engine-option", "option": opt, "graph": graph, "invalid": invalid}
        ctx.case(("engine-option", opt, graph), nontrivial=True)
        ctx.count("engine_option_" + ("invalid" if invalid else "valid"))
        if invalid and st == "ok":
            report(ctx, "engine-option@setup", "LibRDEngine(option=%r).setup() on a %s space was accepted" % (opt, "graph" if graph else "grid"),
                   case, impl="accepted", expected="exception")
        if r is not None and ("error" in r) != (st == "error"):
            ctx.disagree("validate:engine_option", case, [st, exc], r)


# ---------------------------------------------------------------------------------------------
# refused writes: a setter that raises must leave the object exactly as it was; then a valid write must work
# ---------------------------------------------------------------------------------------------
def arr_snap(a):
    import numpy as np
    a = np.asarray(a)
    return [str(a.dtype), list(a.shape), a.tobytes().hex()]


def uval_snap(x):
    return None if x is None else [repr(float(x.value)), str(x.units), [x.units.sys.space, x.units.sys.time, x.units.sys.quantity]]


def us_snap(u):
    return [u.space, u.time, u.quantity]


def snapshot(script):
    """every getter the property talks about, arrays bit for bit"""
    from strengths.rdspace import RDGridSpace
    sysm = script.system
    net, sp = sysm.network, sysm.space
    out = {
        "script": {"policy": script.sampling_policy, "mode": script.init_state_processing, "time_step": uval_snap(script.time_step),
                   "t_max": uval_snap(script.t_max), "interval": uval_snap(script.sampling_interval), "seed": script.rng_seed,
                   "t_sample": [arr_snap(script.t_sample.value), str(script.t_sample.units)], "units": us_snap(script.units_system)},
        "system": {"state": [arr_snap(sysm.state.value), str(sysm.state.units)], "chemostats": arr_snap(sysm.chemostats),
                   "units": us_snap(sysm.units_system), "space_is": type(sp).__name__, "size": sp.size()},
        "network": {"environments": list(net.environments), "units": us_snap(net.units_system),
                    "species": [[x.label, repr(x.D), repr(x.density), repr(x.chstt), us_snap(x.units_system)] for x in net.species],
                    "reactions": [[r.label, r.to_string(), repr(r.kf), repr(r.kr), us_snap(r.units_system)] for r in net.reactions]},
    }
    if isinstance(sp, RDGridSpace):
        out["space"] = {"whd": [sp.w, sp.h, sp.d], "cell_env": arr_snap(sp.cell_env), "cell_vol": uval_snap(sp.cell_vol),
                        "bc": sorted(sp.get_boundary_conditions().items()), "units": us_snap(sp.units_system)}
    return out


def fresh_script():
    from strengths.rdnetwork import RDNetwork, Species, Reaction
    from strengths.rdspace import RDGridSpace
    from strengths.rdsystem import RDSystem
    from strengths.rdscript import RDScript
    from strengths.units import UnitsSystem
    net = RDNetwork([Species("A", D=1.5, density={"a": 2.0, "b": "1 µM"}), Species("B", D="2 µm2/s", density=0.5, chstt={"b": True})],
                    [Reaction("A -> B", kf=1.0, kr={"a": 0.5}, label="r")], environments=["a", "b"],
                    units_system=UnitsSystem("µm", "s", "molecule"))
    sp = RDGridSpace(2, 2, 1, cell_env=[0, 1, 1, 0], cell_vol="2 µm3", boundary_conditions={"x": "periodical"})
    rds = RDSystem(net, sp, state=[1.0, 2.0, 3.0, 4.0, 5.0, 6.0, 7.0, 8.0], chemostats=[0, 1, 0, 0, 1, 0, 0, 0])
    script = RDScript(rds, [0.0, 0.5, 1.0], time_step=0.25, t_max=2.0, sampling_policy="on_interval", sampling_interval=0.5, rng_seed=7,
                      init_state_processing="none", units_system=UnitsSystem("µm", "s", "molecule"))
    return script


def refused_write_table():
    """(name, refused write, valid write of the same kind, check of the valid write); all act on a fresh script `s`"""
    from strengths.units import UnitValue, UnitArray
    from strengths.rdspace import RDGridSpace
    from strengths.rdnetwork import Species
    T = []

    def add(name, bad, good, ok):
        T.append((name, bad, good, ok))
    st = lambda s: s.system.state
    add("state.value item 1 of another dimension", lambda s: setattr(st(s), "value", [5.0, UnitValue(1, "s"), 7.0, 8.0, 9.0, 1.0, 2.0, 3.0]),
        lambda s: setattr(st(s), "value", [5.0, UnitValue(1, "molecule"), 7.0, 8.0, 9.0, 1.0, 2.0, 3.0]),
        lambda s: [float(v) for v in st(s).value] == [5.0, 1.0, 7.0, 8.0, 9.0, 1.0, 2.0, 3.0])
    add("state.value last item of another dimension", lambda s: setattr(st(s), "value", [5.0, 6.0, 7.0, 8.0, 9.0, 1.0, 2.0, UnitValue(3, "µm")]),
        lambda s: st(s).set_value([9.0] * 8), lambda s: [float(v) for v in st(s).value] == [9.0] * 8)
    add("state.value unparsable text at item 2", lambda s: setattr(st(s), "value", [5.0, 6.0, "7 parsec", 8.0, 9.0, 1.0, 2.0, 3.0]),
        lambda s: setattr(st(s), "value", [5.0, 6.0, "7 molecule", 8.0, 9.0, 1.0, 2.0, 3.0]),
        lambda s: [float(v) for v in st(s).value] == [5.0, 6.0, 7.0, 8.0, 9.0, 1.0, 2.0, 3.0])
    add("state.value text without units at item 3", lambda s: setattr(st(s), "value", [5.0, 6.0, 7.0, "8", 9.0, 1.0, 2.0, 3.0]),
        lambda s: setattr(st(s), "value", [0.0] * 8), lambda s: [float(v) for v in st(s).value] == [0.0] * 8)
    add("t_sample.value item of another dimension", lambda s: setattr(s.t_sample, "value", [0.0, UnitValue(1, "µm"), 2.0]),
        lambda s: setattr(s.t_sample, "value", [0.0, UnitValue(1, "min"), 90.0]), lambda s: [float(v) for v in s.t_sample.value] == [0.0, 60.0, 90.0])
    add("system.state of another dimension", lambda s: setattr(s.system, "state", UnitArray([1.0] * 8, "s")),
        lambda s: setattr(s.system, "state", UnitArray([2.0] * 8, "molecule")), lambda s: [float(v) for v in st(s).value] == [2.0] * 8)
    add("system.state not an array", lambda s: setattr(s.system, "state", "abc"),
        lambda s: setattr(s.system, "state", [3.0] * 8), lambda s: [float(v) for v in st(s).value] == [3.0] * 8)
    add("system.state list with an item of another dimension", lambda s: setattr(s.system, "state", [1.0, 2.0, UnitValue(1, "s"), 4.0, 5.0, 6.0, 7.0, 8.0]),
        lambda s: setattr(s.system, "state", [4.0] * 8), lambda s: [float(v) for v in st(s).value] == [4.0] * 8)
    add("system.chemostats not an array", lambda s: setattr(s.system, "chemostats", "x"),
        lambda s: setattr(s.system, "chemostats", [1] * 8), lambda s: [int(v) for v in s.system.chemostats] == [1] * 8)
    add("system.space with an environment beyond the list", lambda s: setattr(s.system, "space", RDGridSpace(3, 2, 1, cell_env=[0, 1, 2, 0, 1, 0])),
        lambda s: setattr(s.system, "space", RDGridSpace(2, 2, 1, cell_env=[1, 1, 0, 0])), lambda s: [int(v) for v in s.system.space.cell_env] == [1, 1, 0, 0])
    add("system.space not a space", lambda s: setattr(s.system, "space", "grid"),
        lambda s: setattr(s.system, "space", RDGridSpace(2, 2, 1, cell_env=0)), lambda s: [int(v) for v in s.system.space.cell_env] == [0, 0, 0, 0])
    add("system.network not a network", lambda s: setattr(s.system, "network", None), lambda s: None, lambda s: True)
    add("space.cell_env of another length", lambda s: setattr(s.system.space, "cell_env", [0, 1, 0, 1, 0]),
        lambda s: setattr(s.system.space, "cell_env", [1, 0, 0, 1]), lambda s: [int(v) for v in s.system.space.cell_env] == [1, 0, 0, 1])
    add("space.cell_env with a text item", lambda s: setattr(s.system.space, "cell_env", [0, 1, "x", 1]),
        lambda s: setattr(s.system.space, "cell_env", 1), lambda s: [int(v) for v in s.system.space.cell_env] == [1, 1, 1, 1])
    add("space.cell_vol of another dimension", lambda s: setattr(s.system.space, "cell_vol", "1 s"),
        lambda s: setattr(s.system.space, "cell_vol", "3 µm3"), lambda s: float(s.system.space.cell_vol.value) == 3.0)
    add("set_boundary_conditions unknown value on the second axis", lambda s: s.system.space.set_boundary_conditions({"y": "periodical", "z": "open"}),
        lambda s: s.system.space.set_boundary_conditions({"y": "periodical"}),
        lambda s: s.system.space.get_boundary_conditions() == {"x": "reflecting", "y": "periodical", "z": "reflecting"})
    add("set_boundary_conditions unknown axis after a valid one", lambda s: s.system.space.set_boundary_conditions({"z": "periodical", "t": "periodical"}),
        lambda s: s.system.space.set_boundary_conditions({}), lambda s: set(s.system.space.get_boundary_conditions().values()) == {"reflecting"})
    add("script.sampling_policy unknown", lambda s: setattr(s, "sampling_policy", "never"),
        lambda s: setattr(s, "sampling_policy", "no_sampling"), lambda s: s.sampling_policy == "no_sampling")
    add("script.init_state_processing unknown", lambda s: setattr(s, "init_state_processing", "round"),
        lambda s: setattr(s, "init_state_processing", "redist"), lambda s: s.init_state_processing == "redist")
    add("script.time_step of another dimension", lambda s: setattr(s, "time_step", "1 m"),
        lambda s: setattr(s, "time_step", "1 ms"), lambda s: str(s.time_step.units) == "ms")
    add("script.t_max of another dimension", lambda s: setattr(s, "t_max", UnitValue(1, "mol")),
        lambda s: setattr(s, "t_max", 3.0), lambda s: float(s.t_max.value) == 3.0)
    add("script.sampling_interval unreadable", lambda s: setattr(s, "sampling_interval", "2 parsec"),
        lambda s: setattr(s, "sampling_interval", 0.25), lambda s: float(s.sampling_interval.value) == 0.25)
    add("script.t_sample with an item of another dimension", lambda s: setattr(s, "t_sample", [0.0, "1 m", 2.0]),
        lambda s: setattr(s, "t_sample", [0.0, "1 s", 2.0]), lambda s: [float(v) for v in s.t_sample.value] == [0.0, 1.0, 2.0])
    add("script.system not a system", lambda s: setattr(s, "system", 5), lambda s: None, lambda s: True)
    add("script.rng_seed unreadable", lambda s: setattr(s, "rng_seed", "seven"), lambda s: setattr(s, "rng_seed", 11), lambda s: s.rng_seed == 11)
    holders = [("script", lambda s: s), ("system", lambda s: s.system), ("network", lambda s: s.system.network), ("space", lambda s: s.system.space),
               ("species[1]", lambda s: s.system.network.species[1]), ("reactions[0]", lambda s: s.system.network.reactions[0])]
    for hname, h in holders:
        for comp, bads, good in (("space", ["parsec", 5, "s"], "nm"), ("time", ["sec", None, "m"], "min"), ("quantity", ["molecules", 2.5, "M"], "mol")):
            for bad in bads:
                add("%s.units_system.%s = %r" % (hname, comp, bad), (lambda s, h=h, comp=comp, bad=bad: setattr(h(s).units_system, comp, bad)),
                    (lambda s, h=h, comp=comp, good=good: setattr(h(s).units_system, comp, good)),
                    (lambda s, h=h, comp=comp, good=good: getattr(h(s).units_system, comp) == good))
            add("%s.units_system[%r] = bad" % (hname, comp), (lambda s, h=h, comp=comp, bads=bads: h(s).units_system.__setitem__(comp, bads[0])),
                (lambda s, h=h, comp=comp, good=good: h(s).units_system.__setitem__(comp, good)),
                (lambda s, h=h, comp=comp, good=good: h(s).units_system[comp] == good))
        add("%s.units_system['bogus']" % hname, (lambda s, h=h: h(s).units_system.__setitem__("bogus", "s")), lambda s: None, lambda s: True)
        add("%s.units_system = text" % hname, (lambda s, h=h: setattr(h(s), "units_system", "SI")), lambda s: None, lambda s: True)
        add("%s.units_system = dict with a bad symbol" % hname, (lambda s, h=h: setattr(h(s), "units_system", {"space": "m", "time": "sec"})),
            (lambda s, h=h: setattr(h(s), "units_system", {"space": "m", "time": "h"})), (lambda s, h=h: h(s).units_system.time == "h"))
    sp1 = lambda s: s.system.network.species[0]
    add("species.D of another dimension", lambda s: setattr(sp1(s), "D", "1 s"), lambda s: setattr(sp1(s), "D", 4), lambda s: float(sp1(s).D.value) == 4.0)
    add("species.density dict with an entry of another dimension", lambda s: setattr(sp1(s), "density", {"a": 1, "b": UnitValue(1, "m")}),
        lambda s: setattr(sp1(s), "density", {"a": 1}), lambda s: float(sp1(s).density["a"].value) == 1.0)
    add("species.chstt not a flag", lambda s: setattr(sp1(s), "chstt", "yes"), lambda s: setattr(sp1(s), "chstt", 1), lambda s: sp1(s).chstt is True)
    r0 = lambda s: s.system.network.reactions[0]
    add("reaction.kf of another order", lambda s: setattr(r0(s), "kf", "1 µm3/s"), lambda s: setattr(r0(s), "kf", 6), lambda s: float(r0(s).kf.value) == 6.0)
    add("reaction.kr zero of another dimension", lambda s: setattr(r0(s), "kr", UnitValue(0, "s-2")), lambda s: setattr(r0(s), "kr", 0),
        lambda s: float(r0(s).kr.value) == 0.0)
    add("reaction.set_k with a zero kr of another dimension", lambda s: r0(s).set_k(1, UnitValue(-0.0, "µm")), lambda s: r0(s).set_k(1, 0), lambda s: float(r0(s).kr.value) == 0.0)
    add("reaction.kf zero text of another dimension", lambda s: setattr(r0(s), "kf", "0 µm"), lambda s: setattr(r0(s), "kf", "0 s-1"), lambda s: float(r0(s).kf.value) == 0.0)
    add("species.D zero of another dimension", lambda s: setattr(sp1(s), "D", UnitValue(0, "s")), lambda s: setattr(sp1(s), "D", UnitValue(0, "µm2/s")), lambda s: float(sp1(s).D.value) == 0.0)
    add("space.cell_vol zero of another dimension", lambda s: setattr(s.system.space, "cell_vol", UnitValue(0, "µm2")),
        lambda s: setattr(s.system.space, "cell_vol", "1 µm3"), lambda s: float(s.system.space.cell_vol.value) == 1.0)
    add("script.time_step zero of another dimension", lambda s: setattr(s, "time_step", "0 µm"), lambda s: setattr(s, "time_step", "1 s"), lambda s: float(s.time_step.value) == 1.0)
    add("state.value zero item of another dimension", lambda s: setattr(st(s), "value", [5.0, UnitValue(0, "s"), 7.0, 8.0, 9.0, 1.0, 2.0, 3.0]),
        lambda s: setattr(st(s), "value", [1.0] * 8), lambda s: [float(v) for v in st(s).value] == [1.0] * 8)
    add("reaction.kr dict with an array", lambda s: setattr(r0(s), "kr", {"a": 1.0, "b": [1, 2]}), lambda s: setattr(r0(s), "kr", {"b": 2}), lambda s: float(r0(s).kr["b"].value) == 2.0)
    netw = lambda s: s.system.network
    add("network.environments with the reserved name", lambda s: setattr(netw(s), "environments", ["a", "default"]),
        lambda s: setattr(netw(s), "environments", ["a", "b", "c"]), lambda s: list(netw(s).environments) == ["a", "b", "c"])
    add("network.environments empty tuple", lambda s: setattr(netw(s), "environments", ()), lambda s: None, lambda s: True)
    add("network.species with a non-species", lambda s: setattr(netw(s), "species", [Species("A"), 1]), lambda s: None, lambda s: True)
    add("network.reactions not an array", lambda s: setattr(netw(s), "reactions", "x"), lambda s: None, lambda s: True)
    return T


def diff_snap(a, b, path=""):
    if isinstance(a, dict) and isinstance(b, dict):
        out = []
        for k in sorted(set(a) | set(b)):
            out += diff_snap(a.get(k), b.get(k), path + "/" + str(k))
        return out
    return [] if a == b else [path]


def run_refused_write(i):
    """returns (name, failures, detail)"""
    name, bad, good, ok = refused_write_table()[i]
    s = fresh_script()
    before = snapshot(s)
    fails, detail = [], {}
    try:
        bad(s)
        fails.append(("refused-write:accepted", "%s was accepted" % name))
    except Exception as ex:  # noqa
        detail["exc"] = type(ex).__name__
    try:
        after = snapshot(s)
        changed = diff_snap(before, after)
    except Exception as ex:  # noqa
        changed = ["<the object can no longer be inspected: %s>" % type(ex).__name__]
    detail["changed"] = changed
    if changed:
        fails.append(("refused-write:changed", "%s raised (or not) but changed %s" % (name, changed)))
    try:
        good(s)
        if not ok(s):
            fails.append(("refused-write:then-valid", "after the refused %s, a valid write of the same kind did not take effect" % name))
    except Exception as ex:  # noqa
        fails.append(("refused-write:then-valid", "after the refused %s, a valid write of the same kind raised %s" % (name, type(ex).__name__)))
    return name, fails, detail


def refused_writes(ctx):
    n = len(refused_write_table())
    for i in range(n):
        name, fails, detail = run_refused_write(i)
        ctx.case(("refused-write", name), nontrivial=True)
        ctx.count("refused_write")
        for key, what in fails:
            report(ctx, key + ":" + name.split(" ")[0], what, {"kind": "refused-write", "index": i, "name": name}, impl=detail,
                   expected="exception; every getter and both arrays bit for bit as before; the next valid write works")


def key_pieces(rng, fn, k=None):
    """proper substrings of the accepted keys of `fn` that are not accepted keys themselves"""
    accepted = [x for syn in SPEC_KEYS[fn] for x in syn]
    out = []
    for key in accepted:
        for i in range(len(key)):
            for j in range(i + 1, len(key) + 1):
                sub = key[i:j]
                if sub != key and sub not in accepted and sub not in out and not sub.startswith("_"):   # "_…" keys are the generator's own
                    out.append(sub)
    if k is not None and len(out) > k:
        out = rng.sample(out, k)
    return out


DIRECT_DICTS = {
    "rdgridspace_from_dict": lambda: {"w": 2, "h": 1, "d": 1},
    "species_from_dict": lambda: {"label": "A"},
    "reaction_from_dict": lambda: {"stoichiometry": "A -> B"},
    "rdnetwork_from_dict": lambda: {"species": [{"label": "A"}]},
    "rdgraphspacenode_from_dict": lambda: {},
    "rdgraphspaceedge_from_dict": lambda: {"nodes": [0, 1]},
    "rdgraphspace_from_dict": lambda: {"nodes": [{}], "edges": []},
    "unitssystem_from_dict": lambda: {},
    "unitarray_from_dict": lambda: {"value": [1.0], "units": "s"},
}


def call_from_dict(fn, d):
    import strengths.rdnetwork as N, strengths.rdgridspace as G, strengths.rdgraphspace as GR, strengths.units as U
    f = None
    for mod in (N, G, GR, U):
        f = getattr(mod, fn, None) or f
    return call(lambda: f(copy.deepcopy(d)))


def direct_from_dict(ctx):
    """every *_from_dict called directly (no key added by an enclosing loader) with an unknown key that is a piece of an accepted one"""
    rng = ctx.rng
    ops, meta = [], []
    for fn, mk in DIRECT_DICTS.items():
        st0, _ = call_from_dict(fn, mk())
        if st0 != "ok":
            ctx.disagree("validate:valid-dict", {"kind": "direct-dict", "fn": fn, "dict": mk()}, "raised", {"ok": None})
            continue
        pieces = key_pieces(rng, fn)
        short = [p_ for p_ in pieces if len(p_) <= 2]
        near = [key[:-1] for syn in SPEC_KEYS[fn] for key in syn if len(key) > 1] + [key[1:] for syn in SPEC_KEYS[fn] for key in syn if len(key) > 1]
        chosen = [p_ for p_ in dict.fromkeys(near + short) if p_ in pieces]
        rest = [p_ for p_ in pieces if p_ not in chosen]
        chosen += rest if ctx.tier == "thorough" else rng.sample(rest, min(25, len(rest)))
        for bad in chosen:
            d = mk()
            d[bad] = 1
            ops.append({"op": "validate", "kind": "keys", "fn": fn, "keys": list(d)})
            meta.append((fn, bad, d))
    res = ctx.model.run(ops)
    for (fn, bad, d), r in zip(meta, res):
        st, exc = call_from_dict(fn, d)
        case = {"kind": "direct-dict", "fn": fn, "dict": d, "bad": bad}
        ctx.case(("direct-dict", fn, bad), nontrivial=True)
        ctx.count("direct_dict_unknown_piece")
        if st == "ok":
            report(ctx, "unknown-key-piece@%s" % fn, "%s(%r): the unknown key %r (a piece of an accepted key) was accepted" % (fn, d, bad),
                   case, impl="accepted", expected="exception")
        if r is not None and ("error" in r) != (st == "error"):
            ctx.disagree("validate:unknown-key-piece", case, st, r)


def thunk_of(op):
    """the real-code call a `validate` op of the direct stream stands for"""
    from strengths.rdspace import RDGridSpace
    from strengths.rdnetwork import RDNetwork, Species
    from strengths.rdscript import RDScript
    from strengths.rdsystem import RDSystem
    from strengths.units import UnitsSystem
    k = op["kind"]
    if k == "boundary":
        bc = dict((a, c) for a, c in op["bc"])
        g = RDGridSpace(2, 2, 2, boundary_conditions={"x": "periodical", "y": "periodical", "z": "periodical"})
        before = g.get_boundary_conditions()
        try:
            g.set_boundary_conditions(dict(bc))
            return "ok", {"before": before, "after": g.get_boundary_conditions()}
        except Exception as ex:  # noqa
            return "error", {"before": before, "after": g.get_boundary_conditions(), "exc": type(ex).__name__}
    if k in ("policy", "mode"):
        rds0, _, _, _ = make_system("grid", (1, 1, 1), ["A"])
        if k == "policy":
            return call(lambda: RDScript(rds0, [1.0], sampling_policy=op["v"]))
        return call(lambda: RDScript(rds0, [1.0], init_state_processing=op["v"]))
    if k == "grid_ctor":
        if "raw" in op:
            raw = materialize(op["raw"])
            return call(lambda: RDGridSpace(raw[0], raw[1], raw[2]))
        if "arr" in op["env"]:
            return call(lambda: RDGridSpace(op["w"], op["h"], op["d"], cell_env=list(op["env"]["arr"])))
        return call(lambda: RDGridSpace(op["w"], op["h"], op["d"]))
    if k == "environments":
        import numpy as np
        envs = {"tuple": tuple, "ndarray": np.array}.get(op.get("container"), list)(op["envs"])
        return call(lambda: RDNetwork([Species("A")], [], environments=envs))
    if k == "sys":
        return call(lambda: UnitsSystem(op["space"], op["time"], op["quantity"]))
    if k == "env_map":
        net = RDNetwork([Species("S%d" % i) for i in range(op["nspecies"])], [], environments=["e%d" % i for i in range(op["nenv"])])
        return call(lambda: RDSystem(net, RDGridSpace(len(op["cell_env"]), 1, 1, cell_env=list(op["cell_env"]))))
    raise ValueError(k)


def direct_verdict(cls, invalid, st, detail):
    """(key, what) of the oracle failures of one direct call"""
    out = []
    if invalid and st == "ok":
        out.append(("%s@setter" % cls, "was accepted"))
    if cls == "boundary" and st == "error" and detail["after"] != detail["before"]:
        out.append(("boundary-partial-update", "raised but changed the stored boundary conditions from %r to %r" % (detail["before"], detail["after"])))
    return out


def call(f):
    try:
        f()
        return "ok", None
    except Exception as ex:  # noqa
        return "error", type(ex).__name__


def species_reuse(ctx):
    """one RDNetwork object re-used: resolve labels, replace the species list through the public setter, query again:
    a label that is no longer a species must raise, the others must address the entry of their CURRENT index"""
    rng = ctx.rng
    ops, meta = [], []
    for i in range(ctx.n(120, 2500)):
        labels = rng.choice([["A", "B"], ["A", "B", "C"], ["A", "B", "C", "D"]])
        kind = rng.choice(["grid", "graph"])
        shape = (rng.randint(1, 2), rng.randint(1, 2), 1) if kind == "grid" else rng.randint(1, 3)
        size = shape[0] * shape[1] * shape[2] if kind == "grid" else shape
        how = rng.choice(["drop", "drop", "reverse", "rename", "drop-first"])
        if how == "drop":
            new = [l for l in labels if l != rng.choice(labels)]
            new = new if len(new) < len(labels) else labels[:-1]
        elif how == "drop-first":
            new = labels[1:]
        elif how == "reverse":
            new = list(reversed(labels))
        else:
            new = [l if j != len(labels) - 1 else "Z" for j, l in enumerate(labels)]
        reuse = {"resolve": rng.sample(labels, rng.randint(1, len(labels))), "new_labels": new, "how": how}
        for sref in sorted(set(labels) | set(new)):
            acc = rng.choice(SPECIES_ACCESSORS)
            pos = rng.randrange(size)
            got, valid, case = check_access(ctx, kind, shape, labels, sref, pos, acc, (), reuse)
            ctx.case(("reuse", kind, str(shape), tuple(labels), tuple(new), sref, pos, acc), nontrivial=True)
            ctx.count("species_reuse_" + ("valid" if valid else "removed-label"))
            op = model_access_op(kind, shape, new, sref, pos, acc, got["state0"])
            if op is not None and acc != "set_state":
                ops.append(op)
                meta.append((case, got, acc))
    res = ctx.model.run(ops)
    for (case, got, acc), r in zip(meta, res):
        if r is None:
            continue
        if ("error" in r) != (got["result"] == "error"):
            ctx.disagree("validate:access-after-species-replaced", case, {k: got[k] for k in ("result", "value", "exc") if k in got}, r)
        elif "ok" in r and acc == "get_state_index" and got.get("value") != r["ok"]:
            ctx.disagree("validate:access-after-species-replaced", case, got.get("value"), r)


# ---------------------------------------------------------------------------------------------
# call histories: a units object the package handed out is edited in place by its owner; the dimension check of every
# later quantity must not depend on it
# ---------------------------------------------------------------------------------------------
DIM_KEYS = ["space", "time", "quantity"]
DIM_FUNCTIONS = {(-3, 0, 1): "density_units_dimensions", (2, 0, 0): "surface_units_dimensions", (3, 0, 0): "volume_units_dimensions",
                 (0, 0, 1): "quantity_units_dimensions", (1, 0, 0): "space_units_dimensions", (0, 1, 0): "time_units_dimensions"}
# public calls that hand a units object to the caller (the object is the caller's from then on)
UNITS_PRODUCERS = ["parse_units", "Units(text)", "parse_unitvalue.units", "UnitValue(v,text).units", "UnitValue(text).units", "UnitArray.units",
                   "Units.copy", "Units.multiply", "stored-field.units", "stored-field.copy.units", "dimension-function", "Units(sys,dim).dim",
                   "kf_units_dimensions"]
UNITS_EDITS = ["dim[k]=", "dim.k=", "dim=UnitsDimensions", "dim=dict", "sys[k]="]
QUANTITY_FORMS = ["text", "UnitValue(v,text)", "UnitValue(text)", "UnitValue(v,Units(text))", "parse_unitvalue", "UnitValue(v,parse_units)"]
HISTORY_FIELDS = {"Species.D": (2, -1, 0), "Species.density": (-3, 0, 1), "RDGridSpace.cell_vol": (3, 0, 0), "RDGraphSpaceNode.volume": (3, 0, 0),
                  "RDGraphSpaceEdge.surface": (2, 0, 0), "RDGraphSpaceEdge.distance": (1, 0, 0), "RDScript.time_step": (0, 1, 0),
                  "RDScript.t_max": (0, 1, 0), "RDScript.sampling_interval": (0, 1, 0), "RDSystem.set_state": (0, 0, 1),
                  "Reaction.kf/1": k_dim(1), "Reaction.kf/2": k_dim(2), "Reaction.kf/3": k_dim(3), "Reaction.kr/2": k_dim(2)}
assert all(HISTORY_FIELDS[f] == d for f, d in SPEC_DIM.items() if f in HISTORY_FIELDS)
STOICH = {"Reaction.kf/1": "A -> B", "Reaction.kf/2": "A + B -> C", "Reaction.kf/3": "2 A + B -> C", "Reaction.kr/2": "A -> B + C"}


def units_snap(u):
    return [[str(u.sys[k]) for k in DIM_KEYS], [int(u.dim[k]) for k in DIM_KEYS]]


def quantity_of(form, v, text):
    """the quantity `v text` in one of the public forms a field accepts (built at the moment of use)"""
    from strengths.units import UnitValue, Units, parse_unitvalue, parse_units
    if form == "text":
        return "%r %s" % (v, text)
    if form == "UnitValue(v,text)":
        return UnitValue(v, text)
    if form == "UnitValue(text)":
        return UnitValue("%r %s" % (v, text))
    if form == "UnitValue(v,Units(text))":
        return UnitValue(v, Units(text))
    if form == "UnitValue(v,parse_units)":
        return UnitValue(v, parse_units(text))
    if form == "parse_unitvalue":
        return parse_unitvalue("%r %s" % (v, text))
    raise ValueError(form)


def field_store(field, route, q):
    """give the quantity q to `field` (through the constructor or the setter of a default-built object); returns what the
    object then holds for that field"""
    from strengths.rdnetwork import Species, Reaction
    from strengths.rdspace import RDGridSpace
    from strengths.rdgraphspace import RDGraphSpaceNode, RDGraphSpaceEdge
    from strengths.rdscript import RDScript
    cls, attr = field.split("/")[0].split(".")
    if cls == "RDSystem":
        rds0, _, _, _ = make_system("grid", (2, 1, 1), ["A"])
        rds0.set_state("A", 1, q)
        return rds0.get_state("A", 1)
    if cls == "RDScript":
        rds0, _, _, _ = make_system("grid", (1, 1, 1), ["A"])
        if route == "ctor":
            return getattr(RDScript(rds0, [1.0], **{attr: q}), attr)
        obj = RDScript(rds0, [1.0])
    elif cls == "Reaction":
        if route == "ctor":
            return getattr(Reaction(STOICH[field], **{attr: q}), attr)
        obj = Reaction(STOICH[field])
    else:
        mk = {"Species": lambda **kw: Species("A", **kw), "RDGridSpace": lambda **kw: RDGridSpace(2, 1, 1, **kw),
              "RDGraphSpaceNode": lambda **kw: RDGraphSpaceNode(**kw), "RDGraphSpaceEdge": lambda **kw: RDGraphSpaceEdge(0, 1, **kw)}[cls]
        if route == "ctor":
            return getattr(mk(**{attr: q}), attr)
        obj = mk()
    setattr(obj, attr, q)
    return getattr(obj, attr)


def produce_units(producer, sys, dim, v, field):
    """the object a public call hands out for the units (sys, dim): a Units or a UnitsDimensions"""
    import strengths.units as U
    from strengths.rdnetwork import Reaction
    text = units_text(sys, dim)
    if producer == "parse_units":
        return U.parse_units(text)
    if producer == "Units(text)":
        return U.Units(text)
    if producer == "parse_unitvalue.units":
        return U.parse_unitvalue("%r %s" % (v, text)).units
    if producer == "UnitValue(v,text).units":
        return U.UnitValue(v, text).units
    if producer == "UnitValue(text).units":
        return U.UnitValue("%r %s" % (v, text)).units
    if producer == "UnitArray.units":
        return U.UnitArray([v, v], text).units
    if producer == "Units.copy":
        return U.parse_units(text).copy()
    if producer == "Units.multiply":
        u_ = U.parse_units(text)
        return u_.multiply(U.Units(u_.sys, U.UnitsDimensions()))
    if producer == "stored-field.units":
        return field_store(field, "ctor", "%r %s" % (v, text)).units
    if producer == "stored-field.copy.units":
        return field_store(field, "setter", "%r %s" % (v, text)).copy().units
    if producer == "dimension-function":
        return getattr(U, DIM_FUNCTIONS[tuple(dim)])()
    if producer == "Units(sys,dim).dim":
        return U.Units(U.UnitsSystem(*eff(sys, dim)), U.UnitsDimensions(*dim)).dim
    if producer == "kf_units_dimensions":
        r = Reaction(STOICH[field])
        return r.kf_units_dimensions() if ".kf" in field else r.kr_units_dimensions()
    raise ValueError(producer)


def edit_units(obj, edit, sys2, dim2):
    """the owner of `obj` edits it in place through its public attributes so that it reads (sys2, dim2)"""
    from strengths.units import Units, UnitsDimensions
    d = obj.dim if type(obj) is Units else obj
    if edit == "sys[k]=":
        for k, sym in zip(DIM_KEYS, sys2):
            obj.sys[k] = sym
        return
    if edit in ("dim[k]=", "dim.k=") or type(obj) is not Units:
        for k, e in zip(DIM_KEYS, dim2):
            if int(d[k]) != e:
                if edit == "dim.k=":
                    setattr(d, k, e)
                else:
                    d[k] = e
    elif edit == "dim=UnitsDimensions":
        obj.dim = UnitsDimensions(*dim2)
    else:
        obj.dim = dict(zip(DIM_KEYS, dim2))


def run_units_history(case):
    """producer call(s) -> in-place edit of the returned object -> (optional) legitimate use of the edited object -> probes.
    Returns {"own": what the edited object reads, "second": a second result fetched BEFORE the edit, re-read after it,
    "fresh": the same producer call made after the edit, "probes": [[status, stored | exception name]]}"""
    from strengths.units import Units, UnitValue
    sys1, dim1, sys2, dim2, v = case["sys"], case["dim"], case["sys2"], case["dim2"], case["v"]
    out = {}

    def snap(o):
        return units_snap(o) if type(o) is Units else [None, [int(o[k]) for k in DIM_KEYS]]
    try:
        mine = produce_units(case["producer"], sys1, dim1, v, case["field"])
        second = produce_units(case["producer"], sys1, dim1, v, case["field"])
        out["before"] = snap(mine)
        edit_units(mine, case["edit"], sys2, dim2)
        out["own"] = snap(mine)
        if case.get("use") and type(mine) is Units:
            st_, x_ = call_value(lambda: field_store(case["use"], "ctor", UnitValue(v, mine)))
            out["use"] = [st_, x_]
        out["second"] = snap(second)
        out["fresh"] = snap(produce_units(case["producer"], sys1, dim1, v, case["field"]))
    except Exception as ex:  # noqa
        out["history_error"] = "%s: %s" % (type(ex).__name__, str(ex)[:80])
    out["probes"] = []
    for field, route, form, text, pv in case["probes"]:
        st, x = call_value(lambda: field_store(field, route, quantity_of(form, pv, text)))
        out["probes"].append([st, x])
    return out


def call_value(f):
    try:
        x = f()
    except Exception as ex:  # noqa
        return "error", type(ex).__name__
    try:
        return "ok", [float(x.value)] + units_snap(x.units)
    except Exception as ex:  # noqa
        return "ok", "unreadable result %s (%s)" % (type(x).__name__, type(ex).__name__)


def units_history_verdict(case, got):
    """oracle of one history: every probe whose unit text has another dimension than its field must have raised"""
    fails = []
    for (field, route, form, text, pv), pdim, (st, x) in zip(case["probes"], case["probe_dims"], got["probes"]):
        if tuple(pdim) != tuple(HISTORY_FIELDS[field]) and st == "ok":
            fails.append(("dimension-after-edited-units-object@%s" % field.split("/")[0],
                          "%s given %r (dimension %s, field demands %s) as %s through the %s was accepted (stored %r) after the object returned by "
                          "%s for %r had been edited in place (%s) by its owner" % (field, "%r %s" % (pv, text), list(pdim), list(HISTORY_FIELDS[field]), form, route, x,
                                                                                  case["producer"], units_text(case["sys"], case["dim"]), case["edit"])))
    return fails


def gen_units_history(rng):
    fields = sorted(HISTORY_FIELDS)
    f1 = rng.choice(fields)
    dim1 = HISTORY_FIELDS[f1]
    producer = rng.choice(UNITS_PRODUCERS)
    if producer == "dimension-function" and dim1 not in DIM_FUNCTIONS:
        producer = "parse_units"
    if producer == "kf_units_dimensions" and not f1.startswith("Reaction"):
        producer = "Units(text)"
    if producer.startswith("stored-field") and f1 == "RDSystem.set_state":
        producer = "UnitArray.units"        # an entry of the state is stored in the units of the state, not in those of the text
    f2 = rng.choice([f for f in fields if HISTORY_FIELDS[f] != dim1])
    dim2 = HISTORY_FIELDS[f2]
    sys1 = rand_sys(rng)
    edit = rng.choice(UNITS_EDITS)
    sys2 = list(sys1)
    if edit == "sys[k]=":
        if producer in ("dimension-function", "Units(sys,dim).dim", "kf_units_dimensions"):
            edit = "dim[k]="
        else:
            for k, pool in enumerate((SPACE, TIME, QTY)):
                if dim1[k] != 0 or rng.random() < 0.3:
                    sys2[k] = rng.choice([x for x in pool if x != sys1[k]])
            dim2 = dim1
    v = float(rng.randint(1, 40)) / rng.choice([1, 2, 4])
    t1, t2 = units_text(sys1, dim1), units_text(sys1, HISTORY_FIELDS[f2])
    f3 = rng.choice([f for f in fields if HISTORY_FIELDS[f] not in (dim1,)])
    f1b = rng.choice([f for f in fields if HISTORY_FIELDS[f] == dim1])

    def probe(field, text, dim):
        return [field, rng.choice(["ctor", "setter"]), rng.choice(QUANTITY_FORMS), text, float(rng.randint(0, 9))], list(dim)
    # the unit text of the history in the field of the edited dimension (invalid) and in its own field (valid); the text of the
    # edited dimension in the field of the original one (invalid) and in its own (valid); the text in an unrelated field
    plist = [probe(f2, t1, dim1), probe(f1b, t1, dim1), probe(f1, t2, HISTORY_FIELDS[f2]), probe(f2, t2, HISTORY_FIELDS[f2]), probe(f3, t1, dim1)]
    rng.shuffle(plist)
    return {"kind": "units-history", "producer": producer, "field": f1, "sys": list(sys1), "dim": list(dim1), "edit": edit, "sys2": list(sys2),
            "dim2": list(dim2), "v": v, "use": f2 if (edit != "sys[k]=" and rng.random() < 0.5) else None,
            "probes": [p for p, _ in plist], "probe_dims": [d for _, d in plist]}


def units_object_histories(ctx, n=None):
    """a units object obtained from a public call is the caller's: he edits it in place (another dimension / another symbol), may use
    it, and afterwards quantities written with the same unit text are handed to fields of every dimension.  Oracle: a quantity whose
    dimension differs from the field's raises, whatever was done to objects handed out before.  Correspondence: the (history-free)
    model's verdict and stored units for every probe; a second result fetched before the edit and a fresh one fetched after it read
    as the text says (no aliasing between results)."""
    rng = ctx.rng
    cases, ops = [], []
    for i in range(n if n is not None else ctx.n(260, 6000)):
        case = gen_units_history(rng)
        cases.append(case)
        for (field, route, form, text, pv) in case["probes"]:
            ops.append({"op": "validate", "kind": "field_dim", "dim": list(HISTORY_FIELDS[field]), "sys": sysj(DEFAULT_SYS),
                        "v": {"text": {"v": rstr(pv), "u": text}}})
    res = ctx.model.run(ops)
    at = 0
    for case in cases:
        got = run_units_history(case)
        rs = res[at:at + len(case["probes"])]
        at += len(case["probes"])
        ctx.case(("units-history", case["producer"], case["edit"], case["field"], tuple(case["sys"]), tuple(case["dim2"]), tuple(case["sys2"]),
                  tuple(tuple(p[:4]) for p in case["probes"])), nontrivial=True,
                 sample={"producer": case["producer"], "text": units_text(case["sys"], case["dim"]), "edit": case["edit"], "own": got.get("own")})
        ctx.count("units_history_" + case["producer"])
        ctx.count("units_history_edit_" + case["edit"])
        for key, what in units_history_verdict(case, got):
            report(ctx, key, what, case, impl=got, expected="exception")
        if "history_error" in got:
            ctx.count("units_history_not_completed")
            ctx.disagree("validate:units-history", case, got["history_error"], {"ok": "every step of the history is a documented call"})
            continue
        spec = [list(eff(case["sys"], case["dim"])), list(case["dim"])]
        for which in ("second", "fresh"):
            g = got[which]
            if g[1] != spec[1] or (g[0] is not None and g[0] != spec[0]):
                ctx.disagree("validate:units-history-" + which, case, got, {"ok": spec})
        if got.get("use") and got["use"][0] != "ok":
            ctx.count("units_history_own_object_refused")
        for (field, route, form, text, pv), pdim, (st, x), r in zip(case["probes"], case["probe_dims"], got["probes"], rs):
            valid = tuple(pdim) == tuple(HISTORY_FIELDS[field])
            ctx.count("units_history_probe_" + ("valid" if valid else "invalid"))
            if r is None:
                continue
            if ("error" in r) != (st == "error"):
                ctx.disagree("validate:dimension-after-history", dict(case, probe=[field, route, form, text, pv]), [st, x], r)
            elif "ok" in r and isinstance(x, list):
                u = r["ok"]["u"]
                mdim = [int(e) for e in u["dim"]]
                msys = [u["sys"][k] for k in DIM_KEYS]
                same_sys = all(a == b for a, b, e in zip(x[1], msys, mdim) if e != 0)
                if field == "RDSystem.set_state":       # stored converted to the units of the state: the dimension is what can be compared
                    same_sys, x = True, [rparse(r["ok"]["v"]), x[1], x[2]]
                if x[2] != mdim or not same_sys or not close(x[0], rparse(r["ok"]["v"]), rel=1e-12):
                    ctx.disagree("validate:stored-after-history", dict(case, probe=[field, route, form, text, pv]), x, r)


def positional_sweep(ctx):
    rng = ctx.rng
    shapes = [(w, h, d) for w in (1, 2, 3) for h in (1, 2, 3) for d in (1, 2, 3)]
    label_sets = [["A"], ["A", "B"], ["A", "B", "C"]]
    ops, meta = [], []

    def one(kind, shape, labels, sref, pos, accessor, periodic=()):
        got, valid, case = check_access(ctx, kind, shape, labels, sref, pos, accessor, periodic)
        ctx.case(("acc", kind, str(shape), len(labels), str(sref), str(pos), accessor), nontrivial=True)
        ctx.count("access_%s_%s" % (kind, "valid" if valid else "invalid"))
        op = model_access_op(kind, shape, labels, sref, pos, accessor, got["state0"])
        if op is not None:
            ops.append(op)
            meta.append((case, got, accessor))
    thorough = ctx.tier == "thorough"
    for shape in shapes:
        w, h, d = shape
        size = w * h * d
        combos = []
        for labels in label_sets:
            srefs = list(range(-1, len(labels) + 1)) + labels + ["Z"]
            for sref in srefs:
                for acc in SPECIES_ACCESSORS:
                    combos.append((labels, sref, acc))
        if not thorough:
            combos = rng.sample(combos, 3)
        for labels, sref, acc in combos:
            ns = len(labels)
            for p in range(-size - 2, ns * size + 3):
                one("grid", shape, labels, sref, p, acc)
            for x in range(-2, w + 2):
                for y in range(-2, h + 2):
                    for z in range(-2, d + 2):
                        if thorough or rng.random() < 0.28:
                            one("grid", shape, labels, sref, (x, y, z), acc)
                        if thorough or rng.random() < 0.25:
                            one("grid", shape, labels, sref, {"obj": [x, y, z]}, acc)
        per = rng.choice([(), ("x",), ("x", "y", "z")])
        for acc in SPACE_ACCESSORS + ["get_cell_coordinates", "is_within_bounds"]:
            if not thorough and rng.random() < 0.5:
                continue
            for p in range(-size - 2, 2 * size + 3):
                one("grid", shape, ["A", "B"], 0, p, acc, per)
            if acc != "get_cell_coordinates":
                for x in range(-2, w + 2):
                    for y in range(-2, h + 2):
                        for z in range(-2, d + 2):
                            if thorough or rng.random() < 0.25:
                                one("grid", shape, ["A", "B"], 0, (x, y, z), acc, per)
                            if thorough or rng.random() < 0.2:
                                one("grid", shape, ["A", "B"], 0, {"obj": [x, y, z]}, acc, per)
    # one axis outside (below 0 / at or beyond the size) while the other two are in range: every axis, every accessor
    # and setter, as a tuple and as an object with x, y, z attributes
    for shape in shapes:
        dims = list(shape)
        for axis in range(3):
            bad_values = [-1, -2, dims[axis], dims[axis] + 1]
            for bad in (bad_values if thorough else rng.sample(bad_values, 2)):
                xyz = [rng.randrange(dims[0]), rng.randrange(dims[1]), rng.randrange(dims[2])]
                xyz[axis] = bad
                labels = rng.choice(label_sets)
                sref = rng.choice(labels + list(range(len(labels))))
                for acc in SPECIES_ACCESSORS + SPACE_ACCESSORS + ["is_within_bounds"]:
                    one("grid", shape, labels, sref, tuple(xyz), acc)
                    one("grid", shape, labels, sref, {"obj": list(xyz)}, acc)
    for nn in range(1, 4):
        for acc in SPECIES_ACCESSORS + SPACE_ACCESSORS:
            one("graph", nn, ["A", "B"], "A", {"obj": [0, 0, 0]}, acc)       # a graph node is never an object / a triple
    for nn in range(1, 7):
        for labels in label_sets:
            srefs = list(range(-1, len(labels) + 1)) + labels + ["Z"]
            for sref in (srefs if thorough else rng.sample(srefs, 2)):
                for acc in (SPECIES_ACCESSORS if thorough else rng.sample(SPECIES_ACCESSORS, 2)):
                    for p in range(-nn - 2, len(labels) * nn + 3):
                        one("graph", nn, labels, sref, p, acc)
        for acc in SPACE_ACCESSORS:
            for p in range(-nn - 2, 2 * nn + 3):
                one("graph", nn, ["A", "B"], 0, p, acc)
    res = []
    for lo in range(0, len(ops), 5000):
        res += ctx.model.run(ops[lo:lo + 5000])
    for (case, got, accessor), r in zip(meta, res):
        if r is None:
            continue
        if ("error" in r) != (got["result"] == "error"):
            ctx.disagree("validate:access", case, {k: got[k] for k in ("result", "value", "exc") if k in got}, r)
        elif "ok" in r:
            if accessor in ("get_state_index", "get_cell_index") and got.get("value") != r["ok"]:
                ctx.disagree("validate:access-index", case, got.get("value"), r)
            if accessor == "set_state":
                after = list(got["state0"])
                for i in got["state_changed"]:
                    after[i] = -7.0
                if [rparse(v) for v in r["ok"]] != [frac(v) for v in after]:
                    ctx.disagree("validate:set_entry", case, after, r)


def search(ctx):
    """an obligation broke and no input failed yet: the call-history stream at thorough size"""
    units_object_histories(ctx, 6000)


def replay(ctx, rec):
    case = rec.get("case", rec)
    kind = case.get("kind")
    if kind == "faulted-model":
        st, obj = build(case["script"])
        return st == "error", {"class": case["class"], "location": case["location"], "what": case["what"],
                               "impl": ("raised " + obj) if st == "error" else "accepted", "expected": "exception"}
    if kind == "access":
        class _C:  # collect instead of reporting
            def __init__(self):
                self.v = []

            def count(self, *a):
                pass

            def violation(self, key, what, case, impl=None, expected=None):
                self.v.append([key, what])
        c = _C()
        pos = case["pos"] if isinstance(case["pos"], dict) else tuple(case["pos"]) if isinstance(case["pos"], list) else case["pos"]
        shape = tuple(case["shape"]) if isinstance(case["shape"], list) else case["shape"]
        got, valid, _ = check_access(c, case["space"], shape, case["labels"], case["species"], pos, case["accessor"], tuple(case.get("periodic", ())),
                                     case.get("reuse"))
        return (not c.v), {"case": case, "impl": {k: got[k] for k in ("result", "value", "exc", "state_changed", "chem_changed") if k in got},
                           "valid_input": valid, "failures": c.v}
    if kind == "index-map" and case.get("entry"):
        got = run_index_map_entry(tuple(case["shape"]), case["im"], case["env"], case["entry"])
        inv = spec_index_map_invalid(case["im"], case["env"])
        return not (inv and got == "ok"), {"case": case, "impl": got, "invalid_because": inv}
    if kind == "index-map":
        got = run_index_map(tuple(case["shape"]), case["im"], case["env"])
        inv = spec_index_map_invalid(case["im"], case["env"])
        return not (inv and got == "ok"), {"case": case, "impl": got, "invalid_because": inv}
    if kind == "direct-dict":
        st, exc = call_from_dict(case["fn"], case["dict"])
        return st == "error", {"case": case, "impl": [st, exc], "expected": "exception"}
    if kind == "refused-write":
        name, fails, detail = run_refused_write(case["index"])
        return (not fails), {"case": case, "name": name, "impl": detail, "failures": fails}
    if kind == "engine-option":
        st, exc = engine_setup(case["option"], case["graph"])
        return not (case["invalid"] and st == "ok"), {"case": case, "impl": [st, exc], "expected": "exception" if case["invalid"] else "accepted"}
    if kind == "units-history":
        got = run_units_history(case)
        fails = units_history_verdict(case, got)
        return (not fails), {"case": case, "impl": got, "failures": fails}
    if kind == "direct":
        st, detail = thunk_of(case["op"])
        fails = direct_verdict(case["class"], case["invalid"], st, detail)
        return (not fails), {"case": case, "impl": [st, detail], "failures": fails}
    return False, {"note": "unknown case kind", "case": case}
