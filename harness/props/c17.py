"""C17 — Trajectory accessors all read the same array consistently.

Theorems: lean/Strengths/Props/C17.lean (flat index, lookup guards / loop tests / returned indices, policy
list, accessor slices regenerated from rdoutput.py: groups IndexPy, TrajPy).
Correspondence: op `traj` (point / state / whole state / cell trajectory / merged / sample index) on
trajectories constructed directly from known arrays (grid and graph systems) and on simulated ones.
Oracle (independent of the code and of the model's algorithm): direct indexing of the known flat array,
brute-force search over the sample times in exact SI arithmetic.
"""
import math
from fractions import Fraction
import numpy as np
from common import frac, rstr, rparse, close, fstr
import common
from props.c06 import PREFIX, TIME, QTY, SPACE, si_time, si_qty

ID = "C17"
LEAN_TARGETS = ["Strengths.Props.C17"]
PROP_FILES = ["Strengths/Props/C17.lean"]
GEN_GROUPS = ["IndexPy", "TrajPy", "Units"]
RULE = ("trajectories: nsamples 1..6 x nspecies 1..4 x (grid w,h,d 1..3 | graph 1..6 nodes), data = distinct known numbers (about a third of the trajectories with negative entries), "
        "times non-decreasing dyadic (mostly strictly increasing, some with repeated times, some 'bursts': large offset + tiny strictly "
        "increasing steps with relative spacing below 1e-9), random time / quantity units; "
        "species labels A..D or (40 %) sets differing only by case / prefixes of each other / index-like strings in another order; "
        "every (species, sample, cell) triple read through the four accessors with rotating argument forms "
        "(label / index / float index / object; index / tuple / list / coordinate object / numpy int); every species x sample state, "
        "whole states, merged trajectories; lookups: before first, after last, on every sample, exact midpoints, random in-between, "
        "x three policies x four query forms (number, UnitValue same unit, UnitValue other unit, text); malformed stream: unknown "
        "species / out-of-range cell / sample, non-time query, unknown policy; merge flag given as False / 0 / numpy.False_ / numpy.bool_(0) (and the truthy forms); on half of the "
        "trajectories a refused `system.space = <space with an undefined environment>` precedes the accessor comparisons (on the "
        "caller's system before construction, or on trajectory.system); object re-use: after the queries the caller assigns "
        "another space (transposed / larger) and a network with reversed species order to the system object it had passed to "
        "RDTrajectory and up to 16 accessor calls are repeated (results must not change); edit-then-reread histories on a quarter of "
        "the constructed trajectories: the trajectory is rebuilt, (80 %) read once through every accessor, then its arrays are edited "
        "through the public UnitArray interface (data.value = list / ndarray / value - k, data.set_value with and without check, "
        "in-place value[:] = / value -= k / value[i] = / data.set_at, t.value = / t.set_value with other sample times, data.units = "
        "another quantity unit) on the trajectory itself, on a copy.deepcopy of it, or on a deep copy while the ORIGINAL is "
        "re-inspected; the full query list is then judged against the content the arrays hold after the edit.  A case is non-trivial when the trajectory has "
        ">1 of the dimension being indexed (or, for lookups, when the query is not outside the sampled range); distinct by "
        "(shape, kind, query)")
ASSUMPTIONS = [
    "numpy reshape is C-order and negative indices wrap (stated model `reshape3`, `npNorm`)",
    "float(text) of the repr of a double returns that double (query given as text)",
    "sample times / queries are dyadic rationals so that the subtractions t - t[i] of the closest policy are exact; "
    "cross-unit queries closer than 1e-6 (relative) to a sample time or to an exact midpoint are counted as ambiguous and skipped "
    "unless the float conversion is exact",
]
TRUSTED = ["Python-side SI table of props/c06.py (time / quantity prefixes) for the lookup oracle",
           "parse_unitvalue for the text form of a query (covered by C18)"]

LABELS = ["A", "B", "C", "D"]
# label sets that differ only by case, that are prefixes of each other, or that look like indices in another order
LABEL_SETS = [["a", "b", "A", "B"], ["GFP", "gfp", "Gfp", "gFP"], ["A", "AB", "ABC", "B"], ["1", "0", "3", "2"], ["x", "X", "xx", "Xx"]]


def sysj(s):
    return {"space": s[0], "time": s[1], "quantity": s[2]}


def unitsj(s, d):
    return {"sys": sysj(s), "dim": list(d)}


class Coord:
    def __init__(self, x, y, z):
        self.x, self.y, self.z = x, y, z


def make_system(rng, kind, shape, ns, usys, labels=None):
    """an RDSystem of the repository's own types: grid (w,h,d) or graph (n nodes, random edges)"""
    from strengths import rdsystem_from_dict
    labels = labels or LABELS
    species = [{"label": labels[i], "density": 1 + i} for i in range(ns)]
    net = {"species": species, "reactions": []}
    if kind == "grid":
        w, h, d = shape
        space = {"w": w, "h": h, "d": d}
    else:
        n = shape
        edges = []
        for i in range(n):
            for j in range(i + 1, n):
                if rng.random() < 0.4:
                    edges.append({"nodes": [i, j], "surface": 1 + rng.randint(0, 3), "distance": 1})
        space = {"type": "graph", "nodes": [{"volume": 1 + rng.randint(0, 2)} for _ in range(n)], "edges": edges}
    return rdsystem_from_dict({"network": net, "space": space, "units": {"space": usys[0], "time": usys[1], "quantity": usys[2]}})


def gen_times(rng, n):
    """non-decreasing dyadic times; returns (times, has_duplicates)"""
    t = Fraction(rng.randint(-8, 16), 4)
    dup = False
    style = rng.random()
    if style > 0.88:
        # a long equilibration followed by a finely sampled burst: large offset, tiny increments (relative spacing below 1e-9),
        # still strictly increasing and exact as doubles (2^20 + k * 2^-11, or 5 * 2^30 + k * 2^-1)
        base, unit = rng.choice([(Fraction(2 ** 20), Fraction(1, 2 ** 11)), (Fraction(5 * 2 ** 30), Fraction(1, 2))])
        out = [Fraction(rng.randint(0, 8), 4)] if (n > 2 and rng.random() < 0.5) else []
        t = base + unit * rng.randint(0, 3)
        while len(out) < n:
            out.append(t)
            t += unit * rng.randint(1, 3)
        return out, False
    out = [t]
    for _ in range(n - 1):
        if style < 0.25 and rng.random() < 0.4:
            step = Fraction(0)
            dup = True
        else:
            step = Fraction(rng.randint(1, 24), rng.choice([1, 2, 4, 8]))
        t += step
        out.append(t)
    return out, dup


def species_arg(rng, s, system, form, LABELS=LABELS):
    """(python argument, model json)"""
    if form == "label":
        return LABELS[s], {"label": LABELS[s]}
    if form == "index":
        return s, {"idx": s}
    if form == "float":
        return float(s), {"idx": s}
    if form == "npint":
        return np.int64(s), {"idx": s}
    return system.network.species[s], {"obj": LABELS[s]}


def cell_arg(rng, c, kind, shape, form):
    if kind == "graph" or form == "index":
        return c, {"idx": c}
    if form == "npint":
        return np.int64(c), {"idx": c}
    w, h, d = shape
    x, y, z = c % w, (c // w) % h, c // (w * h)
    if form == "tuple":
        return (x, y, z), {"coords": [x, y, z]}
    if form == "list":
        return [x, y, z], {"coords": [x, y, z]}
    return Coord(x, y, z), {"obj": [x, y, z]}


def vals_of(x):
    """canonical (values, units text, units object) of an accessor result"""
    from strengths.units import UnitValue
    if isinstance(x, UnitValue):
        return [float(x.value)], x.units
    return [float(v) for v in np.asarray(x.value).ravel()], x.units


def call(f):
    try:
        return ("ok", f())
    except Exception as e:  # noqa
        return ("error", type(e).__name__)


def lookup_oracle(ts_si, q_si, policy):
    """brute force over the sample times (exact): index or None"""
    n = len(ts_si)
    if policy == "closest":
        if n == 0:
            return None
        best = min(abs(q_si - t) for t in ts_si)
        return min(i for i in range(n) if abs(q_si - ts_si[i]) == best)
    if policy == "infeq":
        c = [i for i in range(n) if ts_si[i] <= q_si]
        return max(c) if c else None
    c = [i for i in range(n) if ts_si[i] >= q_si]
    return min(c) if c else None


def near_discontinuity(ts, q, policy):
    """relative distance of the (exact, trajectory-unit) query q to the nearest point where the answer changes"""
    scale = max([abs(q)] + [abs(t) for t in ts] + [Fraction(1, 10 ** 30)])
    d = min(abs(q - t) for t in ts)
    if policy == "closest":
        for a, b in zip(ts, ts[1:]):
            d = min(d, abs((q - a) - (b - q)) / 2)
    return d / scale


def refused_space_assignment(ctx, target, kind, shape):
    """`target.space = <space of another shape whose cells refer to an environment the network does not have>` must raise, and
    must leave `target` as it was (the accessors are compared with direct indexing afterwards)"""
    from strengths.rdspace import RDGridSpace, RDGraphSpace, RDGraphSpaceNode
    if kind == "grid":
        w, h, d = shape
        bad = RDGridSpace(w=w + 1, h=h + 2, d=d, cell_env=7)
    else:
        bad = RDGraphSpace(nodes=[RDGraphSpaceNode(volume=1, environment=7) for _ in range(shape + 2)], edges=[])
    try:
        target.space = bad
        ctx.count("refused_space_assignment_was_accepted")
        return False
    except Exception:  # noqa
        ctx.count("refused_space_assignment")
        return True


# ---- edit-then-reread histories --------------------------------------------------------------------------------------------
# "For any trajectory" includes a trajectory whose arrays were edited through their public interface after it had been read
# (background subtraction, re-labelling of the units, shifted time origin), and a deep copy of such a trajectory: every accessor
# must read the arrays the trajectory holds NOW (direct indexing of `traj.data.value` is one of the readings the statement names).
WHOLE_ROUTES = ["value=list", "value=ndarray", "set_value", "set_value(check=False)", "value=value-k", "value[:]=", "value-=k"]
ITEM_ROUTES = ["set_at", "value[i]="]
OTHER_ROUTES = ["t.value=", "t.set_value", "data.units="]


def pre_read(traj):
    """every accessor once, as a user who looks at a trajectory before editing it"""
    for f in (lambda: traj.get_trajectory(0, 0), lambda: traj.get_trajectory(0, merge=True), lambda: traj.get_state(0, 0),
              lambda: traj.get_state(None, 0), lambda: traj.get_trajectory_point(0, 0, 0),
              lambda: traj.get_sample_index(0.0, "closest"), lambda: traj.get_sample_index(0.0, "infeq"),
              lambda: traj.get_sample_index(0.0, "supeq")):
        call(f)


def apply_edit(t, h, new_data, new_ts, new_dsys):
    """one edit of trajectory `t` through the public interface of its UnitArrays"""
    from strengths import UnitValue
    from strengths.units import Units, UnitsSystem, UnitsDimensions
    route = h["route"]
    if route == "value=list":
        t.data.value = [float(v) for v in new_data]
    elif route == "value=ndarray":
        t.data.value = np.array(new_data, dtype=float)
    elif route == "set_value":
        t.data.set_value([float(v) for v in new_data])
    elif route == "set_value(check=False)":
        t.data.set_value(np.array(new_data, dtype=float), check=False)
    elif route == "value=value-k":
        t.data.value = t.data.value - h["k"]
    elif route == "value[:]=":
        t.data.value[:] = new_data
    elif route == "value-=k":
        a = t.data.value
        a -= h["k"]
    elif route == "set_at":
        for i, v in h["items"]:
            t.data.set_at(i, UnitValue(v, t.data.units.copy()))
    elif route == "value[i]=":
        for i, v in h["items"]:
            t.data.value[i] = v
    elif route == "t.value=":
        t.t.value = [float(x) for x in new_ts]
    elif route == "t.set_value":
        t.t.set_value(np.array([float(x) for x in new_ts]), check=False)
    elif route == "data.units=":
        t.data.units = Units(UnitsSystem(*new_dsys), UnitsDimensions(0, 0, 1))
    else:
        raise ValueError("unknown edit route %r" % (route,))


def apply_history(traj, cj):
    """the object under test after the recorded history: `cj` holds the content EXPECTED afterwards (data / ts / dsys) and
    `cj['history']` the content at construction, whether the accessors were called before the edit, the edit, and which object
    is then looked at (the edited trajectory, an edited deep copy, or the original of an edited deep copy)"""
    import copy
    h = cj["history"]
    if h.get("pre_read"):
        pre_read(traj)
    new_ts = [Fraction(x) for x in (h.get("edit_ts") or cj["ts"])]
    new_data = h.get("edit_data") or cj["data"]
    new_dsys = h.get("edit_dsys") or cj["dsys"]
    if h["on"] == "self":
        apply_edit(traj, h, new_data, new_ts, new_dsys)
        return traj
    other = copy.deepcopy(traj)
    if h.get("pre_read_copy"):
        pre_read(other)
    apply_edit(other, h, new_data, new_ts, new_dsys)
    return other if h["on"] == "deepcopy" else traj


def derive_edited_cases(ctx, rng, c):
    """from one constructed trajectory: the same trajectory rebuilt, read, edited through the public interface of its arrays (or
    deep-copied and the copy edited) -> new case(s) whose known content is the content after the edit"""
    N, ns, nc = c["N"], c["ns"], c["nc"]
    data0 = list(c["data"])
    size = len(data0)
    r = rng.random()
    route = rng.choice(WHOLE_ROUTES) if r < 0.5 else rng.choice(ITEM_ROUTES) if r < 0.75 else rng.choice(OTHER_ROUTES)
    on = rng.choice(["self", "self", "deepcopy", "both"])
    h = {"route": route, "pre_read": rng.random() < 0.8, "pre_read_copy": rng.random() < 0.3, "data0": data0,
         "ts0": [rstr(t) for t in c["ts"]], "dsys0": list(c["dsys"])}
    data, ts, dsys = data0, list(c["ts"]), tuple(c["dsys"])
    if route in ("value=value-k", "value-=k"):
        h["k"] = float(Fraction(rng.randint(1, 400), 8))
        data = [v - h["k"] for v in data0]
    elif route in WHOLE_ROUTES:
        perm = list(range(size))
        rng.shuffle(perm)
        data = [float(data0[perm[i]] + 1000 + Fraction(rng.randint(0, 7), 8)) for i in range(size)]
    elif route in ITEM_ROUTES:
        idxs = sorted(rng.sample(range(size), min(size, rng.randint(1, 4))))
        h["items"] = [[i, float(-2000 - i - Fraction(rng.randint(0, 7), 8))] for i in idxs]
        data = list(data0)
        for i, v in h["items"]:
            data[i] = v
    elif route in ("t.value=", "t.set_value"):
        while True:
            ts, dup = gen_times(rng, N)
            if ts != c["ts"]:
                break
    else:
        q2 = rng.choice([q for q in QTY if q != c["dsys"][2]])
        dsys = (rng.choice(SPACE), rng.choice(TIME), q2)
    out = []
    for who in (["deepcopy", "original_of_edited_deepcopy"] if on == "both" else [on]):
        hh = dict(h, on=who)
        c2 = dict(c, history=hh, source="constructed")
        if who == "original_of_edited_deepcopy":
            # the original must still read what it was built from; the edit that the copy received is recorded for the replay
            hh.update(edit_data=data, edit_ts=[rstr(t) for t in ts], edit_dsys=list(dsys))
        else:
            c2.update(data=data, ts=ts, dsys=tuple(dsys), dup=any(a == b for a, b in zip(ts, ts[1:])))
        try:
            traj, _ts, system, _shape = rebuild(case_json(c2))
        except Exception as e:  # noqa
            # an edit through the public interface that the clean package performs must not raise
            ctx.violation("raises:edit:%s" % route, "editing the trajectory's arrays through %s raised %r" % (route, e),
                          {"traj": case_json(c2)}, impl=repr(e), expected="edit performed")
            continue
        c2.update(traj=traj, system=system)
        ctx.count("history_%s" % who)
        ctx.count("edit_route_%s" % route)
        ctx.count("edit_after_read" if hh["pre_read"] else "edit_before_any_read")
        out.append(c2)
    return out


def build_case(ctx, rng, idx):
    """one directly constructed trajectory + its query list"""
    from strengths import UnitArray, UnitValue
    from strengths.rdoutput import RDTrajectory
    kind = "grid" if rng.random() < 0.65 else "graph"
    if kind == "grid":
        shape = (rng.randint(1, 3), rng.randint(1, 3), rng.choice([1, 1, 2, 3]))
        nc = shape[0] * shape[1] * shape[2]
    else:
        shape = rng.randint(1, 6)
        nc = shape
    ns = rng.randint(1, 4)
    N = rng.choice([1, 1, 2, 3, 4, 5, 6])
    usys = (rng.choice(SPACE), rng.choice(TIME), rng.choice(QTY))
    labels = LABELS if rng.random() < 0.6 else rng.choice(LABEL_SETS)
    system = make_system(rng, kind, shape, ns, usys, labels=labels)
    dsys = (rng.choice(SPACE), rng.choice(TIME), rng.choice(QTY))
    tsys = (rng.choice(SPACE), rng.choice(TIME), rng.choice(QTY))
    # distinct known numbers: position-coded + a random fractional part
    base = rng.randint(0, 50)
    data = [float(base + i + Fraction(rng.randint(0, 7), 8)) for i in range(N * ns * nc)]
    rng.shuffle(data)
    if rng.random() < 0.35:
        # trajectories may hold negative numbers (an overshooting Euler step, a difference of two trajectories)
        data = [-v if rng.random() < 0.4 else v for v in data]
    ts, dup = gen_times(rng, N)
    from strengths.units import Units, UnitsSystem, UnitsDimensions
    du = Units(UnitsSystem(*dsys), UnitsDimensions(0, 0, 1))
    tu = Units(UnitsSystem(*tsys), UnitsDimensions(0, 1, 0))
    # failed-call aftermath: a refused edit of the system's space, on the caller's system before the trajectory is built or on the
    # trajectory's own system afterwards, caught by the caller
    refused = rng.choice([None, None, "before", "traj"])
    if refused == "before":
        refused_space_assignment(ctx, system, kind, shape)
    traj = RDTrajectory(data=UnitArray(data, du), t_sample=UnitArray([float(t) for t in ts], tu), system=system)
    if refused == "traj":
        refused_space_assignment(ctx, traj.system, kind, shape)
    return dict(kind=kind, shape=shape, nc=nc, ns=ns, N=N, system=system, data=data, ts=ts, dup=dup, dsys=dsys, tsys=tsys,
                traj=traj, source="constructed", refused=refused, labels=labels)


def case_json(c):
    """everything needed to rebuild the trajectory (replay)"""
    return {"kind": c["kind"], "shape": list(c["shape"]) if c["kind"] == "grid" else c["shape"], "ns": c["ns"],
            "data": c["data"], "ts": [rstr(t) for t in c["ts"]], "dsys": list(c["dsys"]), "tsys": list(c["tsys"]),
            "source": c["source"], "refused_space_assignment": c.get("refused"), "labels": c.get("labels", LABELS),
            "history": c.get("history")}


def model_op(c, queries):
    space = {"kind": "grid", "shape": {"w": c["shape"][0], "h": c["shape"][1], "d": c["shape"][2]}} if c["kind"] == "grid" \
        else {"kind": "graph", "size": c["shape"]}
    op = {"op": "traj", "ns": c["ns"], "nc": c["nc"], "ts": [rstr(t) for t in c["ts"]], "tu": unitsj(c["tsys"], (0, 1, 0)),
          "data": [rstr(v) for v in c["data"]], "du": unitsj(c["dsys"], (0, 0, 1)), "labels": c.get("labels", LABELS)[:c["ns"]],
          "space": space, "queries": queries}
    h = c.get("history")
    if h and h["on"] != "original_of_edited_deepcopy":
        # the model is given the content at construction and the list of edits (Traj.setData / setTimes / setDataUnits)
        op["data"] = [rstr(v) for v in h["data0"]]
        op["ts"] = list(h["ts0"])
        op["du"] = unitsj(h["dsys0"], (0, 0, 1))
        op["edits"] = [{"data": [rstr(v) for v in c["data"]]}, {"ts": [rstr(t) for t in c["ts"]]}, {"du": unitsj(c["dsys"], (0, 0, 1))}]
    return op


def gen_queries(ctx, rng, c, full):
    labels = c.get("labels", LABELS)
    """list of (kind, python thunk description, model json, oracle expected) for one trajectory"""
    from strengths import UnitValue
    traj, system = c["traj"], c["system"]
    N, ns, nc, data = c["N"], c["ns"], c["nc"], c["data"]
    sforms = ["label", "index", "object", "float", "npint"]
    cforms = ["index", "tuple", "list", "coordobj", "npint"]
    qs = []
    triples = [(s, k, cc) for k in range(N) for s in range(ns) for cc in range(nc)]
    if not full and len(triples) > 40:
        triples = rng.sample(triples, 40)
    for n_, (s, k, cc) in enumerate(triples):
        sf, cf = sforms[(n_ + s) % 5], cforms[(n_ // 2 + cc) % 5]
        sa, sj = species_arg(rng, s, system, sf, labels)
        ca, cj = cell_arg(rng, cc, c["kind"], c["shape"], cf)
        exp = data[k * ns * nc + s * nc + cc]
        qs.append(dict(q="point", args=(sa, k, ca), mj={"q": "point", "sp": sj, "k": k, "pos": cj}, exp=[exp], s=s, k=k, c=cc,
                       forms=(sf, cf)))
    for k in range(N):
        qs.append(dict(q="state", args=(None, k), mj={"q": "state", "sp": None, "k": k}, exp=data[k * ns * nc:(k + 1) * ns * nc], k=k))
        for s in range(ns):
            sa, sj = species_arg(rng, s, system, sforms[(s + k) % 3], labels)
            qs.append(dict(q="state", args=(sa, k), mj={"q": "state", "sp": sj, "k": k},
                           exp=[data[k * ns * nc + s * nc + cc] for cc in range(nc)], s=s, k=k))
    for s in range(ns):
        sa, sj = species_arg(rng, s, system, sforms[s % 3], labels)
        qs.append(dict(q="traj", args=(sa, 0, [True, 1, np.True_, np.bool_(1)][(s + N) % 4]), mj={"q": "traj", "sp": sj, "pos": {"idx": 0}, "merge": True},
                       exp=[sum(frac(data[k * ns * nc + s * nc + cc]) for cc in range(nc)) for k in range(N)], s=s, merged=True))
        cells = range(nc) if (full or nc <= 6) else rng.sample(range(nc), 6)
        for cc in cells:
            ca, cj = cell_arg(rng, cc, c["kind"], c["shape"], cforms[(s + cc) % 5])
            qs.append(dict(q="traj", args=(sa, ca, [False, 0, np.False_, np.bool_(0)][(s + cc) % 4]), mj={"q": "traj", "sp": sj, "pos": cj, "merge": False},
                           exp=[data[k * ns * nc + s * nc + cc] for k in range(N)], s=s, c=cc))
    # negative sample index (numpy wrap) and the malformed stream
    qs.append(dict(q="point", args=(0, -1, 0), mj={"q": "point", "sp": {"idx": 0}, "k": -1, "pos": {"idx": 0}},
                   exp=[data[(N - 1) * ns * nc]], s=0, k=-1, c=0, forms=("index", "index"), wrap=True))
    bad = [
        dict(q="point", args=("Z", 0, 0), mj={"q": "point", "sp": {"label": "Z"}, "k": 0, "pos": {"idx": 0}}, exp="error", why="unknown label"),
        dict(q="point", args=(ns, 0, 0), mj={"q": "point", "sp": {"idx": ns}, "k": 0, "pos": {"idx": 0}}, exp="error", why="species index = nspecies"),
        dict(q="point", args=(-1, 0, 0), mj={"q": "point", "sp": {"idx": -1}, "k": 0, "pos": {"idx": 0}}, exp="error", why="species index -1"),
        dict(q="point", args=(0, 0, nc), mj={"q": "point", "sp": {"idx": 0}, "k": 0, "pos": {"idx": nc}}, exp="error", why="cell index = ncells"),
        dict(q="point", args=(0, 0, -1), mj={"q": "point", "sp": {"idx": 0}, "k": 0, "pos": {"idx": -1}}, exp="error", why="cell index -1"),
        dict(q="point", args=(0, N, 0), mj={"q": "point", "sp": {"idx": 0}, "k": N, "pos": {"idx": 0}}, exp="error", why="sample index = nsamples"),
        dict(q="state", args=(0, N), mj={"q": "state", "sp": {"idx": 0}, "k": N}, exp="error", why="sample index = nsamples"),
        dict(q="state", args=(None, -N - 1), mj={"q": "state", "sp": None, "k": -N - 1}, exp="error", why="sample index < -nsamples"),
        dict(q="traj", args=("Z", 0, True), mj={"q": "traj", "sp": {"label": "Z"}, "pos": {"idx": 0}, "merge": True}, exp="error", why="unknown label"),
        dict(q="traj", args=(0, nc, True), mj={"q": "traj", "sp": {"idx": 0}, "pos": {"idx": nc}, "merge": True}, exp="error",
             why="merged trajectory with an out-of-range position"),
    ]
    if c["kind"] == "grid":
        w, h, d = c["shape"]
        bad.append(dict(q="point", args=(0, 0, (w, 0, 0)), mj={"q": "point", "sp": {"idx": 0}, "k": 0, "pos": {"coords": [w, 0, 0]}},
                        exp="error", why="x = w"))
        bad.append(dict(q="traj", args=(0, (0, -1, 0), False), mj={"q": "traj", "sp": {"idx": 0}, "pos": {"coords": [0, -1, 0]}, "merge": False},
                        exp="error", why="y = -1"))
    for b in rng.sample(bad, 4 if not full else len(bad)):
        b["malformed"] = True
        qs.append(b)
    # ---- lookups
    ts = c["ts"]
    tunit = c["tsys"][1]
    cand = [ts[0] - Fraction(rng.randint(1, 8), 4), ts[-1] + Fraction(rng.randint(1, 8), 4)]
    cand += list(ts)
    for a, b in zip(ts, ts[1:]):
        cand.append((a + b) / 2)
        if b > a:
            cand.append(a + (b - a) * Fraction(rng.randint(1, 15), 16))
    if not full and len(cand) > 10:
        cand = cand[:2] + rng.sample(cand[2:], 8)
    qforms = ["num", "uval_same", "uval_other", "str"]
    for n_, q in enumerate(cand):
        for pi, pol in enumerate(("closest", "infeq", "supeq")):
            form = qforms[(n_ + pi) % 4]
            ts_si = [t * si_time(tunit) for t in ts]
            for attempt in range(8):
                qunit = tunit
                v = q
                if form in ("uval_other", "str") and attempt < 7:
                    qunit = rng.choice(TIME)
                    # value of the same instant in the other unit (exact)
                    v = q * si_time(tunit) / si_time(qunit)
                    if form == "str" and rng.random() < 0.5:
                        qunit, v = tunit, q
                fv = float(v)
                v_exact = Fraction(fv)            # what the code really receives
                q_traj = v_exact * si_time(qunit) / si_time(tunit)   # exact query in trajectory units
                amb = False
                if qunit != tunit:
                    fconv = fv * (float(si_time(qunit)) / float(si_time(tunit))) ** 1
                    if Fraction(fconv) != q_traj and near_discontinuity(ts, q_traj, pol) < Fraction(1, 10 ** 6):
                        amb = True      # retry with another unit whose float conversion is exact
                if not amb:
                    break
            exp = lookup_oracle(ts_si, v_exact * si_time(qunit), pol)
            if form == "num":
                arg, tj = fv, {"num": rstr(fv)}
            elif form == "str":
                arg, tj = "%r %s" % (fv, qunit), {"str": {"v": rstr(fv), "units": qunit}}
            else:
                arg = UnitValue(fv, qunit)
                tj = {"uval": {"v": rstr(fv), "u": unitsj(("µm", qunit, "molecule"), (0, 1, 0))}}
            qs.append(dict(q="index", args=(arg, pol), mj={"q": "index", "t": tj, "policy": pol}, exp=exp, amb=amb, pol=pol,
                           form=form, qv=fv, qunit=qunit, where=("before" if q < ts[0] else "after" if q > ts[-1] else "on" if q in ts else "between")))
    badq = [
        dict(q="index", args=(UnitValue(1.0, "m"), "closest"), mj={"q": "index", "t": {"uval": {"v": "1", "u": unitsj(("m", "s", "molecule"), (1, 0, 0))}}, "policy": "closest"},
             exp="error", why="length instead of time"),
        dict(q="index", args=("1 mol", "infeq"), mj={"q": "index", "t": {"str": {"v": "1", "units": "mol"}}, "policy": "infeq"}, exp="error", why="amount instead of time"),
        dict(q="index", args=(1.0, "nearest"), mj={"q": "index", "t": {"num": "1"}, "policy": "nearest"}, exp="error", why="unknown policy"),
        dict(q="index", args=([1.0], "closest"), mj={"q": "index", "t": {"other": True}, "policy": "closest"}, exp="error", why="list as query"),
    ]
    for b in rng.sample(badq, 2 if not full else 4):
        b["malformed"] = True
        qs.append(b)
    return qs


def run_query(traj, q):
    a = q["args"]
    if q["q"] == "point":
        return call(lambda: traj.get_trajectory_point(a[0], a[1], a[2]))
    if q["q"] == "state":
        return call(lambda: traj.get_state(a[0], a[1]))
    if q["q"] == "traj":
        # the flag is passed as given (False / 0 / numpy.False_ / numpy.bool_(0), True / 1 / numpy.True_ / numpy.bool_(1))
        return call(lambda: traj.get_trajectory(a[0], a[1], merge=a[2]) if not a[2] or a[1] != 0 else traj.get_trajectory(a[0], merge=a[2]))
    return call(lambda: traj.get_sample_index(a[0], a[1]))


def describe(q):
    d = {k: v for k, v in q.items() if k in ("q", "mj", "why", "pol", "form", "qv", "qunit", "where", "forms", "s", "k", "c", "merged")}
    if q["q"] == "traj" and len(q["args"]) == 3:
        d["merge_flag"] = repr(q["args"][2])      # False | 0 | np.False_ | True | 1 | np.True_
    return d


MERGE_FLAGS = {"False": False, "0": 0, "np.False_": np.False_, "True": True, "1": 1, "np.True_": np.True_}


def check_trajectory(ctx, c, qs, ans):
    """oracle + correspondence for one trajectory; `ans` = model answers (list) or None"""
    traj = c["traj"]
    cj = case_json(c)
    shape_key = (c["kind"], c["N"], c["ns"], c["nc"])
    if c.get("history"):
        shape_key = shape_key + (c["history"]["route"], c["history"]["on"], c["history"]["pre_read"])
    dunits = traj.data.units
    flat = np.asarray(traj.data.value).ravel()
    # the real data array is the known array (constructor copies, does not permute)
    if len(flat) != len(c["data"]) or any(float(a) != float(b) for a, b in zip(flat, c["data"])):
        ctx.violation("data-array", "the trajectory's data differ from the array it was constructed from", {"traj": cj},
                      impl=[float(v) for v in flat][:20], expected=c["data"][:20])
    for i, q in enumerate(qs):
        st, res = run_query(traj, q)
        m = ans[i] if ans is not None else None
        case = {"traj": cj, "query": describe(q)}
        if q["q"] == "traj" and not q.get("malformed"):
            ctx.count("merge_flag_%s.%s" % (type(q["args"][2]).__module__, type(q["args"][2]).__name__))
        kindkey = q["q"] + (":merged" if q.get("merged") else "") + (":whole" if q["q"] == "state" and q["args"][0] is None else "")
        ctx.count("query_" + kindkey)
        if q.get("malformed"):
            ctx.count("malformed")
            ctx.case((shape_key, "bad", q["why"], q["q"]), nontrivial=True)
            if st != "error":
                ctx.violation("accepts:%s:%s" % (q["q"], q["why"].replace(" ", "-")), "%s did not raise for %s" % (q["q"], q["why"]), case,
                              impl=common.jsonable(res if not hasattr(res, "value") else vals_of(res)[0]), expected="exception")
            if m is not None and ("error" in m) != (st == "error"):
                ctx.disagree("traj:" + q["q"], case, st, m)
            continue
        if q["q"] == "index":
            ctx.count("lookup_" + q["where"])
            ctx.count("lookup_form_" + q["form"])
            if q["amb"]:
                ctx.count("ambiguous")
                continue
            nontriv = q["where"] in ("on", "between")
            ctx.case((shape_key, "idx", q["pol"], q["where"], q["form"], q["qv"], q["qunit"], tuple(c["ts"])), nontrivial=nontriv,
                     sample={"op": "get_sample_index", "times": [float(t) for t in c["ts"]], "unit": c["tsys"][1], "query": [q["qv"], q["qunit"]],
                             "policy": q["pol"], "impl": res if st == "ok" else st})
            got = res if st == "ok" else "error"
            if got != q["exp"]:
                key = "lookup:%s" % q["pol"]
                ts = c["ts"]
                if isinstance(got, int) and isinstance(q["exp"], int) and 0 <= got < len(ts) and got > q["exp"] and ts[got] == ts[q["exp"]]:
                    key = "lookup-repeated-times:%s" % q["pol"]      # a later sample of equal time is returned
                ctx.violation(key, "get_sample_index(%r %s, %r) on times %s %s returned %r, brute-force search gives %r" % (
                    q["qv"], q["qunit"], q["pol"], [float(t) for t in ts], c["tsys"][1], got, q["exp"]), case, impl=got, expected=q["exp"])
            if m is not None:
                mg = "error" if "error" in m else m["ok"]
                if mg != got:
                    ctx.disagree("traj:index", case, got, m)
            continue
        # value accessors
        nontriv = c["N"] > 1 or c["ns"] > 1 or c["nc"] > 1
        fp = (shape_key, q["q"], q.get("s"), q.get("k"), q.get("c"), q.get("merged", False), q.get("forms"))
        if st == "error":
            ctx.case(fp, nontrivial=nontriv)
            ctx.violation("raises:%s" % kindkey, "%s raised %s on valid arguments" % (q["q"], res), case, impl=res, expected=q["exp"])
            if m is not None and "error" not in m:
                ctx.disagree("traj:" + q["q"], case, "error", m)
            continue
        vals, units = vals_of(res)
        ctx.case(fp, nontrivial=nontriv, sample={"op": q["q"], "shape": [c["N"], c["ns"], c["nc"]], "query": describe(q)["mj"], "impl": vals[:8]})
        exp = q["exp"]
        if q.get("merged"):
            okv = len(vals) == len(exp) and all(close(v, e, mag=sum(abs(frac(x)) for x in c["data"]) , rel=1e-12) for v, e in zip(vals, exp))
        else:
            okv = len(vals) == len(exp) and all(float(v) == float(e) for v, e in zip(vals, exp))
        if not okv:
            ctx.violation("value:%s" % kindkey, "%s returns %s, direct indexing of the data gives %s" % (q["q"], vals[:8], [fstr(e) for e in exp][:8]),
                          case, impl=vals, expected=[fstr(e) for e in exp])
        if not (units == dunits) or str(units) != str(dunits):
            ctx.violation("units:%s" % kindkey, "%s returns units %s, the data's units are %s" % (q["q"], units, dunits), case,
                          impl=str(units), expected=str(dunits))
        if q["q"] == "point":
            # the same number through the other accessors (the property's own cross-check)
            s, k, cc = q["s"], q["k"], q["c"]
            try:
                v_state = float(traj.get_state(s, k).value[cc])
                v_traj = float(traj.get_trajectory(s, cc).value[k])
                v_whole = float(traj.get_state(None, k).value[s * c["nc"] + cc])
                v_flat = float(flat[(k % c["N"]) * c["ns"] * c["nc"] + s * c["nc"] + cc])
                if not (vals[0] == v_state == v_traj == v_whole == v_flat):
                    ctx.violation("agree:point", "the accessors disagree on (species %d, sample %d, cell %d)" % (s, k, cc), case,
                                  impl={"point": vals[0], "state": v_state, "trajectory": v_traj, "whole": v_whole, "flat": v_flat})
            except Exception as e:  # noqa
                ctx.violation("agree:point", "cross-check raised %r" % (e,), case, impl=repr(e))
        if m is not None:
            if "error" in m:
                ctx.disagree("traj:" + q["q"], case, vals, m)
            else:
                mv = m["ok"] if isinstance(m["ok"], list) else [m["ok"]]
                mu = m["units"]
                same_u = (mu["sys"]["time"], mu["sys"]["quantity"], mu["sys"]["space"], tuple(mu["dim"])) == \
                         (units.sys.time, units.sys.quantity, units.sys.space, (units.dim.space, units.dim.time, units.dim.quantity))
                if q.get("merged"):
                    same_v = len(mv) == len(vals) and all(close(v, rparse(x), mag=sum(abs(frac(y)) for y in c["data"]), rel=1e-12) for v, x in zip(vals, mv))
                else:
                    same_v = len(mv) == len(vals) and all(frac(v) == rparse(x) for v, x in zip(vals, mv))
                if not (same_v and same_u):
                    ctx.disagree("traj:" + q["q"], case, {"values": vals, "units": str(units)}, m)


def canon(st, res):
    """comparable form of one accessor outcome"""
    if st == "error":
        return ("error",)
    if res is None or isinstance(res, int):
        return ("index", res)
    vals, units = vals_of(res)
    return ("ok", tuple(vals), str(units))


def caller_reuses_system(ctx, rng, c, qs):
    """the trajectory owns a copy of its system: what the caller does afterwards with the object it passed (another space for the
    next experiment, another network) must not change what the accessors return"""
    traj, system = c["traj"], c["system"]
    picks = [q for q in qs if not q.get("malformed") and q["q"] != "index"]
    if len(picks) > 16:
        picks = rng.sample(picks, 16)
    before = [canon(*run_query(traj, q)) for q in picks]
    # the caller goes on with its own object
    if c["kind"] == "grid":
        w, h, d = c["shape"]
        shape2 = (h, w, d) if w != h else (w + 1, h, d)
        other = make_system(rng, "grid", shape2, c["ns"], ("µm", "s", "molecule"), labels=c.get("labels", LABELS)[:c["ns"]][::-1] + c.get("labels", LABELS)[c["ns"]:])
    else:
        other = make_system(rng, "graph", c["shape"] + 1, c["ns"], ("µm", "s", "molecule"), labels=c.get("labels", LABELS)[:c["ns"]][::-1] + c.get("labels", LABELS)[c["ns"]:])
    try:
        system.space = other.space
        system.network = other.network
    except Exception as e:  # noqa
        ctx.notes.append("could not re-use the caller's system: %r" % (e,))
        return
    after = [canon(*run_query(traj, q)) for q in picks]
    ctx.count("caller_reuses_system")
    ctx.case((c["kind"], c["N"], c["ns"], c["nc"], "reuse"), nontrivial=c["nc"] > 1 or c["ns"] > 1)
    for q, b, a in zip(picks, before, after):
        if a != b:
            ctx.violation("aliasing:system", "%s changes after the caller re-used the system object it had passed to RDTrajectory "
                          "(space %s -> %s, species order reversed): %s then %s" % (
                              q["q"], c["shape"], "another space", b[:2] if b[0] != "ok" else list(b[1])[:6], a[:2] if a[0] != "ok" else list(a[1])[:6]),
                          {"traj": case_json(c), "query": describe(q), "reuse": True}, impl=common.jsonable(a), expected=common.jsonable(b))
            break


def simulated_cases(ctx, rng, n):
    """trajectories produced by the real engine (Euler), wrapped like the constructed ones"""
    from strengths import rdsystem_from_dict, simulate
    out = []
    eng = common.load_engine("euler")
    for i in range(n):
        kind = "grid" if i % 2 == 0 else "graph"
        ns = rng.randint(1, 3)
        species = [{"label": LABELS[k], "density": 1 + k + rng.randint(0, 5), "D": rng.choice([0, 1, 2])} for k in range(ns)]
        reactions = [{"eq": "A -> ", "k+": 0.5}] if rng.random() < 0.5 else []
        if kind == "grid":
            shape = (rng.randint(1, 3), rng.randint(1, 2), rng.randint(1, 2))
            nc = shape[0] * shape[1] * shape[2]
            space = {"w": shape[0], "h": shape[1], "d": shape[2]}
        else:
            shape = rng.randint(2, 4)
            nc = shape
            space = {"type": "graph", "nodes": [{"volume": 1 + k} for k in range(nc)],
                     "edges": [{"nodes": [k, k + 1], "surface": 1, "distance": 1} for k in range(nc - 1)]}
        system = rdsystem_from_dict({"network": {"species": species, "reactions": reactions}, "space": space})
        N = rng.randint(1, 5)
        ts = sorted(Fraction(rng.randint(0, 16), 8) for _ in range(N))
        if len(set(ts)) != len(ts):
            ts = [Fraction(k, 4) for k in range(N)]
        traj = simulate(system, t_sample=[float(t) for t in ts], engine=eng, time_step=1 / 64)
        data = [float(v) for v in np.asarray(traj.data.value).ravel()]
        if not all(math.isfinite(v) for v in data):
            ctx.count("simulated_nonfinite_skipped")      # not this property's business; frac() refuses nan / inf
            continue
        rts = [frac(float(v)) for v in np.asarray(traj.t.value).ravel()]
        du, tu = traj.data.units, traj.t.units
        c = dict(kind=kind, shape=shape, nc=nc, ns=ns, N=len(rts), system=traj.system, data=data, ts=rts, dup=False,
                 dsys=(du.sys.space, du.sys.time, du.sys.quantity), tsys=(tu.sys.space, tu.sys.time, tu.sys.quantity), traj=traj,
                 source="simulated")
        if len(data) != len(rts) * ns * nc:
            ctx.violation("simulated-shape", "simulated trajectory has %d values for %d samples x %d species x %d cells" % (len(data), len(rts), ns, nc),
                          {"traj": case_json(c)}, impl=len(data), expected=len(rts) * ns * nc)
            continue
        out.append(c)
    try:
        eng.finalize()
    except Exception:  # noqa
        pass
    return out


def run(ctx):
    rng = ctx.rng
    ctx.notes.append("closest_spec / infeq_spec / supeq_spec are the full statements for every non-decreasing time list, repeated sample "
                     "times included (index form: ties to the earlier index, first sample not before t), on the lookup code as fixed by "
                     "repository commit 93c716e (walk-back `_first_sample_with_same_time` modelled by `firstSame`)")
    ctx.notes.append("documentation/indexing.rst line 40 gives the data index as sample_index * n_samples*n_species*space_size + ...: the extra "
                     "factor n_samples is a documentation error (the code, the theorems and the oracle use sample*nspecies*ncells + "
                     "species*ncells + cell); recorded only")
    ctx.notes.append("negative sample indices wrap as in numpy (modelled by npNorm, exercised by the correspondence); the theorems are "
                     "stated for 0 <= sample < nsamples")
    n = ctx.n(300, 4000)
    cases = []
    for i in range(n):
        c = build_case(ctx, rng, i)
        ctx.count("space_" + c["kind"])
        ctx.count("nsamples_%d" % c["N"])
        ctx.count("times_repeated" if c["dup"] else "times_strict")
        ctx.count("labels_" + "/".join(c["labels"][:c["ns"]]))
        if any(v < 0 for v in c["data"]):
            ctx.count("data_with_negative_entries")
        if any(0 < (b - a) <= abs(b) / 10 ** 9 for a, b in zip(c["ts"], c["ts"][1:])):
            ctx.count("times_burst_relative_spacing_below_1e-9")
        cases.append(c)
    # edit-then-reread / copy-then-edit histories on about a quarter of the constructed trajectories
    edited = []
    for c in list(cases):
        if rng.random() < 0.25:
            edited += derive_edited_cases(ctx, rng, c)
    cases += edited
    sims = simulated_cases(ctx, rng, ctx.n(8, 40))
    for c in sims:
        ctx.count("simulated")
    cases += sims
    batch = 250
    for b0 in range(0, len(cases), batch):
        chunk = cases[b0:b0 + batch]
        qlists = [gen_queries(ctx, rng, c, full=(ctx.tier == "thorough" and i % 4 == 0) or c["N"] * c["ns"] * c["nc"] <= 40)
                  for i, c in enumerate(chunk)]
        answers = ctx.model.run([model_op(c, [q["mj"] for q in qs]) for c, qs in zip(chunk, qlists)])
        for c, qs, a in zip(chunk, qlists, answers):
            ans = None
            if a is not None:
                if "ok" not in a:
                    ctx.disagree("traj", {"traj": case_json(c)}, "ok", a)
                else:
                    ans = a["ok"]
            check_trajectory(ctx, c, qs, ans)
            if c["source"] == "constructed":
                caller_reuses_system(ctx, rng, c, qs)
        if ctx.time_left() < 10:
            ctx.notes.append("time budget reached after %d trajectories" % (b0 + len(chunk)))
            break
    amb = ctx.stats.get("ambiguous", 0)
    tot = sum(v for k, v in ctx.stats.items() if k.startswith("lookup_form_"))
    ctx.extra["ambiguous_fraction"] = (amb / tot) if tot else 0.0


def search(ctx):
    """something about C17 no longer checks and no input failed yet: every edit route x every target x read-before / not, on fresh
    trajectories with more than one sample, species and cell (oracle only)"""
    rng = ctx.rng
    tried = 0
    for i in range(ctx.n(400, 3000)):
        c = build_case(ctx, rng, i)
        if c["N"] < 2 or c["ns"] < 2 or c["nc"] < 2:
            continue
        for c2 in derive_edited_cases(ctx, rng, c):
            tried += 1
            qs = gen_queries(ctx, rng, c2, full=False)
            check_trajectory(ctx, c2, qs, None)
        if ctx.violations or ctx.time_left() < 5:
            break
    ctx.extra["search_edit_histories"] = tried


def rebuild(cj):
    """reconstruct a directly constructed trajectory from a replay record"""
    import random
    from strengths import UnitArray
    from strengths.rdoutput import RDTrajectory
    from strengths.units import Units, UnitsSystem, UnitsDimensions
    rng = random.Random(0)
    shape = tuple(cj["shape"]) if cj["kind"] == "grid" else cj["shape"]
    system = make_system(rng, cj["kind"], shape, cj["ns"], ("µm", "s", "molecule"), labels=cj.get("labels") or LABELS)
    du = Units(UnitsSystem(*cj["dsys"]), UnitsDimensions(0, 0, 1))
    tu = Units(UnitsSystem(*cj["tsys"]), UnitsDimensions(0, 1, 0))
    ts = [Fraction(t) for t in cj["ts"]]
    h = cj.get("history")
    data0, ts0 = cj["data"], ts
    if h and h["on"] != "original_of_edited_deepcopy":
        data0, ts0 = h["data0"], [Fraction(t) for t in h["ts0"]]
        du = Units(UnitsSystem(*h["dsys0"]), UnitsDimensions(0, 0, 1))
    class _C:
        def count(self, *a):
            pass
    if cj.get("refused_space_assignment") == "before":
        refused_space_assignment(_C(), system, cj["kind"], shape)
    traj = RDTrajectory(data=UnitArray(data0, du), t_sample=UnitArray([float(t) for t in ts0], tu), system=system)
    if cj.get("refused_space_assignment") == "traj":
        refused_space_assignment(_C(), traj.system, cj["kind"], shape)
    if h:
        traj = apply_history(traj, cj)
    return traj, ts, system, shape


def replay(ctx, rec):
    """re-run one recorded query on the real code (the trajectory is rebuilt from the recorded arrays)"""
    from strengths import UnitValue
    case = rec.get("case", rec)
    cj, q = case["traj"], case.get("query")
    traj, ts, system, shape = rebuild(cj)
    LABELS = cj.get("labels") or globals()["LABELS"]
    ns = cj["ns"]
    nc = traj.ncells()
    N = len(ts)
    data = cj["data"]
    out = {"trajectory": {"shape": [N, ns, nc], "times": [float(t) for t in ts], "time_unit": cj["tsys"][1]}, "query": q}
    if case.get("reuse") and q is not None:
        import random
        mj = q["mj"]

        spj, pj = mj.get("sp"), mj.get("pos")
        # the arguments are fixed before the caller touches its system again (a Species object is read for its label only)
        sp_ = None if spj is None else (spj.get("label") or (system.network.species[LABELS.index(spj["obj"])].copy() if "obj" in spj else spj["idx"]))
        ps_ = None if pj is None else (tuple(pj["coords"]) if "coords" in pj else Coord(*pj["obj"]) if "obj" in pj else pj["idx"])

        def run1():
            if mj["q"] == "point":
                return canon(*call(lambda: traj.get_trajectory_point(sp_, mj["k"], ps_)))
            if mj["q"] == "state":
                return canon(*call(lambda: traj.get_state(sp_, mj["k"])))
            return canon(*call(lambda: traj.get_trajectory(sp_, ps_, merge=mj["merge"])))
        b = run1()
        if cj["kind"] == "grid":
            w, h, d = shape
            shape2 = (h, w, d) if w != h else (w + 1, h, d)
            other = make_system(random.Random(0), "grid", shape2, ns, ("µm", "s", "molecule"), labels=LABELS[:ns][::-1] + LABELS[ns:])
        else:
            other = make_system(random.Random(0), "graph", shape + 1, ns, ("µm", "s", "molecule"), labels=LABELS[:ns][::-1] + LABELS[ns:])
        system.space = other.space
        system.network = other.network
        a = run1()
        out.update(before=common.jsonable(b), after_reuse_of_the_callers_system=common.jsonable(a))
        return a == b, out
    if q is None:
        flat = [float(v) for v in np.asarray(traj.data.value).ravel()]
        out.update(impl=flat[:20], expected=data[:20])
        return flat == data, out
    mj = q["mj"]

    def sp(j):
        if j is None:
            return None
        if "label" in j:
            return j["label"]
        if "obj" in j:
            return system.network.species[LABELS.index(j["obj"])] if j["obj"] in LABELS[:ns] else j["obj"]
        return j["idx"]

    def pos(j):
        if "coords" in j:
            return tuple(j["coords"])
        if "obj" in j:
            return Coord(*j["obj"])
        return j["idx"]
    if mj["q"] == "index":
        t = mj["t"]
        if "num" in t:
            arg = float(Fraction(t["num"]))
        elif "uval" in t:
            u = t["uval"]["u"]
            names = [n for n, e in zip((u["sys"]["space"], u["sys"]["time"], u["sys"]["quantity"]), u["dim"]) if e]
            arg = UnitValue(float(Fraction(t["uval"]["v"])), names[0] if names else "")
        elif "str" in t:
            arg = "%r %s" % (float(Fraction(t["str"]["v"])), t["str"]["units"])
        else:
            arg = [1.0]
        st, res = call(lambda: traj.get_sample_index(arg, mj["policy"]))
        got = res if st == "ok" else "error"
        exp = rec.get("expected")
        if "qv" in q and q.get("pol"):
            exp = lookup_oracle([t_ * si_time(cj["tsys"][1]) for t_ in ts], Fraction(q["qv"]) * si_time(q["qunit"]), q["pol"])
        out.update(impl=got, expected=exp)
        return got == exp, out
    if mj["q"] == "point":
        st, res = call(lambda: traj.get_trajectory_point(sp(mj["sp"]), mj["k"], pos(mj["pos"])))
    elif mj["q"] == "state":
        st, res = call(lambda: traj.get_state(sp(mj["sp"]), mj["k"]))
    else:
        flag = MERGE_FLAGS.get(q.get("merge_flag"), mj["merge"])
        st, res = call(lambda: traj.get_trajectory(sp(mj["sp"]), pos(mj["pos"]), merge=flag))
    exp = rec.get("expected")
    if st == "error":
        out.update(impl="raises " + str(res), expected=exp)
        return exp == "exception", out
    vals, units = vals_of(res)
    out.update(impl=vals, units=str(units), data_units=str(traj.data.units), expected=exp)
    if exp == "exception":
        return False, out
    cross_ok = True
    if mj["q"] == "point" and "s" in q:
        k = q["k"] % N
        exp = [data[k * ns * nc + q["s"] * nc + q["c"]]]
        # the same (species, sample, cell) through the other accessors and by direct indexing (the property's own cross-check)
        s_, c_ = q["s"], q["c"]
        cross = {"point": vals[0]}
        for name, f in (("state", lambda: float(traj.get_state(s_, k).value[c_])),
                        ("trajectory", lambda: float(traj.get_trajectory(s_, c_).value[k])),
                        ("whole", lambda: float(traj.get_state(None, k).value[s_ * nc + c_])),
                        ("flat", lambda: float(np.asarray(traj.data.value).ravel()[k * ns * nc + s_ * nc + c_]))):
            st2, r2 = call(f)
            cross[name] = r2 if st2 == "ok" else "raises " + str(r2)
        out["same_entry_through_every_accessor"] = cross
        cross_ok = all(v == exp[0] for v in cross.values())
    ok = isinstance(exp, list) and len(exp) == len(vals) and all(close(v, frac(e), rel=1e-12) for v, e in zip(vals, exp)) \
        and str(units) == str(traj.data.units) and cross_ok
    return ok, out
