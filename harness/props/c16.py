"""C16 — Coarse-graining conserves matter and geometry; un-coarse-graining inverts it.

Theorems: lean/Strengths/Props/C16.lean (tests of check_index_map_validity, aggregation / spreading subscripts and
the statement inventory of coarsegrain_grid regenerated from coarsegrain.py: group CoarsePy; grid index: IndexPy).
Correspondence: ops `coarsegrain` (space, state, chemostats or error), `cg_check`, `uncoarsegrain`, `to_graph`.
Oracle (independent of the code and of the model): brute-force aggregation of the fine grid — group volumes, species
totals, environments, chemostat flags, face-sharing pairs / shared-face counts / centroid distances computed from cell
coordinates, documented validity rules; un-coarse-graining: even spreading, group totals, dropped cells zero;
identity map: simulate(cgmap=identity) versus the plain simulation on the real engines.
"""
import itertools, math
from fractions import Fraction
import numpy as np
from common import frac, rstr, rparse, close, fstr
import common
from props.c06 import SPACE, TIME, QTY, si_space, si_qty, si_factor

ID = "C16"
LEAN_TARGETS = ["Strengths.Props.C16"]
PROP_FILES = ["Strengths/Props/C16.lean"]
GEN_GROUPS = ["CoarsePy", "IndexPy", "Units"]
RULE = ("grids w,h,d in 1..4 (1-D, 2-D, 3-D; size <= 36), 1..3 environments, cell edge h in {1/2,1,3/2,2,3} with V = h^3 given in a "
        "units system that may differ from the grid's; index maps: random environment-respecting partitions (non-contiguous groups, "
        "singletons), block maps, identity, one group per environment, maps on networks with 300 / 1000 environments whose grouped cells share an environment index >= 257, maps with more than 257 groups on 384..420-cell grids (group "
        "indices computed at run time, groups of index >= 257 with internal faces), each with 0..several dropped cells of several environments; "
        "invalid stream: wrong length, missing index, entry < -1, all dropped, group mixing environments, non-int entries, periodic "
        "grid; states: integers / fractions / zeros given in the system's or in their own quantity unit, random 0/1 chemostat maps, "
        "1..3 species, random units systems; engine runs: identity map vs plain simulation (two species, chemostated entries) and "
        "simulate(cgmap=map) structure (even spreading, dropped zero, chemostated groups constant, free species conserved); "
        "identity-map tau-leap / Gillespie runs of a diffusion-only network with 0-3 molecules per cell and kd*dt about 0.1 over 24 "
        "seeds (exact conservation of every species' total in every sample). "
        "A case is non-trivial when at least one group has >= 2 cells or a cell is dropped; distinct by (shape, envs, map, h, units)")
ASSUMPTIONS = [
    "cell volumes are cubes of rational edges (V = h^3, DESIGN §4); the code's cube / square roots are compared to the exact model "
    "within 1e-9 relative (distances compared squared)",
    "chemostat flags are 0/1 (or non-negative integers)",
    "environment indices are >= 0 (the value -2 is the code's internal 'unset' marker)",
    "identity map on the stochastic engines: 'reproduces' is read as 'identical for equal draws' (DESIGN §6 C16); equal seeds give "
    "equal draws only when nothing diffuses, because the grid and graph engines enumerate a cell's neighbours in different orders",
]
TRUSTED = ["Python-side SI table of props/c06.py for unit conversion of the real results",
           "RDTrajectory construction (C17) for the un-coarse-graining cases"]

LABELS = ["A", "B", "C"]
EDGES_H = [Fraction(1, 2), Fraction(1), Fraction(3, 2), Fraction(2), Fraction(3)]


# ------------------------------------------------------------------------------------------------- generators
def gen_grid(rng):
    dims = rng.choice([1, 1, 2, 2, 2, 3, 3])
    while True:
        if dims == 1:
            shape = [rng.randint(1, 8), 1, 1]
            rng.shuffle(shape)
        elif dims == 2:
            shape = [rng.randint(2, 5), rng.randint(2, 5), 1]
            rng.shuffle(shape)
        else:
            shape = [rng.randint(2, 4), rng.randint(2, 3), rng.randint(2, 3)]
        if shape[0] * shape[1] * shape[2] <= 36:
            return tuple(shape)


def gen_envs(rng, n, nenv):
    style = rng.random()
    if nenv == 1:
        return [0] * n
    if style < 0.5:
        return [rng.randrange(nenv) for _ in range(n)]
    # blocks
    cuts = sorted(rng.sample(range(1, n), min(nenv - 1, n - 1))) if n > 1 else []
    out, e = [], 0
    for i in range(n):
        if e < len(cuts) and i >= cuts[e]:
            e += 1
        out.append(e)
    return out


def relabel(im):
    """make the used group labels 0..k-1 (keeps -1)"""
    labels = sorted(set(g for g in im if g != -1))
    m = {g: k for k, g in enumerate(labels)}
    return [m[g] if g != -1 else -1 for g in im]


def gen_valid_map(rng, shape, envs):
    n = len(envs)
    style = rng.choice(["random", "random", "blocks", "identity", "perenv", "singletons+"])
    if style == "identity":
        im = list(range(n))
    elif style == "perenv":
        im = list(envs)
    elif style == "blocks":
        w, h, d = shape
        bx, by, bz = rng.randint(1, 3), rng.randint(1, 3), rng.randint(1, 2)
        raw = []
        for i in range(n):
            x, y, z = i % w, (i // w) % h, i // (w * h)
            raw.append((x // bx, y // by, z // bz, envs[i]))
        keys = {k: j for j, k in enumerate(sorted(set(raw)))}
        im = [keys[k] for k in raw]
    else:
        per_env = {}
        im = []
        ngroups = rng.randint(1, max(1, n // rng.randint(1, 4)))
        for i in range(n):
            g = rng.randrange(ngroups)
            im.append(per_env.setdefault((envs[i], g), len(per_env)))
    # drops
    if rng.random() < 0.6 and style != "identity" or rng.random() < 0.2:
        k = rng.randint(1, max(1, n // 3))
        for i in rng.sample(range(n), min(k, n)):
            im[i] = -1
    if all(g == -1 for g in im):
        im[rng.randrange(n)] = 0
    im = relabel(im)
    perm = list(range(max(im) + 1))
    rng.shuffle(perm)
    return [perm[g] if g != -1 else -1 for g in im], style


def gen_invalid_map(rng, shape, envs):
    n = len(envs)
    im, _ = gen_valid_map(rng, shape, envs)
    kinds = ["length-short", "length-long", "missing-index", "below-minus-one", "all-dropped", "float-entry", "bool-entry", "numpy-entry", "str-entry"]
    if len(set(envs)) > 1:
        kinds += ["mixed-env", "mixed-env"]
    kind = rng.choice(kinds)
    if kind == "length-short":
        im = im[:-1]
    elif kind == "length-long":
        im = im + [0]
    elif kind == "missing-index":
        mx = max(im)
        if rng.random() < 0.5 or mx == 0:
            im = [g + 1 if g >= 0 else g for g in im]         # 0 missing
        else:
            hole = rng.randrange(0, mx)
            im = [g + 1 if g >= hole and g != -1 else g for g in im]   # `hole` missing
    elif kind == "below-minus-one":
        im[rng.randrange(n)] = -rng.randint(2, 4)
    elif kind == "all-dropped":
        im = [-1] * n
    elif kind == "float-entry":
        k = rng.randrange(n)
        im[k] = float(im[k])
    elif kind == "bool-entry":
        k = rng.randrange(n)
        im[k] = bool(max(im[k], 0) % 2)
    elif kind == "numpy-entry":
        k = rng.randrange(n)
        im[k] = np.int64(im[k])
    elif kind == "str-entry":
        im[rng.randrange(n)] = "0"
    elif kind == "mixed-env":
        # put two cells of different environments in one group
        i = rng.randrange(n)
        js = [j for j in range(n) if envs[j] != envs[i]]
        j = rng.choice(js)
        if im[i] == -1:
            im[i] = 0 if max(im) < 0 else rng.randint(0, max(im))
        im[j] = im[i]
        im_r = relabel(im)
        im = im_r
    return im, kind


def documented_valid(im, envs):
    """the documented rules: right length, ints >= -1, not all dropped, every integer 0..max present, no group mixing environments"""
    if len(im) != len(envs):
        return False, "length"
    if any(type(g) is not int for g in im):
        return False, "type"
    if min(im) < -1:
        return False, "below -1"
    if max(im) < 0:
        return False, "empty"
    if set(range(max(im) + 1)) - set(im):
        return False, "missing index"
    for g in set(im):
        if g != -1 and len(set(envs[i] for i in range(len(im)) if im[i] == g)) > 1:
            return False, "mixed environments"
    return True, ""


def make_system(rng, shape, envs, nenv, h, vsys, gsys, ssys, ns, periodic=None):
    from strengths import rdsystem_from_dict, UnitValue
    w, hh, d = shape
    species = []
    for k in range(ns):
        dens = {("e%d" % e): rng.randint(0, 5) for e in range(nenv)}
        species.append({"label": LABELS[k], "density": dens, "D": 1})
    vol = float(h ** 3)
    vtxt = "%r %s3" % (vol, vsys[0])
    space = {"w": w, "h": hh, "d": d, "cell_env": list(envs), "cell_vol": vtxt,
             "units": {"space": gsys[0], "time": gsys[1], "quantity": gsys[2]}}
    if periodic:
        space["boundary_conditions"] = periodic
    return rdsystem_from_dict({"network": {"species": species, "reactions": [], "environments": ["e%d" % e for e in range(nenv)]},
                               "space": space, "units": {"space": ssys[0], "time": ssys[1], "quantity": ssys[2]}})


def gen_case(rng, invalid=False, periodic=False):
    shape = gen_grid(rng)
    n = shape[0] * shape[1] * shape[2]
    nenv = rng.choice([1, 2, 2, 3])
    envs = gen_envs(rng, n, nenv)
    nenv = max(envs) + 1
    h = rng.choice(EDGES_H)
    same = rng.random() < 0.5
    gsys = (rng.choice(SPACE), rng.choice(TIME), rng.choice(QTY))
    vsys = gsys if same else (rng.choice(["µm", "nm", "mm", "dm", "m", "cm"]), gsys[1], gsys[2])
    ssys = gsys if rng.random() < 0.5 else (rng.choice(SPACE), rng.choice(TIME), rng.choice(QTY))
    # the state may be given in its own units (UnitArray with explicit units), different from the system's
    stsys = ssys if rng.random() < 0.5 else (rng.choice(SPACE), rng.choice(TIME), rng.choice(QTY))
    ns = rng.randint(1, 3)
    if invalid:
        im, kind = gen_invalid_map(rng, shape, envs)
    else:
        im, kind = gen_valid_map(rng, shape, envs)
    style = rng.random()
    if style < 0.25:
        state = [float(rng.randint(0, 20)) for _ in range(ns * n)]
    elif style < 0.45:
        state = [float(Fraction(rng.randint(0, 400), 8)) for _ in range(ns * n)]
    elif style < 0.6:
        # molecule numbers beyond the float32 mantissa (and beyond a C int), odd so that any rounding shows
        state = [float(2 ** rng.choice([24, 24, 25, 31, 32, 40]) + 1 + 2 * rng.randint(0, 50)) for _ in range(ns * n)]
    elif style < 0.72:
        state = [rng.randint(1, 10 ** 6) / 10 for _ in range(ns * n)]                       # decimal fractions (0.1, 12345.7 …)
    elif style < 0.82:
        state = [rng.random() * 10 ** rng.randint(0, 7) for _ in range(ns * n)]             # 15-17 significant digits
    else:
        state = [0.0 if rng.random() < 0.7 else float(rng.randint(1, 9)) for _ in range(ns * n)]
    cs = rng.random()
    chem = [0] * (ns * n) if cs < 0.2 else [1 if rng.random() < (0.15 if cs < 0.7 else 0.6) else 0 for _ in range(ns * n)]
    per = None
    if periodic:
        per = {"x": "reflecting", "y": "reflecting", "z": "reflecting"}
        per[rng.choice("xyz")] = "periodical"
    return dict(shape=shape, envs=envs, nenv=nenv, h=h, gsys=gsys, vsys=vsys, ssys=ssys, stsys=stsys, ns=ns, im=im, kind=kind, state=state, chem=chem,
                periodic=per)


def big_map_case(rng):
    """a grid with more than 257 groups, group indices computed arithmetically (run-time integers, not literals): singletons
    first, then pairs of x-neighbours, so that groups of index >= 257 have internal faces; a few dropped cells"""
    shape = rng.choice([(20, 20, 1), (8, 8, 6), (10, 6, 7), (40, 10, 1)])
    w, h, d = shape
    n = w * h * d
    nsingle = 2 * rng.randint(129, 140)                      # even, > 257: the pairs start on an even cell of a row of even width
    envs = [(i // w) % 2 for i in range(n)]                  # environment by row: pairs never mix environments
    im = [i if i < nsingle else nsingle + (i - nsingle) // 2 for i in range(n)]
    for i in rng.sample(range(n), 3):
        im[i] = -1
    im = relabel(im)
    im = [g + 0 for g in im]
    usys = ("µm", "s", "molecule")
    return dict(shape=shape, envs=envs, nenv=2, h=rng.choice(EDGES_H), gsys=usys, vsys=usys, ssys=usys, stsys=usys, ns=1, im=im,
                kind="many-groups", state=[float(rng.randint(0, 9)) for _ in range(n)], chem=[1 if rng.random() < 0.1 else 0 for _ in range(n)],
                periodic=None)


def many_env_case(rng):
    """a network with 300 / 1000 environments; the grouped cells share an environment index beyond CPython's small-int cache"""
    shape = rng.choice([(4, 2, 1), (3, 2, 2), (6, 1, 1), (2, 3, 2)])
    n = shape[0] * shape[1] * shape[2]
    nenv = rng.choice([300, 1000])
    big = rng.sample(range(257, nenv), 3)
    cuts = sorted(rng.sample(range(1, n), 2))
    envs = [big[0] if i < cuts[0] else big[1] if i < cuts[1] else big[2] for i in range(n)]
    style = rng.random()
    if style < 0.5:
        im = relabel(list(envs))                                  # one group per environment
    else:
        im = relabel([envs[i] * 2 + (i % 2) for i in range(n)])   # two interleaved groups per environment
    if rng.random() < 0.5:
        im[rng.randrange(n)] = -1
        im = relabel(im)
    usys = ("µm", "s", "molecule")
    return dict(shape=shape, envs=envs, nenv=nenv, h=rng.choice(EDGES_H), gsys=usys, vsys=usys, ssys=usys, stsys=usys, ns=1, im=im,
                kind="many-environments", state=[float(rng.randint(0, 9)) for _ in range(n)], chem=[0] * n, periodic=None)


def case_json(c):
    return {"shape": list(c["shape"]), "envs": c["envs"], "nenv": c["nenv"], "h": rstr(c["h"]), "gsys": list(c["gsys"]), "vsys": list(c["vsys"]),
            "ssys": list(c["ssys"]), "stsys": list(c.get("stsys", c["ssys"])), "ns": c["ns"], "im": [g if type(g) is int else repr(g) for g in c["im"]], "kind": c["kind"],
            "state": c["state"], "chem": c["chem"], "periodic": c["periodic"]}


def build(c):
    import random
    sysm = make_system(random.Random(1), tuple(c["shape"]), c["envs"], c["nenv"], frac(c["h"]), tuple(c["vsys"]), tuple(c["gsys"]), tuple(c["ssys"]),
                       c["ns"], c.get("periodic"))
    from strengths import UnitArray
    from strengths.units import Units, UnitsSystem, UnitsDimensions
    sysm.state = UnitArray(list(c["state"]), Units(UnitsSystem(*c.get("stsys", c["ssys"])), UnitsDimensions(0, 0, 1)))
    sysm.chemostats = list(c["chem"])
    return sysm


def sysj(s):
    return {"space": s[0], "time": s[1], "quantity": s[2]}


def model_op(c):
    w, h, d = c["shape"]
    shape = {"w": w, "h": h, "d": d}
    if c.get("periodic"):
        for ax in "xyz":
            shape["p" + ax] = c["periodic"][ax] == "periodical"
    return {"op": "coarsegrain", "shape": shape, "h": rstr(c["h"]), "uv": sysj(c["vsys"]), "ug": sysj(c["gsys"]), "envs": list(c["envs"]),
            "ns": c["ns"], "state": [rstr(v) for v in c["state"]], "chem": list(c["chem"]),
            "im": [g if type(g) is int else None for g in c["im"]]}


# ------------------------------------------------------------------------------------------------- oracle
def si_of(uv):
    """SI value of a UnitValue of the real code"""
    u = uv.units
    return frac(float(uv.value)) * si_factor((u.sys.space, u.sys.time, u.sys.quantity), (u.dim.space, u.dim.time, u.dim.quantity))


def brute_force(c):
    """what the coarse system must be, from the fine grid alone (all in SI, exact except h)"""
    w, h, d = c["shape"]
    n = w * h * d
    im, envs, ns = c["im"], c["envs"], c["ns"]
    hs = frac(c["h"]) * si_space(c["vsys"][0])          # cell edge in metres
    ngroups = max(im) + 1
    members = [[i for i in range(n) if im[i] == g] for g in range(ngroups)]
    coords = [(i % w, (i // w) % h, i // (w * h)) for i in range(n)]
    vols = [len(m) * hs ** 3 for m in members]
    genv = [envs[m[0]] for m in members]
    qf = si_qty(c.get("stsys", c["ssys"])[2])
    state = [[sum(frac(c["state"][s * n + i]) for i in m) * qf for m in members] for s in range(ns)]
    chem = [[1 if any(c["chem"][s * n + i] for i in m) else 0 for m in members] for s in range(ns)]
    cent = [tuple(sum(Fraction(coords[i][a]) for i in m) / len(m) * hs for a in range(3)) for m in members]
    faces = {}
    for i in range(n):
        for j in range(i + 1, n):
            if sum(abs(coords[i][a] - coords[j][a]) for a in range(3)) == 1:      # the two cells share a face
                gi, gj = im[i], im[j]
                if gi != -1 and gj != -1 and gi != gj:
                    key = (min(gi, gj), max(gi, gj))
                    faces[key] = faces.get(key, 0) + 1
    edges = {k: (cnt * hs ** 2, sum((cent[k[0]][a] - cent[k[1]][a]) ** 2 for a in range(3))) for k, cnt in faces.items()}
    kept_total_vol = sum(1 for g in im if g != -1) * hs ** 3
    return dict(vols=vols, envs=genv, state=state, chem=chem, edges=edges, ngroups=ngroups, members=members, total_vol=kept_total_vol, hs=hs)


def read_cg(cg, ns):
    """the real result in canonical form"""
    nodes = cg.space.nodes
    out = {"n": len(nodes)}
    out["vols"] = [node.volume for node in nodes]
    out["envs"] = [int(node.environment) for node in nodes]
    out["edges"] = [(int(e.i), int(e.j), e.surface, e.distance) for e in cg.space.edges]
    out["state"] = cg.state
    out["chem"] = [int(v) for v in np.asarray(cg.chemostats).ravel()]
    return out


REL = 1e-9


def oracle_cg(ctx, c, got, case):
    """the property's predicate on the real result `got` (read_cg)"""
    bf = brute_force(c)
    ng, ns = bf["ngroups"], c["ns"]
    key0 = "cg"
    if got["n"] != ng:
        ctx.violation(key0 + ":ngroups", "coarse graph has %d nodes for %d groups" % (got["n"], ng), case, impl=got["n"], expected=ng)
        return
    vs = [si_of(v) for v in got["vols"]]
    if not close(sum(vs), bf["total_vol"], rel=REL):
        ctx.violation(key0 + ":total-volume", "total volume %s m3, the retained cells have %s m3" % (fstr(sum(vs)), fstr(bf["total_vol"])), case,
                      impl=fstr(sum(vs)), expected=fstr(bf["total_vol"]))
    for g in range(ng):
        if not close(vs[g], bf["vols"][g], rel=REL):
            ctx.violation(key0 + ":group-volume", "group %d has volume %s m3, its %d cells have %s m3" % (g, fstr(vs[g]), len(bf["members"][g]), fstr(bf["vols"][g])),
                          case, impl=fstr(vs[g]), expected=fstr(bf["vols"][g]))
            break
    if got["envs"] != bf["envs"]:
        ctx.violation(key0 + ":environment", "group environments %s, members have %s" % (got["envs"], bf["envs"]), case, impl=got["envs"], expected=bf["envs"])
    st = got["state"]
    su = st.units
    qf = si_factor((su.sys.space, su.sys.time, su.sys.quantity), (su.dim.space, su.dim.time, su.dim.quantity))
    sv = [frac(float(v)) * qf for v in np.asarray(st.value).ravel()]
    if len(sv) != ns * ng or len(got["chem"]) != ns * ng:
        ctx.violation(key0 + ":state-size", "state / chemostat size %d / %d for %d species x %d groups" % (len(sv), len(got["chem"]), ns, ng), case,
                      impl=[len(sv), len(got["chem"])], expected=ns * ng)
        return
    n = len(c["envs"])
    for s in range(ns):
        tot_fine = sum(frac(c["state"][s * n + i]) for i in range(n) if c["im"][i] != -1) * si_qty(c.get("stsys", c["ssys"])[2])
        tot_cg = sum(sv[s * ng + g] for g in range(ng))
        mag = sum(abs(frac(c["state"][s * n + i])) for i in range(n)) * si_qty(c.get("stsys", c["ssys"])[2])
        if not close(tot_cg, tot_fine, mag=mag, rel=1e-12):
            ctx.violation(key0 + ":species-total", "species %d: coarse total %s, fine total over retained cells %s (SI; relative difference %s, amounts are summed exactly)" % (
                              s, fstr(tot_cg), fstr(tot_fine), fstr(abs(tot_cg - tot_fine) / (mag or 1))),
                          case, impl=fstr(tot_cg), expected=fstr(tot_fine))
        for g in range(ng):
            if not close(sv[s * ng + g], bf["state"][s][g], mag=mag, rel=1e-12):
                ctx.violation(key0 + ":group-amount", "species %d group %d holds %s, its members hold %s (SI; relative difference %s)" % (
                                  s, g, fstr(sv[s * ng + g]), fstr(bf["state"][s][g]), fstr(abs(sv[s * ng + g] - bf["state"][s][g]) / (mag or 1))),
                              case, impl=fstr(sv[s * ng + g]), expected=fstr(bf["state"][s][g]))
                break
        flags = [got["chem"][s * ng + g] for g in range(ng)]
        if flags != bf["chem"][s]:
            ctx.violation(key0 + ":chemostat", "species %d chemostat flags %s, 'any member' gives %s" % (s, flags, bf["chem"][s]), case, impl=flags, expected=bf["chem"][s])
    # edges
    pairs = [(min(i, j), max(i, j)) for i, j, _, _ in got["edges"]]
    if any(i == j for i, j, _, _ in got["edges"]):
        loops = sorted(set(i for i, j, _, _ in got["edges"] if i == j))
        ctx.violation(key0 + ":self-loop", "coarse graph of %d groups has self-loops on groups %s (first: surface %s, distance %s)" % (
            ng, loops[:8], *[(str(a), str(b)) for i, j, a, b in got["edges"] if i == j][0]), case, impl=loops[:50])
    if len(set(pairs)) != len(pairs):
        ctx.violation(key0 + ":duplicate-edge", "coarse graph has duplicate edges", case, impl=pairs)
    if set(pairs) != set(bf["edges"]):
        ctx.violation(key0 + ":edge-set", "edges %s, groups sharing a face are %s" % (sorted(set(pairs)), sorted(bf["edges"])), case,
                      impl=sorted(set(pairs)), expected=sorted(bf["edges"]))
        return
    for (i, j, sfc, dst), p in zip(got["edges"], pairs):
        es, ed2 = bf["edges"][p]
        if not close(si_of(sfc), es, rel=REL):
            ctx.violation(key0 + ":surface", "edge %s has surface %s m2, shared faces x face area = %s m2" % (p, fstr(si_of(sfc)), fstr(es)), case,
                          impl=fstr(si_of(sfc)), expected=fstr(es))
            break
        d_si = si_of(dst)
        scale = (bf["hs"] * max(c["shape"])) ** 2
        if not close(d_si ** 2, ed2, mag=scale, rel=REL) or d_si < 0:
            ctx.violation(key0 + ":distance", "edge %s has distance %s m (squared: %s), squared centroid distance is %s m2" % (p, fstr(d_si), fstr(d_si ** 2), fstr(ed2)), case,
                          impl=fstr(d_si ** 2), expected=fstr(ed2))
            break


def compare_model(ctx, c, got, m, case):
    """correspondence: real result vs model answer (values in the units the model names: volumes in ug, surfaces / distances in uv)"""
    if m is None:
        return
    if "error" in m:
        ctx.disagree("coarsegrain", case, "ok", m)
        return
    mo = m["ok"]
    ug, uv = c["gsys"], c["vsys"]

    def in_sys(x, sysname):
        u = x.units
        f = si_factor((u.sys.space, u.sys.time, u.sys.quantity), (u.dim.space, u.dim.time, u.dim.quantity)) / \
            si_factor(sysname, (u.dim.space, u.dim.time, u.dim.quantity))
        return frac(float(x.value)) * f
    ok = len(mo["vols"]) == got["n"] and all(close(in_sys(v, ug), rparse(q), rel=REL) for v, q in zip(got["vols"], mo["vols"]))
    ok = ok and [v.units.sys.space for v in got["vols"]] == [ug[0]] * got["n"]      # accumulated in the grid's units
    ok = ok and mo["envs"] == got["envs"]
    ok = ok and len(mo["edges"]) == len(got["edges"])
    if ok:
        scale = (frac(c["h"]) * max(c["shape"])) ** 2
        for (i, j, sfc, dst), me in zip(got["edges"], mo["edges"]):
            if (i, j) != (me[0], me[1]) or not close(in_sys(sfc, uv), rparse(me[2]), rel=REL) \
                    or not close(in_sys(dst, uv) ** 2, rparse(me[3]), mag=scale, rel=REL) or sfc.units.sys.space != uv[0]:
                ok = False
    sv = [float(v) for v in np.asarray(got["state"].value).ravel()]
    mag = sum(abs(frac(x)) for x in c["state"]) or 1
    ok = ok and len(sv) == len(mo["state"]) and all(close(v, rparse(q), mag=mag, rel=1e-12) for v, q in zip(sv, mo["state"]))
    ok = ok and got["chem"] == mo["chem"]
    su = got["state"].units.sys
    ok = ok and su.quantity == c.get("stsys", c["ssys"])[2]      # the aggregated state keeps the state's own units
    if not ok:
        ctx.disagree("coarsegrain", case, {"vols": [str(v) for v in got["vols"]], "envs": got["envs"],
                                            "edges": [(i, j, str(a), str(b)) for i, j, a, b in got["edges"]], "state": sv, "chem": got["chem"]}, mo)


# ------------------------------------------------------------------------------------------------- un-coarse-graining
def uncg_case(ctx, rng, c, cgsys):
    """spread a known coarse trajectory back on the fine grid with the real code; oracle: even spreading"""
    from strengths import UnitArray
    from strengths.rdoutput import RDTrajectory
    from strengths.coarsegrain import uncoarsegrain_trajectory
    n = len(c["envs"])
    ns, im = c["ns"], c["im"]
    ng = max(im) + 1
    N = rng.randint(1, 3)
    data = [float(Fraction(rng.randint(0, 240), rng.choice([1, 2, 4]))) for _ in range(N * ns * ng)]
    ts = [float(k) for k in range(N)]
    # the coarse trajectory's data have their own quantity unit (a script's), in general not the unit of the system's state
    dunit = rng.choice(QTY)
    traj = RDTrajectory(data=UnitArray(data, dunit), t_sample=UnitArray(ts, "s"), system=cgsys)
    fine = build(c)
    case = {"sys": case_json(c), "uncg": {"N": N, "data": data, "unit": dunit}}
    if dunit != cgsys.state.units.sys.quantity:
        ctx.count("uncoarsegrain_data_unit_differs_from_state_unit")
    before = np.array(traj.data.value, dtype=float).tobytes()
    try:
        out = uncoarsegrain_trajectory(traj, fine, im)
        vals = [float(v) for v in np.asarray(out.data.value).ravel()]
        # the coarse trajectory is an input: it must come back bit-unchanged, and a second call must give the same result
        after = np.array(traj.data.value, dtype=float).tobytes()
        out2 = uncoarsegrain_trajectory(traj, fine, im)
        vals2 = [float(v) for v in np.asarray(out2.data.value).ravel()]
    except Exception as e:  # noqa
        ctx.violation("uncg:raises", "uncoarsegrain_trajectory raised %r on a valid map" % (e,), case, impl=repr(e))
        return None, None
    ctx.count("uncoarsegrain_called_twice")
    if after != before:
        ctx.violation("uncg:modifies-input", "uncoarsegrain_trajectory modified the coarse trajectory it was given (data %s -> %s)" % (
            data[:6], [float(v) for v in np.asarray(traj.data.value).ravel()][:6]), case,
            impl=[float(v) for v in np.asarray(traj.data.value).ravel()][:24], expected=data[:24])
    if vals2 != vals:
        k = next((i for i, (x, y) in enumerate(zip(vals, vals2)) if x != y), None)
        ctx.violation("uncg:second-call", "a second un-coarse-graining of the same coarse trajectory differs from the first (entry %s: %r then %r)" % (
            k, vals[k] if k is not None else None, vals2[k] if k is not None else None), case, impl=vals2[:24], expected=vals[:24])
    members = [[i for i in range(n) if im[i] == g] for g in range(ng)]
    ctx.case(("uncg", tuple(c["shape"]), tuple(im), N, ns), nontrivial=any(len(m) > 1 for m in members) or -1 in im)
    ctx.count("uncoarsegrain")
    if len(vals) != N * ns * n:
        ctx.violation("uncg:size", "un-coarse-grained data has %d values for %d samples x %d species x %d cells" % (len(vals), N, ns, n), case,
                      impl=len(vals), expected=N * ns * n)
        return None, None
    bad = None
    for k in range(N):
        for s in range(ns):
            for i in range(n):
                v = vals[k * ns * n + s * n + i]
                if im[i] == -1:
                    exp = Fraction(0)
                else:
                    exp = frac(data[k * ns * ng + s * ng + im[i]]) / len(members[im[i]])
                if not close(v, exp, mag=1, rel=1e-12) and bad is None:
                    bad = (k, s, i, v, fstr(exp))
            for g in range(ng):
                tot = sum(frac(vals[k * ns * n + s * n + i]) for i in members[g])
                if not close(tot, frac(data[k * ns * ng + s * ng + g]), mag=1, rel=1e-12) and bad is None:
                    bad = (k, s, "group %d total" % g, fstr(tot), data[k * ns * ng + s * ng + g])
    if bad:
        ctx.violation("uncg:value", "un-coarse-graining: sample %s species %s cell %s is %s, even spreading gives %s" % bad, case, impl=bad[3], expected=bad[4])
    got_map = None if out.cgmap is None else list(out.cgmap)
    if str(out.data.units) != str(traj.data.units) or got_map != list(im) or out.system.space.size() != n \
            or [float(x) for x in out.t.value] != ts:
        ctx.violation("uncg:wrapping", "un-coarse-grained trajectory does not carry the coarse trajectory's units / times / the fine system / the map: "
                      "data units %s (coarse trajectory: %s), map %s, %d cells, times %s" % (
                          out.data.units, traj.data.units, "kept" if got_map == list(im) else "changed", out.system.space.size(),
                          "kept" if [float(x) for x in out.t.value] == ts else "changed"), case,
                      impl={"units": str(out.data.units), "cgmap": got_map})
    op = {"op": "uncoarsegrain", "N": N, "ns": ns, "ncg": ng, "nf": n, "im": list(im), "cg": [rstr(v) for v in data]}
    # model fidelity outside the property's domain: maps the function itself does not validate (entries below -1 wrap like
    # Python list indices, entries >= number of coarse nodes and short maps raise); compared with the model only
    if rng.random() < 0.3:
        from strengths.coarsegrain import uncoarsegrain_trajectory_data
        bad = list(im)
        kind = rng.choice(["below", "above", "short"])
        if kind == "below":
            bad[rng.randrange(n)] = -rng.randint(2, ng + 2)
        elif kind == "above":
            bad[rng.randrange(n)] = ng + rng.randint(0, 1)
        else:
            bad = bad[:-1]
        try:
            r = uncoarsegrain_trajectory_data(traj, fine.space, bad)
            bvals = [float(v) for v in np.asarray(r.value).ravel()]
        except Exception as e:  # noqa
            bvals = "error"
        ctx.count("uncoarsegrain_unvalidated_map_" + kind)
        ctx.extra.setdefault("_uncg_bad", []).append(({"op": "uncoarsegrain", "N": N, "ns": ns, "ncg": ng, "nf": n, "im": bad,
                                                     "cg": [rstr(v) for v in data]}, bvals, {"sys": case_json(c), "uncg_bad_map": bad}))
    return op, (vals, case)


# ------------------------------------------------------------------------------------------------- identity map on the real engines
def identity_runs(ctx, rng, count):
    """simulate(cgmap=identity) versus the plain simulation.  Euler: equal to rounding.  Stochastic engines: identical for the same
    seed when nothing diffuses (the grid and graph engines then make the same draws in the same order); with diffusion the two
    engines enumerate neighbours in different orders, so equal seeds do not mean equal draws: there the first sample, the shape,
    integrality and the conserved total A+B are compared (the exact statement 'identical for equal draws' is the theorem side)."""
    from strengths import simulate, rdsystem_from_dict
    plan = [("euler", True, "on_t_sample"), ("tauleap", False, "on_t_sample"), ("gillespie", False, "on_t_sample"),
            ("euler", True, "on_iteration"), ("tauleap", True, "on_t_sample"), ("gillespie", True, "on_t_sample"),
            ("tauleap", False, "on_iteration"), ("euler", True, "on_t_sample")]
    for k in range(count):
        option, diffuse, policy = plan[k % len(plan)]
        shape = gen_grid(rng)
        while shape[0] * shape[1] * shape[2] > 12:
            shape = gen_grid(rng)
        n = shape[0] * shape[1] * shape[2]
        nenv = 2 if option == "euler" else rng.choice([1, 2])
        envs = gen_envs(rng, n, nenv)
        nenv = max(envs) + 1
        DA = rng.choice([1, 2]) if diffuse else 0
        if diffuse and option == "euler" and nenv == 2:
            DA = {"e0": rng.choice([1, 2]), "e1": rng.choice([0.5, 3])}      # different non-zero coefficients in adjacent environments
        # script units: the default, or (for the second Euler slot of the plan) a system in which a diffusion coefficient of
        # about 1 µm2/s becomes a very small number (space m / km, time s / µs / h)
        susys = None
        if option == "euler" and policy == "on_t_sample" and k % len(plan) == len(plan) - 1:
            susys = rng.choice([("m", "s"), ("km", "s"), ("m", "µs"), ("km", "h"), ("m", "ms")]) + (rng.choice(["molecule", "nmol", "mol"]),)
            DA = rng.choice([1, 0.5, 0.25])
        elif option == "euler" and policy == "on_t_sample":
            susys = ("µm", "s", rng.choice(["nmol", "mol", "µmol", "pmol"]))      # only the quantity unit of the script differs
        species = [{"label": "A", "density": {("e%d" % e): rng.randint(5, 40) for e in range(nenv)}, "D": DA},
                   {"label": "B", "density": {("e%d" % e): rng.randint(0, 10) for e in range(nenv)},
                    "D": {("e%d" % e): (rng.choice([0, 1]) if diffuse else 0) for e in range(nenv)}}]
        reactions = [{"eq": "A -> B", "k+": 0.5, "k-": 0.25}]
        d = {"network": {"species": species, "reactions": reactions, "environments": ["e%d" % e for e in range(nenv)]},
             "space": {"w": shape[0], "h": shape[1], "d": shape[2], "cell_env": envs, "cell_vol": 1}}
        system = rdsystem_from_dict(d)
        # chemostats on some (species, cell) entries (two species, so species-major and cell-major flag layouts differ);
        # not for the stochastic runs with diffusion, whose comparison uses the conservation of A + B
        chem = [0] * (2 * n)
        if option == "euler" or not diffuse:
            chem = [1 if rng.random() < 0.3 else 0 for _ in range(2 * n)]
            if n > 1 and sum(chem) in (0, 2 * n):
                chem = [0] * (2 * n)
                chem[rng.randrange(2 * n)] = 1
        system.chemostats = list(chem)
        ts, dt = [0.0, 0.125, 0.25, 0.5], 1 / 64
        if option == "euler" and policy == "on_t_sample" and rng.random() < 0.6:
            # two requested times inside one time step, and a repeated request: plain and identity-map runs must record the same rows
            dt = rng.choice([0.125, 0.25])
            ts = [0.0, 1.2 * dt, 1.6 * dt, 1.6 * dt, 4 * dt] if rng.random() < 0.5 else [0.0, 0.0, 2.3 * dt, 2.3 * dt, 2.7 * dt, 3 * dt]
            ctx.count("identity_requests_inside_one_step_and_repeated")
        if policy == "on_iteration":
            # every iteration is recorded; dyadic time step and t_max an exact multiple of it, so that t hits t_max exactly
            dt = rng.choice([0.125, 0.25])
            ts = [0.0, dt * rng.randint(2, 6)]
        seed = rng.randint(1, 10 ** 6)
        case = {"identity": {"system": d, "chem": chem, "option": option, "t_sample": ts, "seed": seed, "time_step": dt, "diffuse": diffuse,
                             "policy": policy, "script_units": susys}}
        ctx.count("identity_script_units_" + ("default" if susys is None else "_".join(susys)))
        ctx.count("identity_with_chemostats" if any(chem) else "identity_without_chemostats")
        ctx.count("identity_policy_" + policy)
        history = None
        if option == "euler" and policy == "on_t_sample" and n >= 2:
            # same network on a longer 1-D grid; the first three cells form one group: n groups of volumes 3, 1, 1, …
            hd = {"network": d["network"], "space": {"w": n + 2, "h": 1, "d": 1, "cell_env": [envs[0]] * 3 + list(envs[1:]), "cell_vol": 1}}
            history = {"system": hd, "map": [0, 0, 0] + list(range(1, n))}
            case["identity"]["history"] = history
            ctx.count("identity_after_a_coarse_run_with_unequal_volumes")
        ok, detail = identity_compare(system, option, ts, seed, dt, diffuse, policy, susys, history)
        ctx.case(("identity", option, diffuse, policy, shape, tuple(envs), seed), nontrivial=n > 1)
        ctx.count("identity_%s_%s" % (option, "diffusion" if diffuse else "reaction_only"))
        if not ok:
            ctx.violation("identity:%s" % option, "simulate(cgmap=identity) does not reproduce the plain simulation (%s engine%s): %s" % (
                option, "" if diffuse else ", no diffusion", detail.get("why")), case, impl=detail.get("cgmap_identity"), expected=detail.get("plain"))


def unsafe_graph(system, im):
    """would the coarse system make the native engine read outside its arrays?  (guards the in-process engine calls)"""
    from strengths.coarsegrain import coarsegrain_system
    try:
        cg = coarsegrain_system(system, list(im))
    except Exception as e:  # noqa
        return "coarsegrain_system raised %r" % (e,)
    n = len(cg.space.nodes)
    for e in cg.space.edges:
        if not (0 <= e.i < n and 0 <= e.j < n):
            return "edge (%d, %d) names a node outside [0, %d)" % (e.i, e.j, n)
        if not (float(e.distance.value) > 0 and float(e.surface.value) > 0):
            return "edge (%d, %d) has surface %r and distance %r" % (e.i, e.j, e.surface.value, e.distance.value)
    if any(not float(node.volume.value) > 0 for node in cg.space.nodes):
        return "a node has a non-positive volume"
    if len(cg.state.value) != n * system.network.nspecies() or len(cg.chemostats) != n * system.network.nspecies():
        return "state / chemostat size mismatch"
    return None


def identity_compare(system, option, ts, seed, dt, diffuse, policy="on_t_sample", susys=None, history=None):
    from strengths import simulate, UnitValue, UnitArray, UnitsSystem, rdsystem_from_dict
    if history:
        # an earlier simulation in the same process: a coarse-grained run whose groups have unequal volumes, with as many nodes
        # as the identity-map run that follows (anything the engine caches per process is then stale)
        try:
            hsys = rdsystem_from_dict(history["system"])
            simulate(hsys, t_sample=[0.0, 0.125], engine=common.load_engine(option), time_step=1 / 64, rng_seed=seed, cgmap=list(history["map"]))
        except Exception as e:  # noqa
            return False, {"why": "the earlier coarse-grained simulation raised %r" % (e,)}
    kw = {}
    if susys:
        # times stay what they were (given with their unit); only the units system the script hands to the engine changes
        kw = {"units_system": UnitsSystem(space=susys[0], time=susys[1], quantity=susys[2] if len(susys) > 2 else "molecule")}
        dt = UnitValue(dt, "s")
        ts = UnitArray(list(ts), "s")
    n = system.space.size()
    why = unsafe_graph(system, list(range(n)))
    if why:
        return False, {"why": "identity coarse-graining is not a usable graph: " + why}
    try:
        plain = simulate(system, t_sample=ts, engine=common.load_engine(option), time_step=dt, rng_seed=seed, sampling_policy=policy, **kw)
        cgd = simulate(system, t_sample=ts, engine=common.load_engine(option), time_step=dt, rng_seed=seed, sampling_policy=policy,
                       cgmap=list(range(n)), **kw)
    except Exception as e:  # noqa
        return False, {"why": "raised %r" % (e,)}
    a = [float(v) for v in np.asarray(plain.data.value).ravel()]
    b = [float(v) for v in np.asarray(cgd.data.value).ravel()]
    det = {"plain": a[:24], "cgmap_identity": b[:24], "plain_times": [float(x) for x in plain.t.value][:12],
           "cgmap_identity_times": [float(x) for x in cgd.t.value][:12]}
    same_t = [float(x) for x in plain.t.value] == [float(x) for x in cgd.t.value]
    if option != "euler" and diffuse:      # recorded times are event times of the stochastic run
        same_t = len(plain.t.value) == len(cgd.t.value)
    if susys and len(susys) > 2 and (plain.data.units.sys.quantity != susys[2] or cgd.data.units.sys.quantity != susys[2]):
        det["why"] = "the script's quantity unit is %s, the plain trajectory is in %s and the identity-map one in %s" % (
            susys[2], plain.data.units, cgd.data.units)
        return False, det
    if len(a) != len(b) or str(plain.data.units) != str(cgd.data.units) or not same_t:
        det["why"] = "shape / units / times differ: %d samples at %s versus %d samples at %s" % (
            len(plain.t.value), det["plain_times"][-3:], len(cgd.t.value), det["cgmap_identity_times"][-3:])
        return False, det
    mag = sum(abs(x) for x in a[:2 * n]) or 1.0
    if option == "euler":
        bad = [i for i, (x, y) in enumerate(zip(a, b)) if not close(y, frac(x), mag=mag, rel=1e-9)]
    elif not diffuse:
        bad = [i for i, (x, y) in enumerate(zip(a, b)) if x != y]
    else:
        bad = [i for i in range(2 * n) if a[i] != b[i]]                      # first sample
        # molecule counts are whole numbers; Gillespie never goes below zero, tau-leap may (a leap can draw more departures
        # than a cell holds: the engine keeps the negative count, which is what conserves the total exactly)
        bad += [i for i, y in enumerate(b) if y != int(y) or (y < 0 and option == "gillespie")]
        for k in range(len(a) // (2 * n)):                                   # A + B is conserved by A <-> B and by diffusion
            ta, tb = sum(a[k * 2 * n:(k + 1) * 2 * n]), sum(b[k * 2 * n:(k + 1) * 2 * n])
            if ta != tb:
                bad.append("total of sample %d: %r vs %r" % (k, tb, ta))
    if bad:
        det["why"] = "entries %s differ" % bad[:5]
        return False, det
    return True, det


def simulate_cg_check(c, ts, dt, squnit=None):
    """simulate(..., cgmap=map) on the Euler engine versus the fine grid; returns (status, detail):
    status in ok | skipped | unusable | raises | bad.  `squnit` = quantity unit of the script's units system: the trajectory is then
    expressed in that unit while the system's state keeps its own; everything is compared through the units the results carry."""
    from strengths import simulate, UnitsSystem
    kw = {"units_system": UnitsSystem(quantity=squnit)} if squnit else {}
    system = build(c)
    n = len(c["envs"])
    im, ns = c["im"], c["ns"]
    why = unsafe_graph(system, im)
    if why:
        # zero centroid distance between non-contiguous groups is legitimate geometry but unusable for a simulation: skip those
        if "distance" in why and "surface" in why:
            return "skipped", why
        return "unusable", why
    try:
        out = simulate(system, t_sample=ts, engine=common.load_engine("euler"), time_step=dt, cgmap=list(im), **kw)
    except Exception as e:  # noqa
        return "raises", repr(e)
    # the trajectory's numbers, re-expressed in the unit of the state through the units the trajectory says it has
    ou = out.data.units
    conv = si_factor((ou.sys.space, ou.sys.time, ou.sys.quantity), (ou.dim.space, ou.dim.time, ou.dim.quantity)) / si_qty(c.get("stsys", c["ssys"])[2])
    if (ou.dim.space, ou.dim.time, ou.dim.quantity) != (0, 0, 1) or (squnit and ou.sys.quantity != squnit):
        return "bad", {"why": "trajectory data carry units %s, the script's quantity unit is %s" % (ou, squnit or "the default"), "data": []}
    try:
        vals = [frac(float(v)) * conv for v in np.asarray(out.data.value).ravel()]
    except ValueError as e:
        return "bad", {"why": "non-finite value in the trajectory (%s)" % e, "data": []}
    ng = max(im) + 1
    members = [[i for i in range(n) if im[i] == g] for g in range(ng)]
    bad = None
    if len(vals) != len(ts) * ns * n:
        bad = "size %d" % len(vals)
    else:
        free = [all(c["chem"][s * n + i] == 0 for i in range(n)) for s in range(ns)]
        for kk in range(len(ts)):
            for s in range(ns):
                row = vals[kk * ns * n + s * n:(kk * ns * n + (s + 1) * n)]
                tot0 = sum(frac(c["state"][s * n + i]) for i in range(n) if im[i] != -1)
                for g in range(ng):
                    if any(not close(row[i], frac(row[members[g][0]]), mag=1, rel=1e-9) for i in members[g]):
                        bad = bad or "sample %d species %d group %d not spread evenly" % (kk, s, g)
                    if kk == 0:
                        e0 = sum(frac(c["state"][s * n + i]) for i in members[g]) / len(members[g])
                        if not close(row[members[g][0]], e0, mag=1, rel=1e-9):
                            bad = bad or "sample 0 species %d group %d is %s, initial group total / size = %s (unit of the state)" % (s, g, fstr(row[members[g][0]]), fstr(e0))
                if any(row[i] != 0 for i in range(n) if im[i] == -1):
                    bad = bad or "sample %d species %d: dropped cell non-zero" % (kk, s)
                # a group chemostated for this species (some member flagged) keeps its initial value at every sample
                row0 = vals[s * n:(s + 1) * n]
                for g in range(ng):
                    if any(c["chem"][s * n + i] for i in members[g]) and not close(row[members[g][0]], frac(row0[members[g][0]]), mag=1, rel=1e-9):
                        bad = bad or "sample %d species %d group %d is chemostated but changed from %s to %s" % (kk, s, g, fstr(row0[members[g][0]]), fstr(row[members[g][0]]))
                    # and an un-chemostated group exchanging matter is not frozen: checked through the species total below
                if free[s] and not close(sum(frac(v) for v in row), tot0, mag=max(tot0, 1), rel=1e-9):
                    bad = bad or "sample %d species %d: total %s, retained cells initially hold %s" % (kk, s, fstr(sum(frac(v) for v in row)), fstr(tot0))
    if bad:
        return "bad", {"why": bad, "data": [fstr(v) for v in vals[:24]]}
    return "ok", None


def cg_structure_runs(ctx, rng, count):
    """simulate(..., cgmap=map).data versus the fine grid: sample 0 = even spreading of the initial group totals, every later
    sample constant within groups, dropped cells zero, species totals over retained cells preserved when nothing reacts"""
    for k in range(count):
        c = gen_case(rng)
        c["gsys"] = c["vsys"] = c["ssys"] = ("µm", "s", "molecule")
        # the state in its own quantity unit, the script (hence the trajectory) in another one
        c["stsys"] = ("µm", "s", rng.choice(["molecule", "molecule", "mol", "nmol", "µmol"]))
        squnit = rng.choice([None, "nmol", "mol", "µmol", "pmol", "molecule"])
        ts = [0.0, 0.25, 0.5]
        case = {"sys": case_json(c), "simulate_cg": {"t_sample": ts, "time_step": 1 / 64, "script_quantity_unit": squnit}}
        ctx.count("simulate_cgmap_units_state_%s_script_%s" % (c["stsys"][2], squnit or "default"))
        st, det = simulate_cg_check(c, ts, 1 / 64, squnit)
        if st == "skipped":
            ctx.count("simulate_cgmap_skipped_zero_distance")
            continue
        ctx.case(("simcg", tuple(c["shape"]), tuple(c["im"])), nontrivial=True)
        ctx.count("simulate_cgmap")
        if st == "unusable":
            ctx.violation("simulate-cg:unusable-graph", "coarse-grained system cannot be simulated: " + det, case, impl=det)
        elif st == "raises":
            ctx.violation("simulate-cg:raises", "simulate(cgmap=valid map) raised %s" % det, case, impl=det)
        elif st == "bad":
            ctx.violation("simulate-cg:structure", "simulate(cgmap=map): " + det["why"], case, impl=det["data"])


# ------------------------------------------------------------------------------------------------- main
def real_coarsegrain(c):
    from strengths.coarsegrain import coarsegrain_system
    system = build(c)
    try:
        cg = coarsegrain_system(system, list(c["im"]))
        return "ok", cg
    except Exception as e:  # noqa
        return "error", "%s: %s" % (type(e).__name__, e)


def run(ctx):
    rng = ctx.rng
    from strengths.coarsegrain import check_index_map_validity, grid_to_graph
    ctx.notes.append("proved for all inputs (Props/C16.lean): valid_iff (environments != -2), cg_volume(_SI), cg_group_amount, cg_species_total, "
                     "cg_env, cg_chem_any (flags >= 0), cg_edge_iff, cg_surface, cg_distance + cg_centroid, cg_no_loops_no_dups, "
                     "fine_edges_are_shared_faces, uncg_even / uncg_dropped_zero / uncg_group_total, identity_map, identity_state, generated "
                     "subscripts / tests / statement inventory.  'simulating with the identity map reproduces the plain simulation' rests on "
                     "identity_map + C15 (grid = its graph) on the theorem side and is run on the three rebuilt engines here")
    n_valid = ctx.n(240, 8000)
    n_invalid = ctx.n(100, 2500)
    cases = [gen_case(rng) for _ in range(n_valid)] + [gen_case(rng, invalid=True) for _ in range(n_invalid)] + \
            [gen_case(rng, periodic=True) for _ in range(ctx.n(6, 100))]
    # the seeded / documented example: dropping cells of two environments
    base = dict(shape=(4, 1, 1), envs=[0, 1, 0, 1], nenv=2, h=Fraction(1), gsys=("µm", "s", "molecule"), vsys=("µm", "s", "molecule"),
                ssys=("µm", "s", "molecule"), stsys=("µm", "s", "molecule"), ns=1, kind="corpus", state=[4.0, 6.0, 4.0, 6.0], chem=[0, 0, 0, 0], periodic=None)
    for im in ([-1, -1, 0, 1], [-1, 0, -1, 0], [0, -1, 1, -1], [-1, 1, 0, -1], [0, 1, 2, 3]):
        cases.insert(0, dict(base, im=im))
    for _ in range(ctx.n(2, 12)):
        cases.insert(rng.randrange(len(cases)), big_map_case(rng))
    for _ in range(ctx.n(3, 20)):
        cases.insert(rng.randrange(len(cases)), many_env_case(rng))
    batch = 400
    for b0 in range(0, len(cases), batch):
        chunk = cases[b0:b0 + batch]
        ops = [model_op(c) for c in chunk]
        # validity alone, on the graph (second entry point)
        ops += [{"op": "cg_check", "im": [g if type(g) is int else None for g in c["im"]], "envs": list(c["envs"])} for c in chunk]
        answers = ctx.model.run(ops)
        un_ops, un_meta = [], []
        for k, c in enumerate(chunk):
            m, mchk = answers[k], answers[len(chunk) + k]
            cj = case_json(c)
            case = {"sys": cj}
            valid, why = documented_valid(c["im"], c["envs"])
            st, cg = real_coarsegrain(c)
            ndrop_envs = len(set(c["envs"][i] for i in range(min(len(c["im"]), len(c["envs"]))) if type(c["im"][i]) is int and c["im"][i] == -1))
            ctx.count("map_" + c["kind"])
            ctx.count("dims_%d" % sum(1 for v in c["shape"] if v > 1))
            if ndrop_envs >= 2:
                ctx.count("drops_of_several_environments")
            if tuple(c["vsys"]) != tuple(c["gsys"]):
                ctx.count("cell_vol_in_other_units")
            if c.get("stsys", c["ssys"])[2] != c["ssys"][2]:
                ctx.count("state_in_other_quantity_unit")
            groups = [g for g in c["im"] if type(g) is int and g >= 0]
            nontriv = (len(groups) != len(set(groups))) or (-1 in [g for g in c["im"] if type(g) is int]) or not valid
            ctx.case(("cg", tuple(c["shape"]), tuple(c["envs"]), tuple(repr(g) for g in c["im"]), rstr(c["h"]), tuple(c["vsys"]), tuple(c["gsys"])),
                     nontrivial=nontriv, sample={"op": "coarsegrain_system", "shape": c["shape"], "envs": c["envs"], "map": cj["im"],
                                                 "impl": "raises" if st == "error" else {"nodes": len(cg.space.nodes), "edges": len(cg.space.edges)}})
            # ---- check_index_map_validity on its own (graph of the grid, reflecting copy)
            c2 = dict(c, periodic=None)
            try:
                graph_of_grid = grid_to_graph(build(c2).space)
            except Exception as e:  # noqa
                ctx.violation("grid_to_graph:raises", "grid_to_graph raised %r on a %s grid" % (e, "x".join(map(str, c["shape"]))), case, impl=repr(e))
                continue
            try:
                check_index_map_validity(list(c["im"]), graph_of_grid)
                st_chk = "ok"
            except Exception as e:  # noqa
                st_chk = "error"
            if valid and st_chk != "ok":
                ctx.violation("rejects-valid-map", "check_index_map_validity rejects a map that is valid by the documented rules "
                              "(map %s, environments %s)" % (cj["im"], c["envs"]), case, impl="raises", expected="accepted")
            if (not valid) and st_chk == "ok":
                ctx.violation("accepts-invalid-map:%s" % why.replace(" ", "-"), "check_index_map_validity accepts an invalid map (%s): %s, environments %s" % (why, cj["im"], c["envs"]),
                              case, impl="accepted", expected="exception")
            if mchk is not None and ("error" in mchk) != (st_chk == "error"):
                ctx.disagree("cg_check", case, st_chk, mchk)
            # ---- coarsegrain_system
            must_raise = (not valid) or c["periodic"] is not None
            if must_raise:
                ctx.count("expected_error")
                if st == "ok":
                    ctx.violation("accepts:%s" % ("periodic-grid" if valid else why.replace(" ", "-")), "coarsegrain_system accepted %s" % ("a periodic grid" if valid else "an invalid map (%s)" % why),
                                  case, impl="accepted", expected="exception")
                if m is not None and ("error" in m) != (st == "error"):
                    ctx.disagree("coarsegrain", case, st, m)
                continue
            ctx.count("expected_ok")
            if st == "error":
                ctx.violation("rejects-valid-map" if "index" in str(cg).lower() or "environment" in str(cg).lower() or "node" in str(cg).lower() else "cg:raises",
                              "coarsegrain_system raised on a valid map: %s" % cg, case, impl=cg, expected="coarse system")
                if m is not None and "error" not in m:
                    ctx.disagree("coarsegrain", case, "error", m)
                continue
            got = read_cg(cg, c["ns"])
            try:
                oracle_cg(ctx, c, got, case)
                compare_model(ctx, c, got, m, case)
            except (ValueError, OverflowError) as e:      # nan / inf in the coarse system (frac() refuses them)
                ctx.violation("cg:non-finite", "coarse-grained system holds a non-finite number (%s)" % e, case, impl=repr(e))
                continue
            if (b0 + k) % 3 == 0:
                op, meta = uncg_case(ctx, rng, c, cg)
                if op is not None:
                    un_ops.append(op)
                    un_meta.append(meta)
        for r, (vals, case) in zip(ctx.model.run(un_ops), un_meta):
            if r is None:
                continue
            if "error" in r or len(r["ok"]) != len(vals) or not all(close(v, rparse(q), mag=1, rel=1e-12) for v, q in zip(vals, r["ok"])):
                ctx.disagree("uncoarsegrain", case, vals[:40], r if "error" in r else r["ok"][:40])
        badl = ctx.extra.pop("_uncg_bad", [])
        for r, (op, bvals, bcase) in zip(ctx.model.run([b[0] for b in badl]), badl):
            if r is None:
                continue
            if ("error" in r) != (bvals == "error") or ("ok" in r and (len(r["ok"]) != len(bvals) or
                                                                        not all(close(v, rparse(q), mag=1, rel=1e-12) for v, q in zip(bvals, r["ok"])))):
                ctx.disagree("uncoarsegrain", bcase, bvals if bvals == "error" else bvals[:40], r if "error" in r else r["ok"][:40])
        if ctx.time_left() < 25:
            ctx.notes.append("time budget reached after %d systems" % (b0 + len(chunk)))
            break
    # ---- identity map and cgmap structure on the real engines, in a child process (a coarse system produced by a defective
    #      tree can make the native engine hang or crash; that must not take the check down)
    engine_runs_in_child(ctx, rng.randint(0, 10 ** 9), ctx.n(16, 64), ctx.n(8, 60), ctx.n(45, 900))


class _Rec:
    """stand-in for Ctx inside the child: records what the engine runs report"""

    def __init__(self, seed):
        import random
        self.rng = random.Random(seed)
        self.violations, self.cases, self.counts = [], [], {}

    def violation(self, key, what, case, impl=None, expected=None, replay_cmd=None):
        self.violations.append({"key": key, "what": what, "case": case, "impl": impl, "expected": expected})

    def case(self, fp, nontrivial=True, sample=None):
        self.cases.append([repr(fp), bool(nontrivial)])

    def count(self, k, n=1):
        self.counts[k] = self.counts.get(k, 0) + n


def conservation_check(d, state, option, ts, dt, seed):
    """identity-map run of a network that only diffuses (reflecting grid): every sample holds the initial total of every species,
    exactly (molecule counts are integers; a leap that overdraws a cell leaves it negative, it does not create matter).
    Returns None or a description of the failure."""
    from strengths import simulate, rdsystem_from_dict
    system = rdsystem_from_dict(d)
    system.state = list(state)
    n = system.space.size()
    ns = system.network.nspecies()
    try:
        out = simulate(system, t_sample=ts, engine=common.load_engine(option), time_step=dt, rng_seed=seed, cgmap=list(range(n)))
    except Exception as e:  # noqa
        return "raised %r" % (e,)
    vals = [float(v) for v in np.asarray(out.data.value).ravel()]
    nsamp = len(vals) // (ns * n) if ns * n else 0
    if nsamp == 0 or len(vals) != nsamp * ns * n:
        return "trajectory of %d values for %d species x %d cells" % (len(vals), ns, n)
    for k in range(nsamp):
        for s_ in range(ns):
            tot = sum(frac(v) for v in vals[k * ns * n + s_ * n:k * ns * n + (s_ + 1) * n])
            tot0 = sum(frac(v) for v in state[s_ * n:(s_ + 1) * n])
            if tot != tot0:
                return "sample %d species %d holds %s molecules in total, the initial total is %s (cells: %s)" % (
                    k, s_, fstr(tot), fstr(tot0), vals[k * ns * n + s_ * n:k * ns * n + (s_ + 1) * n][:16])
    return None


def conservation_runs(ctx, rng, count):
    """tau-leap (and Gillespie) on the graph engine through the identity map, few molecules per cell and a coarse time step
    (kd * dt about 0.1, so that a leap can draw more departures than a cell holds), many seeds"""
    shape = rng.choice([(4, 3, 1), (6, 1, 1), (3, 2, 2), (5, 2, 1)])
    n = shape[0] * shape[1] * shape[2]
    species = [{"label": "A", "density": 0, "D": 1}, {"label": "B", "density": 0, "D": 2}]
    d = {"network": {"species": species, "reactions": []}, "space": {"w": shape[0], "h": shape[1], "d": shape[2], "cell_vol": 1}}
    for k in range(count):
        option = "tauleap" if k % 5 else "gillespie"
        state = [float(rng.randint(0, 3)) for _ in range(2 * n)]
        seed = rng.randint(1, 10 ** 6)
        dt = rng.choice([0.1, 0.05, 0.125])
        ts = [0.0, 0.5, 1.0, 2.0]
        case = {"conservation": {"system": d, "state": state, "option": option, "t_sample": ts, "time_step": dt, "seed": seed}}
        bad = conservation_check(d, state, option, ts, dt, seed)
        ctx.case(("conserve", option, shape, tuple(state), seed), nontrivial=True)
        ctx.count("identity_conservation_" + option)
        if bad:
            ctx.violation("identity-conservation:%s" % option, "simulate(cgmap=identity) of a diffusion-only network (%s engine, %dx%dx%d cells, 0-3 "
                          "molecules per cell, time step %s): %s" % (option, shape[0], shape[1], shape[2], dt, bad), case, impl=bad)


def child_engine_runs(seed, n_identity, n_structure):
    rec = _Rec(seed)
    identity_runs(rec, rec.rng, n_identity)
    cg_structure_runs(rec, rec.rng, n_structure)
    conservation_runs(rec, rec.rng, 24 if n_identity <= 16 else 120)
    return common.jsonable({"violations": rec.violations, "cases": rec.cases, "counts": rec.counts})


def engine_runs_in_child(ctx, seed, n_identity, n_structure, timeout):
    import json
    code = ("import json, common; common.use_repo_package(); from props import c16; "
            "print('RESULT' + json.dumps(c16.child_engine_runs(%d, %d, %d)))" % (seed, n_identity, n_structure))
    status, out = common.run_child(code, timeout=timeout)
    line = [l for l in out.splitlines() if l.startswith("RESULT")]
    if status != "ok" or not line:
        ctx.notes.append("engine runs (identity map, simulate with cgmap) ended with %s" % status)
        ctx.broken.append({"kind": "correspondence", "name": "simulate_cg_identity", "note": "child process %s: %s" % (status, out[-600:])})
        return
    r = json.loads(line[-1][len("RESULT"):])
    for fp, nt in r["cases"]:
        ctx.case(fp, nontrivial=nt)
    for k, v in r["counts"].items():
        ctx.count(k, v)
    for v in r["violations"]:
        ctx.violation(v["key"], v["what"], v["case"], impl=v["impl"], expected=v["expected"])


def replay(ctx, rec):
    case = rec.get("case", rec)
    out = {}
    if "conservation" in case:
        d = case["conservation"]
        bad = conservation_check(d["system"], d["state"], d["option"], d["t_sample"], d["time_step"], d["seed"])
        return bad is None, {"failure": bad}
    if "identity" in case:
        from strengths import rdsystem_from_dict
        d = case["identity"]
        system = rdsystem_from_dict(d["system"])
        if d.get("chem"):
            system.chemostats = list(d["chem"])
        ok, det = identity_compare(system, d["option"], d["t_sample"], d["seed"], d["time_step"], d.get("diffuse", True),
                                   d.get("policy", "on_t_sample"), d.get("script_units"), d.get("history"))
        return ok, det
    c = dict(case["sys"])
    c["h"] = Fraction(c["h"])
    im = []
    for g in c["im"]:
        if type(g) is int:
            im.append(g)
        elif g in ("True", "False"):
            im.append(g == "True")
        elif g.startswith("np."):
            im.append(np.int64(int(g.split("(")[1].rstrip(")"))))
        elif g.startswith("'"):
            im.append(g.strip("'"))
        else:
            im.append(float(g))
    c["im"] = im
    valid, why = documented_valid(im, c["envs"])
    st, cg = real_coarsegrain(c)
    out.update(map=case["sys"]["im"], envs=c["envs"], shape=c["shape"], documented_valid=valid, why=why,
               impl=("raises " + str(cg)) if st == "error" else "accepted")
    if (not valid) or c.get("periodic"):
        return st == "error", out
    if st == "error":
        return False, out

    class V:
        def __init__(self):
            self.v = []

        def violation(self, key, what, case, impl=None, expected=None, replay_cmd=None):
            self.v.append((key, what))

        def count(self, *a):
            pass

        def case(self, *a, **k):
            pass
    v = V()
    oracle_cg(v, c, read_cg(cg, c["ns"]), {})
    if "uncg" in case:
        import random
        uncg_replay(v, c, cg, case["uncg"])
    if "simulate_cg" in case:
        st, det = simulate_cg_check(c, case["simulate_cg"]["t_sample"], case["simulate_cg"]["time_step"], case["simulate_cg"].get("script_quantity_unit"))
        out.update(simulate_cgmap=st, detail=det)
        return st in ("ok", "skipped"), out
    out["failures"] = v.v
    return not v.v, out


def uncg_replay(v, c, cgsys, u):
    from strengths import UnitArray
    from strengths.rdoutput import RDTrajectory
    from strengths.coarsegrain import uncoarsegrain_trajectory
    n, ns, im = len(c["envs"]), c["ns"], c["im"]
    ng = max(im) + 1
    N, data = u["N"], u["data"]
    traj = RDTrajectory(data=UnitArray(data, u.get("unit") or cgsys.state.units), t_sample=UnitArray([float(k) for k in range(N)], "s"), system=cgsys)
    before = np.array(traj.data.value, dtype=float).tobytes()
    out = uncoarsegrain_trajectory(traj, build(c), im)
    vals = [float(x) for x in np.asarray(out.data.value).ravel()]
    if np.array(traj.data.value, dtype=float).tobytes() != before:
        v.violation("uncg:modifies-input", "the coarse trajectory was modified: %s -> %s" % (data[:6], [float(x) for x in np.asarray(traj.data.value).ravel()][:6]), {})
        return
    vals2 = [float(x) for x in np.asarray(uncoarsegrain_trajectory(traj, build(c), im).data.value).ravel()]
    if vals2 != vals:
        v.violation("uncg:second-call", "a second call on the same coarse trajectory gives another result", {})
        return
    members = [[i for i in range(n) if im[i] == g] for g in range(ng)]
    for k in range(N):
        for s in range(ns):
            for i in range(n):
                exp = Fraction(0) if im[i] == -1 else frac(data[k * ns * ng + s * ng + im[i]]) / len(members[im[i]])
                if len(vals) != N * ns * n or not close(vals[k * ns * n + s * n + i], exp, mag=1, rel=1e-12):
                    v.violation("uncg:value", "sample %d species %d cell %d: %r, even spreading gives %s" % (k, s, i, vals[k * ns * n + s * n + i] if len(vals) == N * ns * n else None, fstr(exp)), {})
                    return
