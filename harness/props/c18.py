"""C18 — Unit and quantity text: print-parse round-trip, SI meaning, rejection.

Purity clause tested by the sequence stream (a consequence of the statement: a text is read with the meaning ITS
SYMBOLS define): equal texts give equal results whatever was parsed or edited before, and the results of different
parse calls share no mutable component.

Theorems: lean/Strengths/Props/C18.lean (tables G1/G2 + text-pipeline constants regenerated from units.py).
Correspondence: `parse_units`, `show_units`, `parse_unitvalue`, `show_unitvalue`, `units_eq`, `py_int`.
Oracle (independent of the code and of the model's algorithm): the grammar's denotation — every symbol's
dimension vector and exact SI scale from an SI prefix table written here, sums / products over the
factors, consistency of base units — evaluated on the REAL parse result; bitwise float round trip;
"must raise" for the malformed classes of the statement (generated from the documentation's wrong examples).
"""
import itertools, struct
from fractions import Fraction
import common
from common import frac, rstr, rparse, close
from props.c06 import PREFIX, NA, SPACE, TIME, QTY, VOLUME, MOLAR, si_space, si_time, si_qty, si_factor

ID = "C18"
LEAN_TARGETS = ["Strengths.Props.C18"]
PROP_FILES = ["Strengths/Props/C18.lean"]
GEN_GROUPS = ["Units", "UnitsText"]
RULE = ("grammar: every 1-factor string (47 symbols + 5 u-spellings x exponent none/-9..9), every ordered symbol pair x both "
        "separators x sampled exponents, random 3-factor strings (thorough: all 2-factor strings with exponents -3..3), each in "
        "a/b and a.b-1 form and in permuted order; round trip: all 1100 systems x random exponent vectors, random finite "
        "doubles (raw bit patterns, decades, integers, denormals, extremes, -0.0) x random units; malformed: the 9 wrong "
        "examples of the documentation + families derived from them per rejection class, as unit text and inside quantity "
        "text; purity: parse -> edit the result in place -> parse the same text again through every entry point (results must equal "
        "the first reading and must not share components); a case is non-trivial when the text has at least one factor / the value is non-zero; distinct by text")
ASSUMPTIONS = [
    "float(text) and str(float) of CPython are trusted primitives (model parameters pyFloat / pyRepr); the harness checks the "
    "bitwise round trip float(str(x)) == x on every generated double",
    "exponent spellings the strict reader still accepts although the grammar writes them differently ('02', '-0', '007') are "
    "outside the statement's rejection classes and are not generated as malformed",
]
TRUSTED = ["Python-side SI oracle (prefix table of props/c06.py) and grammar denotation below",
           "Python's float()/str(float) as supplied to the model by the harness (table of token -> exact rational)"]

DEFAULT = ("µm", "s", "molecule")
KINDS = ("space", "time", "quantity")
USPELL = {"µm": "um", "µs": "us", "µmol": "umol", "µL": "uL", "µM": "uM"}
ALL47 = SPACE + TIME + QTY + MOLAR + VOLUME
assert len(ALL47) == 47 and len(set(ALL47)) == 47


def _meaning():
    m = {}
    for s in SPACE:
        m[s] = ((1, 0, 0), si_space(s), {"space": s})
    for s in TIME:
        m[s] = ((0, 1, 0), si_time(s), {"time": s})
    for s in QTY:
        m[s] = ((0, 0, 1), si_qty(s), {"quantity": s})
    for s in VOLUME:
        si = PREFIX[s[:-1]] * Fraction(1, 1000)          # prefix x litre, 1 L = 1 dm^3 = 1e-3 m^3
        base = [x for x in SPACE if si_space(x) ** 3 == si]
        assert len(base) == 1, (s, base)
        m[s] = ((3, 0, 0), si, {"space": base[0]})
    for s in MOLAR:
        si = PREFIX[s[:-1]] * NA / Fraction(1, 1000)      # prefix x mol per litre, in molecules per m^3
        m[s] = ((-3, 0, 1), si, {"quantity": s[:-1] + "mol", "space": "dm"})
    return m


MEANING = _meaning()


def denote(factors):
    """factors: [(sep, symbol, exponent or None)] -> ('ok', dim, si, bases) | ('conflict', kind)"""
    dim = [0, 0, 0]
    si = Fraction(1)
    bases = {}
    for sep, sym, ex in factors:
        e = 1 if ex is None else ex
        if sep == "/":
            e = -e
        d, s, b = MEANING[sym]
        for k in range(3):
            dim[k] += e * d[k]
        si *= s ** e
        for k, u in b.items():
            if k in bases and bases[k] != u:
                return ("conflict", k)
            bases[k] = u
    return ("ok", tuple(dim), si, bases)


def render(factors, uspell=False):
    out = ""
    for i, (sep, sym, ex) in enumerate(factors):
        if i > 0:
            out += sep
        out += (USPELL.get(sym, sym) if uspell else sym) + ("" if ex is None else str(ex))
    return out


def impl():
    from strengths.units import parse_units, parse_unitvalue, Units, UnitValue, UnitsSystem, UnitsDimensions
    return parse_units, parse_unitvalue, Units, UnitValue, UnitsSystem, UnitsDimensions


def units_tuple(u):
    return ((u.sys.space, u.sys.time, u.sys.quantity), (u.dim.space, u.dim.time, u.dim.quantity))


def run_parse_units(text):
    parse_units = impl()[0]
    try:
        return {"ok": units_tuple(parse_units(text))}
    except Exception as ex:  # noqa
        return {"error": type(ex).__name__}


def run_parse_value(text, ctor=False):
    _, parse_unitvalue, _, UnitValue = impl()[:4]
    try:
        v = UnitValue(text) if ctor else parse_unitvalue(text)
        return {"ok": (v.value,) + units_tuple(v.units)}
    except Exception as ex:  # noqa
        return {"error": type(ex).__name__}


def mk_units(sys, dim):
    _, _, Units, _, UnitsSystem, UnitsDimensions = impl()
    return Units(UnitsSystem(space=sys[0], time=sys[1], quantity=sys[2]),
                 UnitsDimensions(space=dim[0], time=dim[1], quantity=dim[2]))


def unitsj(s, d):
    return {"sys": {"space": s[0], "time": s[1], "quantity": s[2]}, "dim": list(d)}


def model_units(r):
    mo = r["ok"]
    return ((mo["sys"]["space"], mo["sys"]["time"], mo["sys"]["quantity"]), tuple(mo["dim"]))


def float_table(text):
    """Python's float() on every blank-delimited token of `text` (the trusted primitive handed to the model)"""
    toks = set(text.split()) | {text.strip()}
    tbl = []
    for t in sorted(toks):
        try:
            v = float(t)
            if v != v or v in (float("inf"), float("-inf")):
                return None          # nan / inf tokens are outside the rational model
            tbl.append([t, rstr(v)])
        except ValueError:
            tbl.append([t, None])
    return tbl


def bits(x):
    return struct.pack("<d", x)


# ------------------------------------------------------------------------------------------------
# oracle for one unit string of the grammar
# ------------------------------------------------------------------------------------------------
def check_grammar_case(ctx, factors, uspell, got, text):
    """the property's predicate for a grammatical unit string, on the real result `got`"""
    spec = denote(factors)
    case = {"kind": "parse_units", "text": text, "factors": [list(f) for f in factors]}
    if spec[0] == "conflict":
        if "error" not in got:
            ctx.violation("two-units:%s" % spec[1], "two different units of one base kind accepted: %r read as %r" % (text, got["ok"]),
                          case, impl=got, expected="exception")
        return
    _, dim, si, bases = spec
    if "error" in got:
        key = "grammar-raises:%d-factor%s" % (len(factors), ":u-spelling" if uspell else "")
        ctx.violation(key, "unit text of the documented grammar raised %s: %r" % (got["error"], text), case, impl=got,
                      expected={"dim": dim, "si": rstr(si)})
        return
    gsys, gdim = got["ok"]
    try:
        gsi = si_factor(gsys, gdim)
    except KeyError:
        gsi = None
    okb = all(gsys[k] == bases[KINDS[k]] for k in range(3) if gdim[k] != 0 and KINDS[k] in bases)
    if len(factors) <= 2 and tuple(gdim) == dim and gsi == si and okb:
        # the SI scale as the package itself realises it: 1 <text> expressed in m / s / molecule
        _, _, _, UnitValue, UnitsSystem, _ = impl()
        try:
            one = UnitValue(1.0, text).convert(UnitsSystem("m", "s", "molecule")).value
        except Exception as ex:  # noqa
            one = repr(ex)
        if not close(one, si, rel=1e-12):
            ctx.violation("grammar-meaning:si-conversion", "1 %s is %r in SI base units, its symbols define %s" % (text, one, common.fstr(si)),
                          case, impl={"parsed": got, "one_in_SI": one}, expected={"dim": dim, "si": rstr(si)})
            return
    if tuple(gdim) != dim or gsi != si or not okb:
        key = "grammar-meaning:%s" % ("dim" if tuple(gdim) != dim else "si")
        ctx.violation(key, "%r read as %s %s, its symbols define dimension %s and SI scale %s" % (text, gsys, gdim, dim, common.fstr(si)),
                      case, impl=got, expected={"dim": dim, "si": rstr(si)})


def corr_units(ctx, op, case, got, r):
    if r is None:
        return
    if ("error" in r) != ("error" in got):
        ctx.disagree(op, case, got, r)
    elif "ok" in r and model_units(r) != (tuple(got["ok"][0]), tuple(got["ok"][1])):
        ctx.disagree(op, case, got, r)


# ------------------------------------------------------------------------------------------------
# malformed stream
# ------------------------------------------------------------------------------------------------
DOC_WRONG_UNITS = ["mol/µm. s", "mol//µm.s", "mol.µm-1.5.s-2", "mol.µm+1.s-2", "mol.µm 1.s-2"]
DOC_WRONG_VALUES = ["1µm/s", "a µm/s", "[1, 2] µm/s", "{'v', 1} µm/s", "2m"]
BLANKS = [" ", "\t", "\n", "\r", "\x0b", "\x0c", "  ", "\xa0", " ", "　", "\x1c", "\x85"]
LETTERS = "abcdefghijklmnopqrstuvwxyzABCDEFGHIJKLMNOPQRSTUVWXYZµ"


def after_subst(s):
    for a, b in (("um", "µm"), ("us", "µs"), ("umol", "µmol"), ("uL", "µL"), ("uM", "µM")):
        s = s.replace(a, b)
    return s


def rand_factor(rng, first=False, exps=(-9, 9)):
    sym = rng.choice(ALL47)
    ex = None if rng.random() < 0.4 else rng.choice([e for e in range(exps[0], exps[1] + 1) if e != 0])
    return ("." if first else rng.choice("./"), sym, ex)


def rand_valid(rng, n=None):
    """a random *consistent* factor list (valid unit text)"""
    for _ in range(50):
        k = n or rng.randint(1, 3)
        fs = [rand_factor(rng, i == 0) for i in range(k)]
        if denote(fs)[0] == "ok":
            return fs
    return [(".", "m", None)]


def unknown_symbol(rng):
    while True:
        w = "".join(rng.choice(LETTERS) for _ in range(rng.randint(1, 5)))
        if after_subst(w) not in ALL47 and w not in ALL47:
            return w


def malformed_units(rng):
    """(class, text) — one unit string of a rejection class of the statement"""
    cls = rng.choice(["unknown-symbol", "doubled-separator", "dangling-separator", "signed-positive", "fractional-exponent",
                      "misplaced-exponent", "embedded-blank", "two-units", "exotic-exponent"])
    fs = rand_valid(rng)
    i = rng.randrange(len(fs))
    sep, sym, ex = fs[i]
    parts = [(("" if j == 0 else f[0]), f[1] + ("" if f[2] is None else str(f[2]))) for j, f in enumerate(fs)]
    if cls == "unknown-symbol":
        how = rng.randrange(4)
        if how == 0:
            w = unknown_symbol(rng)
        elif how == 1:
            w = sym.swapcase() if (after_subst(sym.swapcase()) not in ALL47) else unknown_symbol(rng)
        elif how == 2:
            w = sym + rng.choice(LETTERS)
            if after_subst(w) in ALL47:
                w = unknown_symbol(rng)
        else:
            w = rng.choice(["kg", "g", "Hz", "mole", "molecules", "sec", "hr", "l", "ml", "µ", "mo", "Mm", "µl", "um3x", "K", "N"])
        parts[i] = (parts[i][0], w + ("" if ex is None else str(ex)))
    elif cls == "doubled-separator":
        j = rng.randrange(len(parts))
        extra = rng.choice("./")
        if j == 0:
            parts.append((rng.choice("./") + extra, "s"))
        else:
            parts[j] = (parts[j][0] + extra, parts[j][1])
    elif cls == "dangling-separator":
        if rng.random() < 0.5:
            parts[0] = (rng.choice("./"), parts[0][1])
        else:
            parts.append((rng.choice("./"), ""))
    elif cls == "signed-positive":
        parts[i] = (parts[i][0], sym + "+" + str(rng.randint(1, 9)))
    elif cls == "fractional-exponent":
        frac_txt = rng.choice(["1.5", "0.5", "-1.5", "2.0", "-0.5", "1,5", "1e2", "3/2", "2.5", "-2.25", ".5"])
        parts[i] = (parts[i][0], sym + frac_txt)
        if frac_txt == "3/2" or frac_txt == "2.0":
            # "m3/2" = m3 per (unknown symbol "") ; "m2.0" = m2 times an exponent-only factor: still outside the grammar
            pass
    elif cls == "misplaced-exponent":
        e = rng.choice([2, 3, -1, -2, 10])
        how = rng.randrange(5)
        if how == 0:
            w = "%d%s" % (e, sym)                 # exponent before the symbol
        elif how == 1:
            w = sym[:1] + str(e) + sym[1:] if len(sym) > 1 else str(e) + sym   # exponent inside the symbol
        elif how == 2:
            w = sym + str(e) + rng.choice(["x", "m", "s", "^", "e"])          # text after the exponent
        elif how == 3:
            w = sym + rng.choice(["^", "**", "e", "exp"]) + str(e)            # other exponent notations
        else:
            w = sym + str(e) + "-"                                            # sign after the exponent
        parts[i] = (parts[i][0], w)
    elif cls == "exotic-exponent":
        # exponent text that is not -?[0-9]+ : underscores, non-ASCII decimal digits, superscripts, inner / doubled /
        # trailing signs, a lone sign
        d = rng.randint(1, 9)
        nonascii = lambda n, base: "".join(chr(base + int(ch)) for ch in str(n))  # noqa
        how = rng.randrange(9)
        if how == 0:
            w = sym + "%d_%d" % (d, rng.randint(0, 9))
        elif how == 1:
            w = sym + rng.choice(["", "-"]) + nonascii(rng.randint(1, 30), rng.choice([0x0660, 0x06F0, 0x0966, 0xFF10, 0x09E6]))
        elif how == 2:
            w = sym + str(d) + nonascii(rng.randint(0, 9), rng.choice([0x0660, 0xFF10]))
        elif how == 3:
            w = sym + str(d) + rng.choice(["²", "³", "¹"])
        elif how == 4:
            w = sym + "%d-%d" % (d, rng.randint(1, 9))
        elif how == 5:
            w = sym + "--%d" % d
        elif how == 6:
            w = sym + "-"
        elif how == 7:
            w = sym + "%d-" % d
        else:
            w = sym + "-" + nonascii(d, 0x0660) + str(rng.randint(0, 9))
        parts[i] = (parts[i][0], w)
    elif cls == "embedded-blank":
        b = rng.choice(BLANKS)
        txt = "".join(a + c for a, c in parts)
        if len(txt) < 2:
            txt = txt + ".s" if txt != "s" else "m.s"
        pos = rng.randint(1, len(txt) - 1)
        return cls, txt[:pos] + b + txt[pos:]
    elif cls == "two-units":
        for _ in range(100):
            a, b2 = rng.choice(ALL47), rng.choice(ALL47)
            fs2 = [(".", a, rng.choice([None, 2, -1])), (rng.choice("./"), b2, rng.choice([None, 2, -1, 3]))]
            if denote(fs2)[0] == "conflict":
                if rng.random() < 0.3:
                    fs2.insert(1, (rng.choice("./"), rng.choice(TIME), None))
                if rng.random() < 0.5:
                    fs2.reverse()
                    fs2 = [(".",) + fs2[0][1:]] + fs2[1:]
                return cls, render(fs2)
        return cls, "m.cm"
    return cls, "".join(a + c for a, c in parts)


def malformed_values(rng):
    """(class, text) — one quantity string of a rejection class of the statement"""
    cls = rng.choice(["value-not-separated", "non-numeric-value", "blank-inside-units", "blank-inside-units"])
    utxt = render(rand_valid(rng))
    val = rng.choice(["1", "2", "1.5", "-3", "1e3", "+1.3e-10", "0", "7.", ".5", "1E5"])
    if cls == "value-not-separated":
        return cls, val + utxt
    if cls == "non-numeric-value":
        w = rng.choice(["a", "one", "[1,", "[1, 2]", "{'v', 1}", "1,5", "--1", "1..2", "0x10", "1e", "e5", "1/2", "²", "x1", "1x",
                        "(1)", "1.5.2", "++1", "µm", "m"])
        return cls, w + " " + utxt
    # blank inside the unit expression of a quantity
    if len(utxt) < 2:
        utxt = utxt + ".s" if utxt != "s" else "m.s"
    pos = rng.randint(1, len(utxt) - 1)
    return cls, val + " " + utxt[:pos] + rng.choice(BLANKS) + utxt[pos:]


def _parse_via(entry, text):
    """a Units object for `text` obtained through one of the public entry points"""
    parse_units, parse_unitvalue, Units, UnitValue, UnitsSystem, UnitsDimensions = impl()
    if entry == "parse_units":
        return parse_units(text)
    if entry == "Units":
        return Units(text)
    if entry == "parse_unitvalue":
        return parse_unitvalue("4 " + text).units
    if entry == "UnitValue":
        return UnitValue("4 " + text).units
    v = UnitValue(1.0, "")
    v.units = text          # the units setter parses text
    return v.units


def reparse_sequence(case):
    """parse `text`, edit the returned object in place, parse the same text again: the second reading must be what the
    text denotes, and the two results must not share their system / dimension objects.  Returns None or
    (key, what, impl, expected)."""
    fs = [(f[0], f[1], f[2]) for f in case["factors"]]
    text = case["text"]
    spec = denote(fs)
    if spec[0] != "ok":
        return None
    u1 = _parse_via(case["entry1"], text)
    first = units_tuple(u1)
    for what, k, amount in case["edits"]:
        if what == "dim":
            setattr(u1.dim, KINDS[k], getattr(u1.dim, KINDS[k]) + amount)
        else:
            pool = (SPACE, TIME, QTY)[k]
            cur = getattr(u1.sys, KINDS[k])
            setattr(u1.sys, KINDS[k], pool[(pool.index(cur) + amount) % len(pool)])
    u2 = _parse_via(case["entry2"], text)
    second = units_tuple(u2)
    expected = {"dim": spec[1], "si": rstr(spec[2])}
    if u2.sys is u1.sys or u2.dim is u1.dim or u2 is u1:
        return ("purity:results-alias:%s" % case["entry2"], "two readings of %r share their system / dimension object" % text,
                {"first": first, "second": second}, "independent objects")
    ok = tuple(second[1]) == spec[1] and si_factor(second[0], second[1]) == spec[2]
    if not ok:
        return ("purity:reparse-after-edit:%s" % case["entry2"],
                "%r read as %s %s after an earlier result object was edited in place (first reading: %s %s)"
                % (text, second[0], second[1], first[0], first[1]), {"first": first, "second": second}, expected)
    if tuple(first[1]) != spec[1] or si_factor(first[0], first[1]) != spec[2]:
        return ("purity:first-reading:%s" % case["entry1"], "%r read as %s %s" % (text, first[0], first[1]),
                {"first": first}, expected)
    return None


# ------------------------------------------------------------------------------------------------
def run(ctx):
    parse_units, parse_unitvalue, Units, UnitValue, UnitsSystem, UnitsDimensions = impl()
    rng = ctx.rng
    ctx.notes.append("quantity round trip (show_parse_value) is stated under the contract float(str(x)) = x of the trusted "
                     "primitives; the harness checks that contract bitwise on every generated double")
    ctx.notes.append("grammar_semantics is proved in full (acceptance iff no two factors name different base units of one kind, "
                     "dimension, SI-scale product via the C06 SI spec, whole-result invariance under permutation and a/b <-> a.b-1)")
    ctx.notes.append("rejection theorems are stated on the raw text (after Python's strip()) for embedded blanks, doubled / "
                     "dangling separators, exponent-first / fractional exponents, text after an exponent, foreign characters "
                     "('+'), blanks inside a quantity's units; unknown-symbol and two-units are stated on the factor blocks "
                     "of the text after the u->µ chain (which is what defines the symbols)")

    # ============================================================ 1. the grammar: denotation of valid text
    cases = []   # (factors, uspell)
    exps1 = [None] + [e for e in range(-9, 10) if e != 0]
    for sym in ALL47:
        for ex in exps1:
            cases.append(([(".", sym, ex)], False))
    for sym in USPELL:
        for ex in exps1:
            cases.append(([(".", sym, ex)], True))
    if ctx.tier == "quick":
        for a, b in itertools.product(ALL47, ALL47):
            for sep in "./":
                for _ in range(2):
                    ea = rng.choice([None, None, 1, 2, 3, -1, -2, -3])
                    eb = rng.choice([None, None, 1, 2, 3, -1, -2, -3])
                    cases.append(([(".", a, ea), (sep, b, eb)], rng.random() < 0.2))
    else:
        e2 = [None, 1, 2, 3, -1, -2, -3]
        for a, b in itertools.product(ALL47, ALL47):
            for sep in "./":
                for ea in e2:
                    for eb in e2:
                        cases.append(([(".", a, ea), (sep, b, eb)], False))
    for _ in range(ctx.n(3000, 300000)):
        # 3-factor strings: 2/3 consistent (accepted), 1/3 unconstrained (mostly two units of one kind)
        fs = rand_valid(rng, 3) if rng.random() < 0.67 else [rand_factor(rng, i == 0) for i in range(3)]
        cases.append((fs, rng.random() < 0.2))
    # the same meaning written differently: a/b <-> a.b-1 and permutations (both members go through the oracle)
    variants = []
    for fs, usp in rng.sample(cases, min(len(cases), ctx.n(2500, 60000))):
        alt = [fs[0]] + [(("." if f[0] == "/" else "/"), f[1], -(1 if f[2] is None else f[2])) for f in fs[1:]]
        variants.append((fs, alt, usp, "slash-vs-negative-exponent"))
        if len(fs) > 1 and all(f[0] == "." for f in fs):
            perm = fs[:]
            rng.shuffle(perm)
            variants.append((fs, perm, usp, "permutation"))
        elif len(fs) > 1:
            # permute with the separators attached; a leading "/" factor becomes ".sym-e"
            norm = [(".", f[1], (1 if f[2] is None else f[2]) * (-1 if f[0] == "/" else 1)) for f in fs]
            rng.shuffle(norm)
            variants.append((fs, norm, usp, "permutation"))
    texts = [render(fs, usp) for fs, usp in cases]
    ops = [{"op": "parse_units", "s": t} for t in texts]
    res = []
    for i in range(0, len(ops), 60000):
        res += ctx.model.run(ops[i:i + 60000])
    for (fs, usp), text, r in zip(cases, texts, res):
        got = run_parse_units(text)
        spec = denote(fs)
        ctx.case(("g", text), nontrivial=True, sample={"op": "parse_units", "text": text, "impl": got})
        ctx.count("grammar_%d_factor" % len(fs))
        ctx.count("grammar_consistent" if spec[0] == "ok" else "grammar_two_units_of_one_kind")
        if usp:
            ctx.count("grammar_u_spelling")
        check_grammar_case(ctx, fs, usp, got, text)
        corr_units(ctx, "parse_units", {"kind": "parse_units", "text": text}, got, r)
    for fs, alt, usp, why in variants:
        t1, t2 = render(fs, usp), render(alt, usp)
        g1, g2 = run_parse_units(t1), run_parse_units(t2)
        ctx.case(("v", t1, t2), nontrivial=(t1 != t2))
        ctx.count("variant_" + why)
        check_grammar_case(ctx, alt, usp, g2, t2)
        same = ("error" in g1) == ("error" in g2)
        if same and "ok" in g1:
            u1, u2 = parse_units(t1), parse_units(t2)
            same = (g1["ok"][1] == g2["ok"][1]) and (u1 == u2) and (u2 == u1)
        if not same:
            ctx.violation("variant:%s" % why, "%r and %r are read differently" % (t1, t2),
                          {"kind": "variant", "a": t1, "b": t2}, impl={"a": g1, "b": g2}, expected="same units")

    # ============================================================ 2. round trip of printed units (all 1100 systems)
    rt = []
    for sysm in itertools.product(SPACE, TIME, QTY):
        for _ in range(ctx.n(1, 12)):
            r0 = rng.random()
            if r0 < 0.75:
                dim = tuple(rng.choice([0, 0, 1, 1, -1, 2, -2, 3, -3, 4, -5, 6, -7, 8, 9, -9, 10, -10, 11, 12, 100, -101]) for _ in range(3))
            else:
                dim = tuple(rng.choice([1, -1]) * rng.randrange(10 ** rng.randint(0, 18)) for _ in range(3))
            rt.append((sysm, dim))
    ops, printed = [], []
    for sysm, dim in rt:
        u = mk_units(sysm, dim)
        printed.append(str(u))
        ops.append({"op": "show_units", "u": unitsj(sysm, dim)})
        ops.append({"op": "parse_units", "s": printed[-1]})
    res = ctx.model.run(ops)
    for i, ((sysm, dim), text) in enumerate(zip(rt, printed)):
        rs, rp = res[2 * i], res[2 * i + 1]
        got = run_parse_units(text)
        case = {"kind": "roundtrip_units", "sys": sysm, "dim": dim, "text": text}
        ctx.case(("rt", sysm, dim), nontrivial=any(d != 0 for d in dim),
                 sample={"op": "roundtrip_units", "sys": sysm, "dim": dim, "text": text, "impl": got})
        ctx.count("roundtrip_units")
        ok = "ok" in got and tuple(got["ok"][1]) == tuple(dim) and all(got["ok"][0][k] == sysm[k] for k in range(3) if dim[k] != 0)
        if ok:
            u, back = mk_units(sysm, dim), parse_units(text)
            ok = (back == u) and (u == back) and (Units(text) == u) and (u == text)
        if not ok:
            ctx.violation("roundtrip-units", "printing %s %s gives %r, which is read back as %r" % (sysm, dim, text, got),
                          case, impl=got, expected={"sys": sysm, "dim": dim})
        if rs is not None and rs.get("ok") != text:
            ctx.disagree("show_units", case, text, rs)
        corr_units(ctx, "parse_units", case, got, rp)

    # ============================================================ 3. round trip of quantities (bit-identical value)
    def rand_double():
        k = rng.randrange(8)
        if k == 0:
            while True:
                x = struct.unpack("<d", struct.pack("<Q", rng.getrandbits(64)))[0]
                if x == x and x not in (float("inf"), float("-inf")):
                    return x
        if k == 1:
            return rng.choice([1, -1]) * rng.randint(1, 999999) * 10.0 ** rng.randint(-30, 30)
        if k == 2:
            return float(rng.randint(-10 ** 6, 10 ** 6))
        if k == 3:
            return rng.choice([0.0, -0.0, 5e-324, -5e-324, 2.2250738585072014e-308, 1.7976931348623157e308, -1.7976931348623157e308,
                               1e22, 1e23, 1e16, 9007199254740993.0, 0.1, 1 / 3, 2 / 3, 1e-5, 0.0001, 123456789012345680.0])
        if k == 4:
            return rng.random()
        if k == 5:
            return rng.uniform(-1e6, 1e6)
        if k == 6:
            return float(rng.randint(1, 10 ** 17))
        return rng.choice([1, -1]) * 2.0 ** rng.randint(-1074, 1023)

    n3 = ctx.n(4000, 150000)
    ops, meta = [], []
    for _ in range(n3):
        x = rand_double()
        sysm = (rng.choice(SPACE), rng.choice(TIME), rng.choice(QTY))
        dim = tuple(rng.choice([0, 0, 0, 1, -1, 2, -2, 3, -3, 12]) for _ in range(3))
        v = UnitValue(x, mk_units(sysm, dim))
        text = str(v)
        tbl = float_table(text)
        ops.append({"op": "show_unitvalue", "repr": repr(x), "u": unitsj(sysm, dim)})
        ops.append({"op": "parse_unitvalue", "s": text, "floats": tbl})
        meta.append((x, sysm, dim, text))
    res = ctx.model.run(ops)
    for i, (x, sysm, dim, text) in enumerate(meta):
        rs, rp = res[2 * i], res[2 * i + 1]
        case = {"kind": "roundtrip_value", "value_hex": x.hex(), "sys": sysm, "dim": dim, "text": text}
        ctx.case(("rv", x.hex(), sysm, dim), nontrivial=(x != 0), sample={"op": "roundtrip_value", "text": text})
        ctx.count("roundtrip_value")
        for ctor in (False, True):
            got = run_parse_value(text, ctor)
            ok = "ok" in got and bits(got["ok"][0]) == bits(x) and tuple(got["ok"][2]) == tuple(dim) and \
                all(got["ok"][1][k] == sysm[k] for k in range(3) if dim[k] != 0)
            if not ok:
                ctx.violation("roundtrip-value:%s" % ("ctor" if ctor else "parse"),
                              "printing %s [%s %s] gives %r, read back as %r" % (x.hex(), sysm, dim, text, got), case, impl=got,
                              expected={"value_hex": x.hex(), "sys": sysm, "dim": dim})
        if float(repr(x)) != x or bits(float(repr(x))) != bits(x):
            ctx.violation("float-contract", "float(repr(x)) != x for %s" % x.hex(), case)
        if rs is not None and rs.get("ok") != text:
            ctx.disagree("show_unitvalue", case, text, rs)
        if rp is not None:
            got = run_parse_value(text)
            if ("error" in rp) != ("error" in got):
                ctx.disagree("parse_unitvalue", case, got, rp)
            elif "ok" in rp:
                mo = rp["ok"]
                if rparse(mo["v"]) != frac(got["ok"][0]) or model_units({"ok": mo["u"]}) != (tuple(got["ok"][1]), tuple(got["ok"][2])):
                    ctx.disagree("parse_unitvalue", case, got, rp)

    # quantity text in free form: blanks around / between value and units, u-spelling, valid grammar
    ops, meta = [], []
    for _ in range(ctx.n(1500, 40000)):
        fs = rand_valid(rng)
        utxt = render(fs, rng.random() < 0.3) if rng.random() < 0.9 else ""
        val = rng.choice(["1", "2", "1.5", "-3", "1e3", "+1.3e-10", "-1.3e-10", "0", "7.", ".5", "1E5", "-0.0", "1_0", "12345678901234567890"])
        pad = lambda: "".join(rng.choice([" ", "\t", "\n", " "]) for _ in range(rng.randint(0, 2)))  # noqa
        text = pad() + val + (rng.choice([" ", "  ", "\t", " \n "]) + utxt if utxt else "") + pad()
        ops.append({"op": "parse_unitvalue", "s": text, "floats": float_table(text)})
        meta.append((text, val, fs if utxt else [], utxt))
    for t in ["", " ", "\t\n"]:
        ops.append({"op": "parse_unitvalue", "s": t, "floats": []})
        meta.append((t, None, [], ""))
    res = ctx.model.run(ops)
    for (text, val, fs, utxt), r in zip(meta, res):
        got = run_parse_value(text)
        case = {"kind": "parse_unitvalue", "text": text, "value": val, "factors": [list(f) for f in fs]}
        ctx.case(("pv", text), nontrivial=bool(utxt))
        ctx.count("quantity_free_form")
        spec = denote(fs)
        if "error" in got:
            ctx.violation("quantity-raises", "quantity text of the documented form raised %s: %r" % (got["error"], text), case, impl=got)
        else:
            want = float(val) if val is not None else 0.0
            gsi = si_factor(got["ok"][1], got["ok"][2])
            if bits(got["ok"][0]) != bits(want) or tuple(got["ok"][2]) != spec[1] or gsi != spec[2]:
                ctx.violation("quantity-meaning", "%r read as %r" % (text, got["ok"]), case, impl=got,
                              expected={"value": want, "dim": spec[1], "si": rstr(spec[2])})
        if r is not None:
            if ("error" in r) != ("error" in got):
                ctx.disagree("parse_unitvalue", case, got, r)
            elif "ok" in r and (rparse(r["ok"]["v"]) != frac(got["ok"][0]) or
                                model_units({"ok": r["ok"]["u"]}) != (tuple(got["ok"][1]), tuple(got["ok"][2]))):
                ctx.disagree("parse_unitvalue", case, got, r)

    # ============================================================ 4. malformed text must raise
    mal = [("doc:" + t, "units", t) for t in DOC_WRONG_UNITS] + [("doc:" + t, "value", t) for t in DOC_WRONG_VALUES]
    mal += [("doc:1 " + t, "value", "1 " + t) for t in DOC_WRONG_UNITS]
    mal += [("exotic-exponent", "units", t) for t in ["L-٢", "m2_0", "m٢", "m２", "s-１", "m2²", "m--2", "m2-", "m-", "m2-3", "mol1_0/s", "m-٣.s"]]
    mal += [("embedded-blank", "units", t) for t in ["m s", "m2 .s", "m-1 .s", "mol2\t/s", "m .s", "m. s", "m / s", "µ m", "k mol", "m 2", "m2 s-1"]]
    mal += [("blank-inside-units", "value", t) for t in ["1 m s", "1 mol/µm. s", "1 mol /L", "2 m 2", "1 m2 .s", "3 k mol", "1 m\ts", "1 mol/L s"]]
    for _ in range(ctx.n(5000, 150000)):
        cls, t = malformed_units(rng)
        mal.append((cls, "units", t))
        if rng.random() < 0.3:
            mal.append((cls, "value", rng.choice(["1 ", "2.5  ", "-1e3\t"]) + t))
    for _ in range(ctx.n(2500, 60000)):
        cls, t = malformed_values(rng)
        mal.append((cls, "value", t))
    ops = []
    for cls, kind, t in mal:
        if kind == "units":
            ops.append({"op": "parse_units", "s": t})
        else:
            tbl = float_table(t)
            ops.append({"op": "parse_unitvalue", "s": t, "floats": tbl if tbl is not None else []})
    res = ctx.model.run(ops)
    for (cls, kind, t), r in zip(mal, res):
        ctx.case(("m", kind, t), nontrivial=True)
        ctx.count("malformed_" + (cls if not cls.startswith("doc:") else "documentation_example"))
        case = {"kind": "malformed_" + kind, "class": cls, "text": t}
        if kind == "units":
            gots = [run_parse_units(t)]
            try:
                Units(t)
                gots.append({"ok": "Units(text) accepted"})
            except Exception as ex:  # noqa
                gots.append({"error": type(ex).__name__})
        else:
            gots = [run_parse_value(t, False), run_parse_value(t, True)]
        for g in gots:
            if "error" not in g:
                ckey = cls if not cls.startswith("doc:") else "documentation-example"
                ctx.violation("accepted:%s:%s" % (kind, ckey), "text outside the grammar (%s) accepted: %r read as %r" % (cls, t, g["ok"]),
                              case, impl=g, expected="exception")
                break
        if r is not None and ("error" in r) != ("error" in gots[0]):
            ctx.disagree("parse_units" if kind == "units" else "parse_unitvalue", case, gots[0], r)

    # ============================================================ 4b. purity: parse -> edit the result -> parse again
    # (equal inputs give equal outputs whatever happened before; results of different calls share no component)
    entries = ["parse_units", "Units", "parse_unitvalue", "UnitValue", "units-setter"]
    for i in range(ctx.n(600, 8000)):
        fs = rand_valid(rng)
        usp = rng.random() < 0.3
        text = render(fs, usp)
        edits = [(rng.choice(["dim", "sys"]), rng.randrange(3), rng.randint(1, 5)) for _ in range(rng.randint(1, 3))]
        entry1, entry2 = rng.choice(entries), entries[i % len(entries)]
        case = {"kind": "reparse", "text": text, "factors": [list(f) for f in fs], "edits": [list(e) for e in edits],
                "entry1": entry1, "entry2": entry2}
        ctx.case(("pur", text, entry1, entry2, tuple(edits)), nontrivial=True)
        ctx.count("purity_reparse_" + entry2)
        bad = reparse_sequence(case)
        if bad is not None:
            ctx.violation(bad[0], bad[1], case, impl=bad[2], expected=bad[3])

    # ============================================================ 5. Units.__eq__ and int() of exponent text
    ops, meta = [], []
    for _ in range(ctx.n(1500, 30000)):
        s1 = (rng.choice(SPACE), rng.choice(TIME), rng.choice(QTY))
        d1 = tuple(rng.choice([0, 0, 1, -1, 2]) for _ in range(3))
        s2 = tuple(s1[k] if rng.random() < 0.7 else rng.choice((SPACE, TIME, QTY)[k]) for k in range(3))
        d2 = tuple(d1[k] if rng.random() < 0.85 else rng.choice([0, 1, -1, 2]) for k in range(3))
        ops.append({"op": "units_eq", "a": unitsj(s1, d1), "b": unitsj(s2, d2)})
        meta.append((s1, d1, s2, d2))
    res = ctx.model.run(ops)
    for (s1, d1, s2, d2), r in zip(meta, res):
        got = bool(mk_units(s1, d1) == mk_units(s2, d2))
        want = d1 == d2 and all(s1[k] == s2[k] for k in range(3) if d1[k] != 0)
        case = {"kind": "units_eq", "a": [s1, d1], "b": [s2, d2]}
        ctx.case(("eq", s1, d1, s2, d2), nontrivial=(s1 != s2 or d1 != d2))
        ctx.count("units_eq")
        if got != want:
            ctx.violation("units-eq", "Units.__eq__ gives %s for %s%s vs %s%s" % (got, s1, d1, s2, d2), case, impl=got, expected=want)
        if r is not None and r.get("ok") != got:
            ctx.disagree("units_eq", case, got, r)
    ops, meta = [], []
    alphabet = "0123456789-+_ \t.e"
    for _ in range(ctx.n(2000, 40000)):
        t = "".join(rng.choice(alphabet if rng.random() < 0.3 else "0123456789-_") for _ in range(rng.randint(1, 6)))
        ops.append({"op": "py_int", "s": t})
        meta.append(t)
    res = ctx.model.run(ops)
    for t, r in zip(meta, res):
        try:
            got = {"ok": int(t)}
        except ValueError:
            got = {"error": "ValueError"}
        ctx.case(("int", t), nontrivial=True)
        ctx.count("py_int")
        if r is not None and (("error" in r) != ("error" in got) or ("ok" in r and r["ok"] != got["ok"])):
            ctx.disagree("py_int(model of the trusted int())", {"kind": "py_int", "text": t}, got, r)


def search(ctx):
    """extra failing-input search: a larger malformed / grammar stream on the real code (oracle only)"""
    rng = ctx.rng
    budget = min(ctx.time_left() - 5, 120)
    import time
    t0 = time.time()
    n = 0
    while time.time() - t0 < budget and not ctx.violations:
        cls, t = malformed_units(rng) if n % 3 else malformed_values(rng)
        kind = "units" if n % 3 else "value"
        n += 1
        g = run_parse_units(t) if kind == "units" else run_parse_value(t)
        if "error" not in g:
            ctx.violation("accepted:%s:%s" % (kind, cls), "text outside the grammar (%s) accepted: %r read as %r" % (cls, t, g["ok"]),
                          {"kind": "malformed_" + kind, "class": cls, "text": t}, impl=g, expected="exception")
        fs = [rand_factor(rng, i == 0) for i in range(rng.randint(1, 3))]
        usp = rng.random() < 0.2
        text = render(fs, usp)
        check_grammar_case(ctx, fs, usp, run_parse_units(text), text)
    ctx.count("search_cases", n)


def replay(ctx, rec):
    """re-run one recorded case on the real code and re-evaluate the property's predicate"""
    parse_units, parse_unitvalue, Units, UnitValue, UnitsSystem, UnitsDimensions = impl()
    case = rec.get("case", rec)
    kind = case.get("kind")
    out = {"case": case}
    ok = True
    if kind == "parse_units":
        got = run_parse_units(case["text"])
        out["impl"] = got
        if "factors" in case:
            fs = [(f[0], f[1], f[2]) for f in case["factors"]]
            spec = denote(fs)
            out["expected"] = "exception (two units of one base kind)" if spec[0] == "conflict" else {"dim": spec[1], "si": rstr(spec[2])}
            if spec[0] == "conflict":
                ok = "error" in got
            else:
                ok = "ok" in got and tuple(got["ok"][1]) == spec[1] and si_factor(got["ok"][0], got["ok"][1]) == spec[2]
                if ok and len(fs) <= 2:
                    one = UnitValue(1.0, case["text"]).convert(UnitsSystem("m", "s", "molecule")).value
                    out["one_in_SI"] = one
                    ok = close(one, spec[2], rel=1e-12)
    elif kind == "variant":
        g1, g2 = run_parse_units(case["a"]), run_parse_units(case["b"])
        out["impl"] = {"a": g1, "b": g2}
        ok = ("error" in g1) == ("error" in g2) and ("error" in g1 or (g1["ok"][1] == g2["ok"][1] and parse_units(case["a"]) == parse_units(case["b"])))
    elif kind == "roundtrip_units":
        u = mk_units(case["sys"], case["dim"])
        text = str(u)
        got = run_parse_units(text)
        out.update(text=text, impl=got)
        ok = "ok" in got and tuple(got["ok"][1]) == tuple(case["dim"]) and parse_units(text) == u
    elif kind == "roundtrip_value":
        x = float.fromhex(case["value_hex"])
        text = str(UnitValue(x, mk_units(case["sys"], case["dim"])))
        got = [run_parse_value(text, False), run_parse_value(text, True)]
        out.update(text=text, impl=got)
        ok = all("ok" in g and bits(g["ok"][0]) == bits(x) and tuple(g["ok"][2]) == tuple(case["dim"]) for g in got)
    elif kind == "parse_unitvalue":
        got = run_parse_value(case["text"])
        spec = denote([(f[0], f[1], f[2]) for f in case.get("factors", [])])
        want = float(case["value"]) if case.get("value") is not None else 0.0
        out.update(impl=got, expected={"value": want, "dim": spec[1], "si": rstr(spec[2])})
        ok = "ok" in got and bits(got["ok"][0]) == bits(want) and tuple(got["ok"][2]) == spec[1] and \
            si_factor(got["ok"][1], got["ok"][2]) == spec[2]
    elif kind in ("malformed_units", "malformed_value"):
        t = case["text"]
        if kind == "malformed_units":
            gots = [run_parse_units(t)]
            try:
                Units(t)
                gots.append({"ok": "Units(text) accepted"})
            except Exception as ex:  # noqa
                gots.append({"error": type(ex).__name__})
        else:
            gots = [run_parse_value(t, False), run_parse_value(t, True)]
        out.update(impl=gots, expected="exception")
        ok = all("error" in g for g in gots)
    elif kind == "reparse":
        bad = reparse_sequence(case)
        out.update(impl=None if bad is None else {"key": bad[0], "what": bad[1], "impl": bad[2]}, expected=None if bad is None else bad[3])
        ok = bad is None
    elif kind == "units_eq":
        (s1, d1), (s2, d2) = case["a"], case["b"]
        got = bool(mk_units(s1, d1) == mk_units(s2, d2))
        want = tuple(d1) == tuple(d2) and all(s1[k] == s2[k] for k in range(3) if d1[k] != 0)
        out.update(impl=got, expected=want)
        ok = got == want
    else:
        out["note"] = "unknown case kind"
        ok = False
    return ok, out
